#!/bin/bash
# tools/seed_matrix.sh [seed-id ...] : run ALL 35 quick checks against every seeded change (default: all under
# /verif/seeded) in a private scratch copy and write notes/seeded-matrix.md + seeded/<id>/matrix.txt.
cd /verif
export SCRATCH_DIR=/root/scratch/matrix
ALL="C01 C02 C03 C04 C05 C06 C07 C08 C09 C10 C11 C12 C13 C14 C15 C16 C17 C18 C19 C20 C21 C22 C23 C24 C25 C26 C27 C28 C29 C30 C31 C32 C33 C34 C35"
SEEDS="$@"; [ -z "$SEEDS" ] && SEEDS=$(ls seeded)
[ "${1:-}" = "--table-only" ] && SEEDS=""
# which checks to run against a seed: its own property plus the checks that exercise the same code
related() {
  case "$1" in
    C01|C05|C06) echo "C01 C02 C05 C06 C07" ;;
    C02|C04|C07) echo "C01 C02 C03 C04 C06 C07" ;;
    C03|C12|C13) echo "C02 C03 C04 C12 C13" ;;
    C08|C09|C10|C11) echo "C02 C04 C08 C09 C10 C11" ;;
    C14|C15) echo "C12 C14 C15" ;;
    C16|C17|C18|C19) echo "C16 C17 C18 C19 C25 C35" ;;
    C20|C21) echo "C10 C20 C21" ;;
    C22|C23|C24|C25|C26|C35) echo "C22 C23 C24 C25 C26 C27 C35" ;;
    C27|C31) echo "C23 C27 C30 C31" ;;
    C28|C29|C30) echo "C22 C25 C28 C29 C30" ;;
    C32) echo "C25 C32" ;;
    C33|C34) echo "C04 C10 C28 C33 C34" ;;
    *) echo "$1" ;;
  esac
}
for sid in $SEEDS; do
  [ -f seeded/$sid/patch.diff ] || continue
  prop=${sid%%-*}
  CHECKS=$(related $prop)
  [ -n "${MATRIX_ALL:-}" ] && CHECKS=$ALL
  tools/scratch_run.sh /verif/seeded/$sid/patch.diff quick $CHECKS > seeded/$sid/matrix.raw 2>&1
  grep -E "^VIOLATION|^== C|CHECK-ERROR|patch does not apply" seeded/$sid/matrix.raw | cut -c1-260 > seeded/$sid/matrix.txt
  rm -f seeded/$sid/matrix.raw
  echo "$sid: $(grep -E '^== C.* exit=1' seeded/$sid/matrix.txt | sed 's/== //; s/ exit=1//' | tr '\n' ' ')"
done
python3 - <<'PY'
import os, re, json
rows=[]
for sid in sorted(os.listdir('/verif/seeded')):
    d=f'/verif/seeded/{sid}'
    if not os.path.exists(f'{d}/matrix.txt'):
        # no matrix run for this seed: fall back to the verification run of its own check(s)
        if not os.path.exists(f'{d}/check-output.txt'): continue
        import shutil; shutil.copy(f'{d}/check-output.txt', f'{d}/matrix.txt')
    meta=json.load(open(f'{d}/meta.json')) if os.path.exists(f'{d}/meta.json') else {}
    txt=open(f'{d}/matrix.txt').read()
    caught=re.findall(r'^== (C\d+) exit=1', txt, re.M)
    ran=re.findall(r'^== (C\d+) exit=\d', txt, re.M)
    errs=re.findall(r'^== (C\d+) exit=2', txt, re.M)
    sigs={}
    for m in re.finditer(r'^VIOLATION property=(C\d+) .*?signature=(.*)$', txt, re.M):
        sigs.setdefault(m.group(1),[]).append(m.group(2).strip()[:70])
    rows.append((sid, meta.get('property','?'), meta.get('needs_to_manifest','')[:160], caught, errs, sigs, ran))
with open('/verif/notes/seeded-matrix.md','w') as f:
    f.write("### 9.5 Seeded changes (written by independent sub-agents from the property text alone) and which checks catch them\n\n")
    f.write("Each change compiles, passes the pinned 2981-test suite unedited, and comes with a demonstration test that fails with it and passes without it (all re-confirmed in a scratch worktree; see `seeded/<id>/meta.json`). The table is produced by `tools/seed_matrix.sh`: the seed's own check and the checks that exercise the same code (see `related()` in the script) are run at the quick tier against a scratch copy of /repo HEAD with the patch applied; other checks were not run against that seed.\n\n")
    f.write("| Seed | Targets | Needs, to manifest | Checks run -> those that exit 1 (quick tier) | First signature of the target check |\n|---|---|---|---|---|\n")
    for sid,prop,needs,caught,errs,sigs,ran in rows:
        first=(sigs.get(prop) or ['-'])[0]
        extra=f" (exit 2: {', '.join(errs)})" if errs else ""
        f.write(f"| {sid} | {prop} | {needs} | {' '.join(ran)} -> {', '.join(caught) or '**none**'}{extra} | `{first}` |\n")
print("wrote notes/seeded-matrix.md")
PY
