#!/bin/bash
# tools/merge_group.sh <group> <Cxx> [<Cyy>...] : copy a sub-agent's monitor files into /verif/harness and register them
set -eu
G=$1; shift
S=/root/scratch/$G/harness/src
H=/verif/harness/src
for d in gen model; do
  for f in $S/$d/*.rs; do
    b=$(basename $f)
    [ "$b" = mod.rs ] && continue
    [ "$d" = gen ] && [ "$b" = text.rs ] && continue
    [ "$d" = model ] && [ "$b" = names.rs ] && continue
    cp $f $H/$d/$b
    m=${b%.rs}
    grep -q "^pub mod $m;" $H/$d/mod.rs || echo "pub mod $m;" >> $H/$d/mod.rs
  done
done
for P in "$@"; do
  p=$(echo $P | tr 'A-Z' 'a-z')
  cp $S/props/$p.rs $H/props/$p.rs
  grep -q "^pub mod $p;" $H/props/mod.rs || sed -i "s/^pub mod c01;/pub mod c01;\npub mod $p;/" $H/props/mod.rs
  grep -q "&$p::INFO" $H/props/mod.rs || sed -i "s/\(pub static REGISTRY: &\[&PropInfo\] = &\[.*\)\];/\1, \&$p::INFO];/" $H/props/mod.rs
done
grep -n "REGISTRY" $H/props/mod.rs
