#!/bin/bash
# Run checks against a scratch copy of /repo (HEAD) with a patch applied, without touching /repo.
#   tools/scratch_run.sh <patch.diff|--revert <commit>|--none> <tier> <Cxx> [<Cyy> ...]
# Scratch lives in /root/scratch/main (worktree + harness copy + its own target dir).
set -u
S=${SCRATCH_DIR:-/root/scratch/main}
mkdir -p $S
if [ ! -d $S/repo/.git ] && [ ! -f $S/repo/.git ]; then
  git -C /repo worktree add --detach $S/repo HEAD >/dev/null 2>&1 || { echo "worktree add failed"; exit 2; }
fi
git -C $S/repo revert --abort >/dev/null 2>&1
git -C $S/repo reset -q --hard || exit 2
git -C $S/repo clean -fdq -e target
git -C $S/repo checkout -q --detach "$(git -C /repo rev-parse HEAD)" || { echo "cannot check out /repo HEAD in scratch"; exit 2; }
[ "$(git -C $S/repo rev-parse HEAD)" = "$(git -C /repo rev-parse HEAD)" ] || { echo "scratch repo not at /repo HEAD"; exit 2; }
case "$1" in
  --none) shift ;;
  --revert) git -C $S/repo revert --no-commit "$2" || exit 2; shift 2 ;;
  *) git -C $S/repo apply "$1" || { echo "patch does not apply"; exit 2; }; shift ;;
esac
TIER=$1; shift
mkdir -p $S/verif
rsync -a --delete --exclude target --exclude .work --exclude evidence --exclude replays --exclude .git /verif/ $S/verif/
sed -i "s#/repo/quil-rs#$S/repo/quil-rs#" $S/verif/harness/Cargo.toml
mkdir -p $S/verif/evidence $S/verif/replays
rc=0
for P in "$@"; do
  (cd $S/verif && ./check $P --tier $TIER) ; r=$?
  echo "== $P exit=$r"
  [ $r -ne 0 ] && rc=$r
done
exit $rc
