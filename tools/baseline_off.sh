#!/bin/bash
# Runs the repository's pinned test suite with the verification guard OFF (no --cfg rigetti_quil_rs_verif)
# and compares the set of passing tests with /root/.vp/BASELINE.json (stable_pass). Exit 0 iff all pass.
set -u
cd /repo || exit 2
unset RUSTFLAGS
export CARGO_NET_OFFLINE=true
OUT=$(mktemp -d /root/.baseline.XXXXXX)
trap 'rm -rf "$OUT"' EXIT
cargo nextest run --workspace --no-fail-fast --offline --test-threads 8 --no-tests=pass \
  --message-format libtest-json-plus >"$OUT/events.jsonl" 2>"$OUT/stderr.log"
status=$?
export NEXTEST_EXPERIMENTAL_LIBTEST_JSON=1
if [ ! -s "$OUT/events.jsonl" ]; then
  NEXTEST_EXPERIMENTAL_LIBTEST_JSON=1 cargo nextest run --workspace --no-fail-fast --offline --test-threads 8 \
    --message-format libtest-json-plus >"$OUT/events.jsonl" 2>"$OUT/stderr.log"
  status=$?
fi
python3 - "$OUT/events.jsonl" "$status" <<'PY'
import json, sys
events, status = sys.argv[1], int(sys.argv[2])
passed, failed = set(), set()
for line in open(events, errors="replace"):
    line = line.strip()
    if not line.startswith("{"):
        continue
    try:
        ev = json.loads(line)
    except Exception:
        continue
    if ev.get("type") == "test" and ev.get("event") in ("ok", "failed"):
        name = ev.get("name", "")
        # libtest-json-plus names look like "<binary-id>$<test name>"
        left, _, test = name.partition("$")
        crate, _, binary = left.partition("::")
        if binary == crate.replace("-", "_"):
            left = crate  # the library's own unit tests are listed under the crate name
        name = f"{left}::{test}"
        (passed if ev["event"] == "ok" else failed).add(name)
base = json.load(open("/root/.vp/BASELINE.json"))
stable = set(base["stable_pass"])
missing = sorted(t for t in stable if t not in passed)
print(f"baseline_off: passed={len(passed)} failed={len(failed)} stable_pass={len(stable)} missing_from_pass={len(missing)} nextest_exit={status}")
for t in missing[:30]:
    print("  NOT PASSING:", t)
sys.exit(0 if not missing and not failed and status == 0 else 1)
PY
