#!/usr/bin/env python3
"""Prints the prompt for a fresh mutation-seeding sub-agent: tools/seed_prompt.py Cxx  (also creates the worktree)."""
import json, subprocess, sys, os
pid = sys.argv[1]
round_tag = sys.argv[2] if len(sys.argv) > 2 else ""
props = {json.loads(l)["id"]: json.loads(l) for l in open("/verif/properties.jsonl")}
p = props[pid]
wt = f"/tmp/seed/{pid}{round_tag}"
previous = ""
if round_tag:
    try:
        prior = []
        for tag in ("a", "b", "c"):
            mp = f"/verif/seeded/{pid}-{tag}/meta.json"
            if os.path.exists(mp) and f"-{tag}" != round_tag:
                prior.append(json.load(open(mp)).get("needs_to_manifest", ""))
        m = {"needs_to_manifest": "\"; and another like this: \"".join(prior)}
        previous = ("\nNOTE: other contributors have already submitted changes for this property that manifests like this: \"" + m.get("needs_to_manifest", "") + "\". Yours must work through a DIFFERENT mechanism, a different code path and a different kind of triggering input/sequence (ideally breaking a different clause of the statement).\n")
    except Exception:
        pass
if not os.path.exists(wt):
    subprocess.run(["git", "-C", "/repo", "worktree", "add", "--detach", wt, "HEAD"], check=True, capture_output=True)
anchors = ", ".join(p["anchors"]["files"])
print(f"""You are helping to evaluate a test/verification setup for the Rust library rigetti/quil-rs (Quil quantum instruction language: parser, AST, Program container, calibration expansion, scheduling, ...). You have your own scratch git worktree of the repository at {wt} (work ONLY there; never touch /repo, /verif or any other directory except files you create under {wt}). The sandbox is offline; build with `cargo ... --offline`.

Here is a semantic property that the library is supposed to satisfy:

  Title: {p['title']}
  Statement: {p['statement']}
  Scope: {p['quantifier']['text']}
  Code most relevant to it: {anchors}

{previous}
YOUR TASK: write ONE realistic change (a plausible bug: a refactoring slip, an off-by-one, a wrong condition, a dropped case, a "simplification" or "optimisation" that is subtly wrong, two cooperating edits that each look fine alone ...) to the library source under {wt}/quil-rs/src that BREAKS this property, while
  (1) the workspace still compiles, and
  (2) the ENTIRE existing test suite still passes, unedited:  cd {wt} && cargo nextest run --workspace --no-fail-fast --offline --test-threads 8 2>&1 | tail -15   (2981 tests; takes a few minutes the first time), and
  (3) the break needs something SPECIFIC to manifest — a particular multi-step sequence of operations, an unusual input shape, a particular combination of operands/modifiers/definitions, a boundary value, a specific ordering — i.e. NOT something that ordinary use or a trivial smoke test would expose at once. Prefer subtle over blatant; it must still be a genuine violation of the statement above as a user would understand it (not merely a change in an error message or in unspecified behaviour).
Do not add, delete or edit tests or snapshot files, and do not change public function signatures.

DELIVERABLES (all under {wt}/seed/, create the directory):
  - patch.diff : `git -C {wt} diff -- quil-rs/src > {wt}/seed/patch.diff` (source change only).
  - demo.rs    : a self-contained Rust integration test file using only the public API of the `quil_rs` crate (it will be copied to quil-rs/tests/seed_demo.rs and run with `cargo test -p quil-rs --offline --test seed_demo`) that FAILS with your change and PASSES on the unchanged library. Verify both yourself (use `git stash` / `git stash pop` or `git apply -R` to switch).
  - meta.txt   : a few lines: what the change is, which part of the statement it breaks, exactly what is needed for it to manifest, and the commands you ran with their outcomes (test suite summary line with the change; demo result with and without the change).
If your first idea is caught by the existing tests, try another until (1)-(3) hold. Keep tool outputs short (pipe through tail/head). When done, make sure the worktree still contains your change applied (uncommitted) and reply with a brief summary (the change, why it needs something specific, verification results).""")
