#!/bin/bash
# DESIGN.md = the design written before the code (notes/design-plan.md, kept verbatim) + the as-built part
# (notes/asbuilt.md: what differs from the plan, defects found and their disposition, corrections log,
# sensitivity results, seeded-change detection matrix).
cd "$(dirname "$0")/.."
{
  cat notes/design-plan.md
  echo
  echo "---------------------------------------------------------------------------"
  echo
  echo "> Sections 1-8 above are the design as written before any framework code and are kept verbatim;"
  echo "> where they say \"tentative\" or \"Today: violated\", section 9 below records what was actually"
  echo "> built, found, repaired or recorded. Section 9 takes precedence."
  echo
  cat notes/asbuilt.md
  if [ -f notes/seeded-matrix.md ]; then echo; cat notes/seeded-matrix.md; fi
  echo
  python3 - <<'PY'
import json, os
print("### 9.6 Seeded changes that were missed at first, and how the checks were strengthened\n")
print("A seeded change that a check missed was never answered by loosening anything: the workload or the observation was widened until the change left a trace, and the widened check was re-run on the unchanged tree (silent) before being kept.\n")
rows = []
for sid in sorted(os.listdir("/verif/seeded")):
    mp = f"/verif/seeded/{sid}/meta.json"
    if not os.path.exists(mp): continue
    m = json.load(open(mp))
    d = m.get("detected_by", "")
    if d.startswith("initially MISSED"):
        rows.append((sid, d))
for sid, d in rows:
    print(f"* **{sid}** - {d}")
missed = []
for sid in sorted(os.listdir("/verif/seeded")):
    mp = f"/verif/seeded/{sid}/meta.json"
    if os.path.exists(mp):
        d = json.load(open(mp)).get("detected_by", "")
        if d.startswith("NOT DETECTED"):
            missed.append((sid, d))
if missed:
    print("\nSeeded changes that no check detects (limits of the oracles, kept on record rather than papered over):\n")
    for sid, d in missed:
        print(f"* **{sid}** - {d}")
print(f"\n{len(rows)} of {len([s for s in os.listdir('/verif/seeded') if os.path.exists(f'/verif/seeded/{s}/meta.json')])} seeded changes were missed at first and are detected now (see 9.5); {len(missed)} is not detected.")
PY
} > DESIGN.md
wc -l DESIGN.md
