#!/bin/bash
# DESIGN.md = the design written before the code (notes/design-plan.md, kept verbatim) + the as-built part
# (notes/asbuilt.md: what differs from the plan, defects found and their disposition, corrections log,
# sensitivity results, seeded-change detection matrix).
cd "$(dirname "$0")/.."
{
  cat notes/design-plan.md
  echo
  echo "---------------------------------------------------------------------------"
  echo
  echo "> Sections 1-8 above are the design as written before any framework code and are kept verbatim;"
  echo "> where they say \"tentative\" or \"Today: violated\", section 9 below records what was actually"
  echo "> built, found, repaired or recorded. Section 9 takes precedence."
  echo
  cat notes/asbuilt.md
  if [ -f notes/seeded-matrix.md ]; then echo; cat notes/seeded-matrix.md; fi
} > DESIGN.md
wc -l DESIGN.md
