#!/usr/bin/env python3
"""Regenerates /verif/MANIFEST.json from the table below (one entry per claimed property)."""
import json, os, subprocess

ROOT = os.path.dirname(os.path.dirname(os.path.abspath(__file__)))

# id -> (technique, level text, level note, DESIGN ref); the table lives in tools/claims.json
CLAIMED = {
    k: (v["technique"], v["text"], v["note"], v["design_ref"])
    for k, v in json.load(open(os.path.join(ROOT, "tools", "claims.json"))).items()
}

NOT_YET = "monitor designed in DESIGN.md §4 but not built in this revision of /verif; nothing is claimed for it yet"


def main():
    props = [json.loads(l) for l in open(os.path.join(ROOT, "properties.jsonl"))]
    hooks_commits = []
    try:
        out = subprocess.run(
            ["git", "-C", "/repo", "log", "--format=%H %s"], capture_output=True, text=True
        ).stdout
        for line in out.splitlines():
            sha, _, subject = line.partition(" ")
            if subject.startswith("verif hooks"):
                hooks_commits.append(sha)
    except Exception:
        pass
    checks, na = [], []
    for p in props:
        pid = p["id"]
        if pid in CLAIMED:
            technique, text, note, ref = CLAIMED[pid]
            checks.append(
                {
                    "property_id": pid,
                    "quick_cmd": f"./check {pid} --tier quick",
                    "thorough_cmd": f"./check {pid} --tier thorough",
                    "evidence_file": f"/verif/evidence/{pid}.json",
                    "replay_cmd_template": f"./check {pid} --replay {{path}}",
                    "engine": "monitor",
                    "level_claimed": {"category": "exploration", "text": text, "design_ref": ref},
                    "level_note": note,
                    "technique": technique,
                }
            )
        else:
            na.append({"property_id": pid, "reason": NOT_YET})
    manifest = {
        "version": 1,
        "setup_cmd": "./check --build-only",
        "hooks": {
            "guard": "--cfg rigetti_quil_rs_verif (rustc cfg flag)",
            "enable": "RUSTFLAGS=\"--cfg rigetti_quil_rs_verif -C overflow-checks=on -C debug-assertions=on\" cargo build --release --offline in /verif/harness (path dependency on /repo/quil-rs); done by ./check",
            "baseline_off_cmd": "/verif/tools/baseline_off.sh",
            "source_commits": hooks_commits,
            "add_only": True,
        },
        "engines": [
            {
                "name": "monitor",
                "path": "/verif/harness",
                "serves_properties": sorted(CLAIMED),
                "kind_free_text": "Rust harness linked against the real quil-rs crate: sharded child processes execute generated workloads while property monitors (reference models, invariant checkers, metamorphic oracles, crash monitor) observe every execution; a supervising parent attributes process deaths, applies a watchdog (inconclusive), merges event logs, matches known findings and writes evidence",
            }
        ],
        "checks": checks,
        "not_applicable": na,
        "notes": "All checks: exit 0 = held on everything observed (KNOWN-FINDING lines for entries of /verif/known_findings.json with status=known), exit 1 = VIOLATION line(s) with a replay file, exit 2 = the check itself could not observe (build failure against the current tree, too little observed, harness error). VERIF_SEED seeds all random choices.",
    }
    with open(os.path.join(ROOT, "MANIFEST.json"), "w") as f:
        json.dump(manifest, f, indent=1)
        f.write("\n")
    print(f"MANIFEST.json: {len(checks)} checks, {len(na)} not_applicable")


if __name__ == "__main__":
    main()
