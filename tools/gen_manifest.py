#!/usr/bin/env python3
"""Regenerates /verif/MANIFEST.json from the table below (one entry per claimed property)."""
import json, os, subprocess

ROOT = os.path.dirname(os.path.dirname(os.path.abspath(__file__)))

# id -> (technique, level text, level note, DESIGN ref)
CLAIMED = {
    "C01": (
        "runtime crash monitor (catch_unwind panic hook + process-death attribution by a supervising parent) over exhaustive short token sequences, grammar programs, mutants and nesting stress",
        "Every generated input is executed against all five real parsing entry points with overflow checks on; a panic or a death of the child process is observed directly and attributed to the input in flight. Exhaustive for <=3-token inputs over the token alphabet, sampled beyond. This is observation of executions, not a proof over all strings.",
        "Trusts the supervisor's case-begin attribution, the 8 MB default stack, and that overflow-checks=on mirrors the repository's test profile.",
        "DESIGN.md §4 C01",
    ),
    "C05": (
        "value-first reference oracle: literal spellings generated from chosen values, parsed by the real parser, operand compared with the value (u128/i128 arithmetic and Rust's correctly rounded f64 parser as reference)",
        "Every (position, spelling) case is executed through Program::from_str and the operand that comes out is compared with the mathematical value the spelling was generated from; boundary values around 2^31..2^64 in four radices in ~37 operand positions plus random spellings. Held-on-observed, not a proof over all spellings.",
        "Trusts Rust's str::parse::<f64> as correctly rounded reference and the extraction of the operand by pattern matching on the public AST.",
        "DESIGN.md §4 C05",
    ),
    "C06": (
        "metamorphic name-bag oracle: a name written into each syntactic position must come back byte-identical from an independent walk over the parsed AST",
        "Names from a mixed-case/dash/keyword-look-alike battery and random identifiers are placed in ~105 name positions (incl. multi-use programs); after parsing, the multiset of all names found in the AST must equal the template's fixed names plus the chosen spelling. Held-on-observed.",
        "Trusts the AST walker (model/names.rs) to visit every public name-bearing field; DEFGATE AS SEQUENCE bodies are crate-private and not walked.",
        "DESIGN.md §4 C06",
    ),
}

NOT_YET = "monitor designed in DESIGN.md §4 but not built in this revision of /verif; nothing is claimed for it yet"


def main():
    props = [json.loads(l) for l in open(os.path.join(ROOT, "properties.jsonl"))]
    hooks_commits = []
    try:
        out = subprocess.run(
            ["git", "-C", "/repo", "log", "--format=%H %s"], capture_output=True, text=True
        ).stdout
        for line in out.splitlines():
            sha, _, subject = line.partition(" ")
            if subject.startswith("verif hooks"):
                hooks_commits.append(sha)
    except Exception:
        pass
    checks, na = [], []
    for p in props:
        pid = p["id"]
        if pid in CLAIMED:
            technique, text, note, ref = CLAIMED[pid]
            checks.append(
                {
                    "property_id": pid,
                    "quick_cmd": f"./check {pid} --tier quick",
                    "thorough_cmd": f"./check {pid} --tier thorough",
                    "evidence_file": f"/verif/evidence/{pid}.json",
                    "replay_cmd_template": f"./check {pid} --replay {{path}}",
                    "engine": "monitor",
                    "level_claimed": {"category": "exploration", "text": text, "design_ref": ref},
                    "level_note": note,
                    "technique": technique,
                }
            )
        else:
            na.append({"property_id": pid, "reason": NOT_YET})
    manifest = {
        "version": 1,
        "setup_cmd": "./check --build-only",
        "hooks": {
            "guard": "--cfg rigetti_quil_rs_verif (rustc cfg flag)",
            "enable": "RUSTFLAGS=\"--cfg rigetti_quil_rs_verif -C overflow-checks=on -C debug-assertions=on\" cargo build --release --offline in /verif/harness (path dependency on /repo/quil-rs); done by ./check",
            "baseline_off_cmd": "/verif/tools/baseline_off.sh",
            "source_commits": hooks_commits,
            "add_only": True,
        },
        "engines": [
            {
                "name": "monitor",
                "path": "/verif/harness",
                "serves_properties": sorted(CLAIMED),
                "kind_free_text": "Rust harness linked against the real quil-rs crate: sharded child processes execute generated workloads while property monitors (reference models, invariant checkers, metamorphic oracles, crash monitor) observe every execution; a supervising parent attributes process deaths, applies a watchdog (inconclusive), merges event logs, matches known findings and writes evidence",
            }
        ],
        "checks": checks,
        "not_applicable": na,
        "notes": "All checks: exit 0 = held on everything observed (KNOWN-FINDING lines for entries of /verif/known_findings.json with status=known), exit 1 = VIOLATION line(s) with a replay file, exit 2 = the check itself could not observe (build failure against the current tree, too little observed, harness error). VERIF_SEED seeds all random choices.",
    }
    with open(os.path.join(ROOT, "MANIFEST.json"), "w") as f:
        json.dump(manifest, f, indent=1)
        f.write("\n")
    print(f"MANIFEST.json: {len(checks)} checks, {len(na)} not_applicable")


if __name__ == "__main__":
    main()
