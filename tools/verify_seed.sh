#!/bin/bash
# tools/verify_seed.sh <seed-id> <src-dir-with patch.diff demo.rs meta.txt> <Cxx> [more checks...]
# Confirms a seeded change in a scratch worktree (compiles, full suite passes, demo fails with / passes
# without), then runs the named checks (quick tier) against it in the scratch harness copy.
# Writes /verif/seeded/<seed-id>/{patch.diff,demo.rs,meta.txt,meta.json,check-output.txt}
set -u
ID=$1; SRC=$2; shift 2
OUT=/verif/seeded/$ID
mkdir -p $OUT
cp $SRC/patch.diff $SRC/demo.rs $OUT/ 2>/dev/null
[ -f $SRC/meta.txt ] && cp $SRC/meta.txt $OUT/agent-notes.txt
W=/tmp/seedverify
export CARGO_NET_OFFLINE=true
if [ ! -e $W/.git ]; then git -C /repo worktree add --detach $W HEAD >/dev/null 2>&1; fi
git -C $W reset -q --hard; rm -f $W/quil-rs/tests/seed_demo.rs; git -C $W checkout -q --detach "$(git -C /repo rev-parse HEAD)" || exit 2
if ! git -C $W apply $OUT/patch.diff; then echo "PATCH DOES NOT APPLY to current HEAD"; exit 2; fi
cd $W
suite=$(cargo nextest run --workspace --no-fail-fast --offline --test-threads 8 2>&1 | grep -E "Summary|error\[" | tail -3)
echo "suite with change: $suite"
cp $OUT/demo.rs quil-rs/tests/seed_demo.rs
demo_with=$(cargo test -p quil-rs --offline --test seed_demo 2>&1 | grep -E "^test result|error" | tail -2)
echo "demo with change: $demo_with"
git -C $W apply -R $OUT/patch.diff
demo_without=$(cargo test -p quil-rs --offline --test seed_demo 2>&1 | grep -E "^test result|error" | tail -2)
echo "demo without change: $demo_without"
rm -f quil-rs/tests/seed_demo.rs
cd /verif
: > $OUT/check-output.txt
detected=""
for P in "$@"; do
  /verif/tools/scratch_run.sh $OUT/patch.diff quick $P > $OUT/check-$P.tmp 2>&1
  rc=$(grep -o "== $P exit=[0-9]*" $OUT/check-$P.tmp | grep -o "[0-9]*$")
  grep -E "VIOLATION|KNOWN-FINDING|CHECK-ERROR|^\[$P\]|== $P" $OUT/check-$P.tmp | cut -c1-300 >> $OUT/check-output.txt
  rm -f $OUT/check-$P.tmp
  detected="$detected $P:exit=$rc"
done
echo "checks:$detected"
python3 - "$ID" "$suite" "$demo_with" "$demo_without" "$detected" <<'PY'
import json,sys,subprocess
i,suite,dw,dwo,det=sys.argv[1:6]
meta={"seed_id":i,"repo_head":subprocess.run(["git","-C","/repo","rev-parse","HEAD"],capture_output=True,text=True).stdout.strip(),
 "suite_with_change":suite,"demo_with_change":dw,"demo_without_change":dwo,"checks_quick":det.strip()}
p=f"/verif/seeded/{i}/meta.json"
try: old=json.load(open(p))
except Exception: old={}
old.update(meta); json.dump(old,open(p,"w"),indent=1)
PY
