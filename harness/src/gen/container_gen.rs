//! Instruction-sequence generator for the `Program` container monitors (C08–C11).
//!
//! Produces sequences of *items*: 2–6 definitions of each keyed kind (DECLARE, DEFFRAME,
//! DEFWAVEFORM, DEFCAL, DEFCAL MEASURE, DEFGATE, DEFCIRCUIT, PRAGMA EXTERN) with at least 30 %
//! duplicate keys (re-definitions that must replace the earlier entry in place), interleaved with
//! body instructions.  Every instruction is built through public constructors / public fields of
//! quil-rs (never through the parser), and every item carries
//!
//! * `kind`  – which keyed map of `Program` it belongs to (or `Body`),
//! * `key`   – the key *as the property states it* (declaration / waveform / gate / circuit name,
//!             frame identifier, calibration signature, extern name), rendered by this generator
//!             from its own specification, not by asking quil-rs,
//! * `desc`  – a human-readable rendering (approximate Quil) for case descriptions,
//!
//! so that the reference model (`model/container_model.rs`) never has to call quil-rs to decide
//! what is expected.

use crate::core::{guarded, Rng};
use indexmap::IndexMap;
use num_complex::Complex64;
use quil_rs::expression::Expression;
use quil_rs::instruction::{
    Arithmetic, ArithmeticOperand, ArithmeticOperator, AttributeValue, CalibrationDefinition,
    CalibrationIdentifier, Call, Capture, CircuitDefinition, Declaration, DefGateSequence, Delay,
    Fence, FrameDefinition, FrameIdentifier, Gate, GateDefinition, GateModifier, GateSpecification,
    Include, Instruction, Jump, JumpWhen, Label, MeasureCalibrationDefinition,
    MeasureCalibrationIdentifier, Measurement, MemoryReference, Move, Offset, PauliGate, PauliSum,
    PauliTerm, Pragma, PragmaArgument, Pulse, Qubit, QubitPlaceholder, Reset, ScalarType, SetPhase,
    Sharing, ShiftPhase, SwapPhases, Target, TargetPlaceholder, UnresolvedCallArgument, Vector,
    Waveform, WaveformDefinition, WaveformInvocation,
};

// ---------------------------------------------------------------------------------------------
// Kinds

#[derive(Clone, Copy, Debug, PartialEq, Eq, Hash, PartialOrd, Ord)]
pub enum Kind {
    Declare,
    Frame,
    Waveform,
    Defcal,
    DefcalMeasure,
    Defgate,
    Defcircuit,
    Extern,
    Body,
}

pub const DEF_KINDS: [Kind; 8] = [
    Kind::Declare,
    Kind::Frame,
    Kind::Waveform,
    Kind::Defcal,
    Kind::DefcalMeasure,
    Kind::Defgate,
    Kind::Defcircuit,
    Kind::Extern,
];

impl Kind {
    pub fn name(self) -> &'static str {
        match self {
            Kind::Declare => "DECLARE",
            Kind::Frame => "DEFFRAME",
            Kind::Waveform => "DEFWAVEFORM",
            Kind::Defcal => "DEFCAL",
            Kind::DefcalMeasure => "DEFCAL-MEASURE",
            Kind::Defgate => "DEFGATE",
            Kind::Defcircuit => "DEFCIRCUIT",
            Kind::Extern => "PRAGMA-EXTERN",
            Kind::Body => "BODY",
        }
    }
    pub fn index(self) -> usize {
        self as usize
    }
}

/// Which `Program` map an instruction is routed to, decided from the instruction's variant only
/// (the routing rule is part of the documented interface of `Program::add_instruction`).
pub fn kind_of(instruction: &Instruction) -> Kind {
    match instruction {
        Instruction::Declaration(_) => Kind::Declare,
        Instruction::FrameDefinition(_) => Kind::Frame,
        Instruction::WaveformDefinition(_) => Kind::Waveform,
        Instruction::CalibrationDefinition(_) => Kind::Defcal,
        Instruction::MeasureCalibrationDefinition(_) => Kind::DefcalMeasure,
        Instruction::GateDefinition(_) => Kind::Defgate,
        Instruction::CircuitDefinition(_) => Kind::Defcircuit,
        Instruction::Pragma(p) if p.name == "EXTERN" => Kind::Extern,
        _ => Kind::Body,
    }
}

#[derive(Clone, Debug)]
pub struct Item {
    pub kind: Kind,
    pub key: String,
    pub instr: Instruction,
    pub desc: String,
}

// ---------------------------------------------------------------------------------------------
// Configuration

#[derive(Clone, Copy, Debug, PartialEq, Eq)]
pub enum ExternMode {
    /// `PRAGMA EXTERN name "signature"` with a well-formed signature only.
    Named,
    /// Also invalid signatures, missing signatures, nameless pragmas, integer first argument.
    Rich,
}

/// Which half of each key universe a sequence draws from (C11 overlap control).
#[derive(Clone, Copy, Debug, PartialEq, Eq)]
pub enum Pool {
    All,
    LowHalf,
    HighHalf,
}

#[derive(Clone, Debug)]
pub struct GenCfg {
    pub externs: ExternMode,
    /// INCLUDE, labels and jumps in the body.
    pub control_flow: bool,
    /// Qubit / target placeholders in the body (C10 only: they do not serialize).
    pub placeholders: bool,
    /// Minimum and maximum number of definitions per kind.
    pub defs_min: usize,
    pub defs_max: usize,
    /// Probability (percent) that a definition re-uses a key already defined in this sequence.
    pub dup_percent: u32,
    /// Average number of body instructions per definition (percent).
    pub body_percent: u32,
    pub pool: Pool,
    /// Kinds that get no definitions at all in this sequence (percent chance per kind).
    pub drop_kind_percent: u32,
    /// At most this many distinct frames (C10 keeps it small so that a rebuilt program has a fair
    /// chance of listing its frames in the same order while `FrameSet` is a hash map).
    pub max_distinct_frames: usize,
}

impl GenCfg {
    pub fn c08() -> Self {
        GenCfg {
            externs: ExternMode::Named,
            control_flow: false,
            placeholders: false,
            defs_min: 2,
            defs_max: 6,
            dup_percent: 40,
            body_percent: 60,
            pool: Pool::All,
            drop_kind_percent: 0,
            max_distinct_frames: usize::MAX,
        }
    }
    pub fn c09() -> Self {
        GenCfg {
            externs: ExternMode::Rich,
            control_flow: true,
            drop_kind_percent: 15,
            ..Self::c08()
        }
    }
    pub fn c10() -> Self {
        GenCfg {
            externs: ExternMode::Named,
            control_flow: true,
            placeholders: true,
            defs_min: 1,
            defs_max: 3,
            dup_percent: 25,
            body_percent: 120,
            pool: Pool::All,
            drop_kind_percent: 35,
            max_distinct_frames: 2,
        }
    }
}

// ---------------------------------------------------------------------------------------------
// Small AST helpers (own rendering for descriptions)

fn num(x: f64) -> Expression {
    Expression::Number(Complex64::new(x, 0.0))
}

#[derive(Clone, Debug, PartialEq)]
pub enum Q {
    F(u64),
    V(&'static str),
}

impl Q {
    fn qubit(&self) -> Qubit {
        match self {
            Q::F(i) => Qubit::Fixed(*i),
            Q::V(s) => Qubit::Variable((*s).to_string()),
        }
    }
    fn text(&self) -> String {
        match self {
            Q::F(i) => i.to_string(),
            Q::V(s) => (*s).to_string(),
        }
    }
}

fn qs_text(qs: &[Q]) -> String {
    qs.iter().map(|q| q.text()).collect::<Vec<_>>().join(" ")
}

#[derive(Clone, Debug, PartialEq)]
pub enum Param {
    Var(&'static str),
    PiHalf,
    Num(f64),
    Mem(&'static str, u64),
}

impl Param {
    fn expr(&self) -> Expression {
        match self {
            Param::Var(v) => Expression::Variable((*v).to_string()),
            Param::PiHalf => Expression::PiConstant() / num(2.0),
            Param::Num(x) => num(*x),
            Param::Mem(n, i) => Expression::Address(MemoryReference {
                name: (*n).to_string(),
                index: *i,
            }),
        }
    }
    fn text(&self) -> String {
        match self {
            Param::Var(v) => format!("%{v}"),
            Param::PiHalf => "pi/2".to_string(),
            Param::Num(x) => format!("{x}"),
            Param::Mem(n, i) => format!("{n}[{i}]"),
        }
    }
}

fn params_text(ps: &[Param]) -> String {
    if ps.is_empty() {
        String::new()
    } else {
        format!("({})", ps.iter().map(|p| p.text()).collect::<Vec<_>>().join(", "))
    }
}

fn frame_id(name: &str, qubits: &[Q]) -> FrameIdentifier {
    FrameIdentifier {
        name: name.to_string(),
        qubits: qubits.iter().map(|q| q.qubit()).collect(),
    }
}

fn gate(name: &str, params: &[Param], qubits: &[Q], modifiers: &[GateModifier]) -> Gate {
    Gate {
        name: name.to_string(),
        parameters: params.iter().map(|p| p.expr()).collect(),
        qubits: qubits.iter().map(|q| q.qubit()).collect(),
        modifiers: modifiers.to_vec(),
    }
}

fn mods_text(mods: &[GateModifier]) -> String {
    mods.iter()
        .map(|m| match m {
            GateModifier::Controlled => "CONTROLLED ",
            GateModifier::Dagger => "DAGGER ",
            GateModifier::Forked => "FORKED ",
        })
        .collect()
}

fn body_item(instr: Instruction, desc: String) -> Item {
    Item {
        kind: Kind::Body,
        key: String::new(),
        instr,
        desc,
    }
}

// ---------------------------------------------------------------------------------------------
// Key universes (8 keys per kind; LowHalf = first 4, HighHalf = last 4)

const DECLARE_NAMES: [&str; 8] = ["ro", "theta", "beta", "acc", "m0", "flags", "shots", "phase_in"];

const FRAME_KEYS: [(&str, &[Q]); 8] = [
    ("rf", &[Q::F(0)]),
    ("rf", &[Q::F(1)]),
    ("ro_rx", &[Q::F(0)]),
    ("cz", &[Q::F(0), Q::F(1)]),
    ("cz", &[Q::F(1), Q::F(0)]),
    ("rf", &[Q::F(5)]),
    ("ro_tx", &[Q::F(0)]),
    ("ro_rx", &[Q::F(2)]),
];

const WAVEFORM_NAMES: [&str; 8] = [
    "wf_a", "wf_b", "my_gauss", "flat2", "ramp", "kernel0", "kernel1", "boxy",
];

struct DefcalKey {
    mods: &'static [GateModifier],
    name: &'static str,
    params: &'static [Param],
    qubits: &'static [Q],
}

const DEFCAL_KEYS: [DefcalKey; 8] = [
    DefcalKey { mods: &[], name: "X", params: &[], qubits: &[Q::F(0)] },
    DefcalKey { mods: &[], name: "X", params: &[], qubits: &[Q::V("q")] },
    DefcalKey { mods: &[], name: "RX", params: &[Param::Var("theta")], qubits: &[Q::F(0)] },
    DefcalKey { mods: &[], name: "CZ", params: &[], qubits: &[Q::F(0), Q::F(1)] },
    DefcalKey { mods: &[], name: "RX", params: &[Param::PiHalf], qubits: &[Q::F(0)] },
    DefcalKey { mods: &[], name: "X", params: &[], qubits: &[Q::F(5)] },
    DefcalKey { mods: &[GateModifier::Controlled], name: "X", params: &[], qubits: &[Q::F(0), Q::F(1)] },
    DefcalKey { mods: &[], name: "RX", params: &[Param::Num(1.5)], qubits: &[Q::V("q")] },
];

struct MeasureKey {
    name: Option<&'static str>,
    qubit: Q,
    target: Option<&'static str>,
}

const MEASURE_KEYS: [MeasureKey; 8] = [
    MeasureKey { name: None, qubit: Q::F(0), target: Some("addr") },
    MeasureKey { name: None, qubit: Q::V("q"), target: Some("addr") },
    MeasureKey { name: None, qubit: Q::F(0), target: None },
    MeasureKey { name: Some("mid"), qubit: Q::F(1), target: Some("addr") },
    MeasureKey { name: None, qubit: Q::F(6), target: Some("addr") },
    MeasureKey { name: None, qubit: Q::V("q"), target: None },
    MeasureKey { name: Some("mid"), qubit: Q::V("q"), target: Some("dest") },
    MeasureKey { name: None, qubit: Q::F(1), target: Some("addr") },
];

const DEFGATE_NAMES: [&str; 8] = ["MYGATE", "SEQ1", "PERM", "PSUM", "SEQ2", "HSEQ", "PARAMG", "G2"];

const CIRCUIT_NAMES: [&str; 8] = ["BELL", "ROT", "PREP", "MYGATE", "ECHO", "C5", "C6", "SEQ1"];

/// `None` = nameless pragma (no first argument); `Some("#7")` = first argument is an integer
/// (also keyed as nameless by the documented rule of `add_instruction`).
const EXTERN_NAMES: [Option<&str>; 8] = [
    Some("foo"),
    Some("bar"),
    Some("rng_next"),
    None,
    Some("baz"),
    Some("f2"),
    Some("g2"),
    Some("#7"),
];

// ---------------------------------------------------------------------------------------------
// Generator

pub struct ContainerGen<'r> {
    pub rng: &'r mut Rng,
    pub cfg: GenCfg,
}

impl<'r> ContainerGen<'r> {
    pub fn new(rng: &'r mut Rng, cfg: GenCfg) -> Self {
        ContainerGen { rng, cfg }
    }

    fn pool_index(&mut self) -> usize {
        match self.cfg.pool {
            Pool::All => self.rng.below(8),
            Pool::LowHalf => self.rng.below(4),
            Pool::HighHalf => 4 + self.rng.below(4),
        }
    }

    // ----- calibration / circuit bodies: never contain anything a calibration could match, so
    // calibration expansion cannot recurse (C18 territory is deliberately avoided here).
    fn cal_body(&mut self, formal: &[Q]) -> (Vec<Instruction>, String) {
        let n = 1 + self.rng.below(3);
        let mut out = Vec::new();
        let mut desc = Vec::new();
        for _ in 0..n {
            // qubit operands: the calibration's own formals, or fixed qubits the program body
            // never touches (5, 6, 7)
            let q = if !formal.is_empty() && self.rng.chance(1, 2) {
                formal[self.rng.below(formal.len())].clone()
            } else {
                Q::F(5 + self.rng.below(3) as u64)
            };
            match self.rng.below(7) {
                0 => {
                    out.push(Instruction::Fence(Fence { qubits: vec![q.qubit()] }));
                    desc.push(format!("FENCE {}", q.text()));
                }
                1 => {
                    let d = [1e-6, 2.5e-7, 4.0][self.rng.below(3)];
                    out.push(Instruction::Delay(Delay {
                        duration: num(d),
                        frame_names: vec![],
                        qubits: vec![q.qubit()],
                    }));
                    desc.push(format!("DELAY {} {d}", q.text()));
                }
                2 => {
                    let wf = *self.rng.pick(&WAVEFORM_NAMES);
                    out.push(Instruction::Pulse(Pulse {
                        blocking: self.rng.chance(3, 4),
                        frame: frame_id("rf", &[q.clone()]),
                        waveform: WaveformInvocation {
                            name: wf.to_string(),
                            parameters: IndexMap::new(),
                        },
                    }));
                    desc.push(format!("PULSE {} \"rf\" {wf}", q.text()));
                }
                3 => {
                    out.push(Instruction::ShiftPhase(ShiftPhase {
                        frame: frame_id("rf", &[q.clone()]),
                        phase: num(0.25),
                    }));
                    desc.push(format!("SHIFT-PHASE {} \"rf\" 0.25", q.text()));
                }
                4 => {
                    out.push(Instruction::Nop());
                    desc.push("NOP".to_string());
                }
                5 => {
                    // a gate that no calibration in the universe matches
                    out.push(Instruction::Gate(gate("H", &[], &[q.clone()], &[])));
                    desc.push(format!("H {}", q.text()));
                }
                _ => {
                    out.push(Instruction::Capture(Capture {
                        blocking: true,
                        frame: frame_id("ro_rx", &[q.clone()]),
                        memory_reference: MemoryReference { name: "ro".to_string(), index: 0 },
                        waveform: WaveformInvocation {
                            name: "kernel0".to_string(),
                            parameters: IndexMap::new(),
                        },
                    }));
                    desc.push(format!("CAPTURE {} \"ro_rx\" kernel0 ro[0]", q.text()));
                }
            }
        }
        (out, desc.join("; "))
    }

    // ----- definitions -----------------------------------------------------------------------

    fn declare(&mut self, k: usize) -> Item {
        let name = DECLARE_NAMES[k];
        let ty = *self.rng.pick(&[ScalarType::Bit, ScalarType::Integer, ScalarType::Real, ScalarType::Octet]);
        let len = 1 + self.rng.below(4) as u64;
        let sharing = if self.rng.chance(1, 5) {
            Some(Sharing {
                name: "shared_block".to_string(),
                offsets: vec![Offset { offset: self.rng.below(3) as u64, data_type: ScalarType::Real }],
            })
        } else {
            None
        };
        let desc = format!(
            "DECLARE {name} {ty:?}[{len}]{}",
            if sharing.is_some() { " SHARING shared_block OFFSET .. REAL" } else { "" }
        );
        Item {
            kind: Kind::Declare,
            key: name.to_string(),
            instr: Instruction::Declaration(Declaration {
                name: name.to_string(),
                size: Vector { data_type: ty, length: len },
                sharing,
            }),
            desc,
        }
    }

    fn frame(&mut self, k: usize) -> Item {
        let (name, qubits) = FRAME_KEYS[k];
        let mut attributes: IndexMap<String, AttributeValue> = IndexMap::new();
        let mut d = Vec::new();
        if self.rng.chance(2, 3) {
            let v = [1e9, 2.4e9, 5e8][self.rng.below(3)];
            attributes.insert("SAMPLE-RATE".to_string(), AttributeValue::Expression(num(v)));
            d.push(format!("SAMPLE-RATE: {v}"));
        }
        if self.rng.chance(1, 2) {
            let v = [4.7e9, 5.1e9, 7.2e9][self.rng.below(3)];
            attributes.insert("INITIAL-FREQUENCY".to_string(), AttributeValue::Expression(num(v)));
            d.push(format!("INITIAL-FREQUENCY: {v}"));
        }
        if self.rng.chance(1, 2) {
            let v = *self.rng.pick(&["tx", "rx"]);
            attributes.insert("DIRECTION".to_string(), AttributeValue::String(v.to_string()));
            d.push(format!("DIRECTION: \"{v}\""));
        }
        if self.rng.chance(1, 3) {
            let v = *self.rng.pick(&["q0_rf", "q1_ro", "hw"]);
            attributes.insert("HARDWARE-OBJECT".to_string(), AttributeValue::String(v.to_string()));
            d.push(format!("HARDWARE-OBJECT: \"{v}\""));
        }
        Item {
            kind: Kind::Frame,
            key: format!("{} \"{name}\"", qs_text(qubits)),
            instr: Instruction::FrameDefinition(FrameDefinition {
                identifier: frame_id(name, qubits),
                attributes,
            }),
            desc: format!("DEFFRAME {} \"{name}\": {{{}}}", qs_text(qubits), d.join(", ")),
        }
    }

    fn waveform(&mut self, k: usize) -> Item {
        let name = WAVEFORM_NAMES[k];
        let n = 1 + self.rng.below(3);
        let mut matrix = Vec::new();
        let mut d = Vec::new();
        for _ in 0..n {
            let v = [0.0, 0.5, 1.0, -0.25, 2.0][self.rng.below(5)];
            matrix.push(num(v));
            d.push(format!("{v}"));
        }
        let parameters = if self.rng.chance(1, 4) { vec!["amp".to_string()] } else { vec![] };
        let desc = format!(
            "DEFWAVEFORM {name}{}: {}",
            if parameters.is_empty() { "" } else { "(%amp)" },
            d.join(", ")
        );
        Item {
            kind: Kind::Waveform,
            key: name.to_string(),
            instr: Instruction::WaveformDefinition(WaveformDefinition {
                name: name.to_string(),
                definition: Waveform { matrix, parameters },
            }),
            desc,
        }
    }

    fn defcal(&mut self, k: usize) -> Item {
        let key = &DEFCAL_KEYS[k];
        let (instructions, body_desc) = self.cal_body(key.qubits);
        // Near-collision variants of the pool key: the same name and qubits with the modifier list
        // or the parameter list EXTENDED by one element (so the pool key's list is a proper prefix of
        // the variant's).  They are different keys; an implementation that compares signatures
        // element-wise without comparing lengths confuses them.
        let mut mods: Vec<GateModifier> = key.mods.to_vec();
        let mut params: Vec<Param> = key.params.to_vec();
        match self.rng.below(20) {
            0..=2 => mods.push(GateModifier::Dagger),
            3..=5 => params.push(Param::Num(0.25)),
            6 => {
                mods.push(GateModifier::Dagger);
                mods.push(GateModifier::Dagger);
            }
            7 => {
                mods.push(GateModifier::Dagger);
                params.push(Param::Num(0.25));
            }
            _ => {}
        }
        let head = format!(
            "{}{}{} {}",
            mods_text(&mods),
            key.name,
            params_text(&params),
            qs_text(key.qubits)
        );
        Item {
            kind: Kind::Defcal,
            key: head.clone(),
            instr: Instruction::CalibrationDefinition(CalibrationDefinition {
                identifier: CalibrationIdentifier {
                    modifiers: mods,
                    name: key.name.to_string(),
                    parameters: params.iter().map(|p| p.expr()).collect(),
                    qubits: key.qubits.iter().map(|q| q.qubit()).collect(),
                },
                instructions,
            }),
            desc: format!("DEFCAL {head}: {body_desc}"),
        }
    }

    fn defcal_measure(&mut self, k: usize) -> Item {
        let key = &MEASURE_KEYS[k];
        let (instructions, body_desc) = self.cal_body(std::slice::from_ref(&key.qubit));
        let head = format!(
            "MEASURE{} {}{}",
            key.name.map(|n| format!("!{n}")).unwrap_or_default(),
            key.qubit.text(),
            key.target.map(|t| format!(" {t}")).unwrap_or_default()
        );
        Item {
            kind: Kind::DefcalMeasure,
            key: head.clone(),
            instr: Instruction::MeasureCalibrationDefinition(MeasureCalibrationDefinition {
                identifier: MeasureCalibrationIdentifier {
                    name: key.name.map(str::to_string),
                    qubit: key.qubit.qubit(),
                    target: key.target.map(str::to_string),
                },
                instructions,
            }),
            desc: format!("DEFCAL {head}: {body_desc}"),
        }
    }

    fn defgate(&mut self, k: usize) -> Item {
        let name = DEFGATE_NAMES[k];
        // sequence definitions only under the SEQ names, and acyclic by construction:
        // SEQ1 and HSEQ use standard gates only, SEQ2 may use SEQ1
        let want_sequence = matches!(name, "SEQ1" | "SEQ2" | "HSEQ") && self.rng.chance(4, 5);
        let (parameters, specification, d): (Vec<String>, GateSpecification, String) = if want_sequence {
            let two = self.rng.chance(1, 2);
            let formals: Vec<String> = if two { vec!["a".into(), "b".into()] } else { vec!["a".into()] };
            let with_param = self.rng.chance(1, 3);
            let mut gates = Vec::new();
            let mut gd = Vec::new();
            let n = 1 + self.rng.below(3);
            for _ in 0..n {
                let f = if two && self.rng.chance(1, 2) { "b" } else { "a" };
                match self.rng.below(if name == "SEQ2" { 4 } else { 3 }) {
                    0 => {
                        gates.push(gate("H", &[], &[Q::V(if f == "a" { "a" } else { "b" })], &[]));
                        gd.push(format!("H {f}"));
                    }
                    1 => {
                        let p = if with_param { Param::Var("alpha") } else { Param::PiHalf };
                        gd.push(format!("RX({}) {f}", p.text()));
                        gates.push(gate("RX", &[p], &[Q::V(if f == "a" { "a" } else { "b" })], &[]));
                    }
                    2 => {
                        gates.push(gate("X", &[], &[Q::V(if f == "a" { "a" } else { "b" })], &[]));
                        gd.push(format!("X {f}"));
                    }
                    _ => {
                        // SEQ2 -> SEQ1 (one-qubit application; arity mismatches are the
                        // expander's business and simply make the operation fail)
                        gates.push(gate("SEQ1", &[], &[Q::V(if f == "a" { "a" } else { "b" })], &[]));
                        gd.push(format!("SEQ1 {f}"));
                    }
                }
            }
            let params = if with_param { vec!["alpha".to_string()] } else { vec![] };
            let formals_text = formals.join(" ");
            match guarded(|| DefGateSequence::try_new(formals.clone(), gates.clone())) {
                Ok(Ok(seq)) => (
                    params,
                    GateSpecification::Sequence(seq),
                    format!(
                        "{}{formals_text} AS SEQUENCE: {}",
                        if with_param { "(%alpha) " } else { "" },
                        gd.join("; ")
                    ),
                ),
                _ => (vec![], GateSpecification::Permutation(vec![0, 1]), "AS PERMUTATION: 0, 1".to_string()),
            }
        } else {
            match self.rng.below(4) {
                0 => {
                    let c = [0.0, 1.0, -1.0][self.rng.below(3)];
                    (
                        vec![],
                        GateSpecification::Matrix(vec![vec![num(1.0), num(0.0)], vec![num(0.0), num(c)]]),
                        format!("AS MATRIX: 1, 0 / 0, {c}"),
                    )
                }
                1 => (
                    vec!["phi".to_string()],
                    GateSpecification::Matrix(vec![
                        vec![Expression::Variable("phi".to_string()), num(0.0)],
                        vec![num(0.0), num(1.0)],
                    ]),
                    "(%phi) AS MATRIX: %phi, 0 / 0, 1".to_string(),
                ),
                2 => {
                    let perm: Vec<u64> = if self.rng.chance(1, 2) { vec![1, 0] } else { vec![0, 2, 1, 3] };
                    let d = format!("AS PERMUTATION: {perm:?}");
                    (vec![], GateSpecification::Permutation(perm), d)
                }
                _ => {
                    let g = *self.rng.pick(&[PauliGate::X, PauliGate::Y, PauliGate::Z]);
                    let c = [0.5, 1.0, -2.0][self.rng.below(3)];
                    (
                        vec![],
                        GateSpecification::PauliSum(PauliSum {
                            arguments: vec!["p".to_string()],
                            terms: vec![PauliTerm {
                                arguments: vec![(g, "p".to_string())],
                                expression: num(c),
                            }],
                        }),
                        format!("p AS PAULI-SUM: {g:?}({c}) p"),
                    )
                }
            }
        };
        Item {
            kind: Kind::Defgate,
            key: name.to_string(),
            instr: Instruction::GateDefinition(GateDefinition {
                name: name.to_string(),
                parameters,
                specification,
            }),
            desc: format!("DEFGATE {name} {d}"),
        }
    }

    fn defcircuit(&mut self, k: usize) -> Item {
        let name = CIRCUIT_NAMES[k];
        let two = self.rng.chance(1, 2);
        let qubit_variables: Vec<String> = if two { vec!["a".into(), "b".into()] } else { vec!["a".into()] };
        let with_param = self.rng.chance(1, 3);
        let mut instructions = Vec::new();
        let mut d = Vec::new();
        for _ in 0..1 + self.rng.below(3) {
            match self.rng.below(3) {
                0 => {
                    instructions.push(Instruction::Gate(gate("H", &[], &[Q::V("a")], &[])));
                    d.push("H a".to_string());
                }
                1 if two => {
                    instructions.push(Instruction::Gate(gate("CNOT", &[], &[Q::V("a"), Q::V("b")], &[])));
                    d.push("CNOT a b".to_string());
                }
                _ => {
                    let p = if with_param { Param::Var("t") } else { Param::Num(0.5) };
                    d.push(format!("RZ({}) a", p.text()));
                    instructions.push(Instruction::Gate(gate("RZ", &[p], &[Q::V("a")], &[])));
                }
            }
        }
        let parameters = if with_param { vec!["t".to_string()] } else { vec![] };
        Item {
            kind: Kind::Defcircuit,
            key: name.to_string(),
            desc: format!(
                "DEFCIRCUIT {name}{} {}: {}",
                if with_param { "(%t)" } else { "" },
                qubit_variables.join(" "),
                d.join("; ")
            ),
            instr: Instruction::CircuitDefinition(CircuitDefinition {
                name: name.to_string(),
                parameters,
                qubit_variables,
                instructions,
            }),
        }
    }

    fn extern_pragma(&mut self, k: usize) -> Item {
        let mut name = EXTERN_NAMES[k];
        if self.cfg.externs == ExternMode::Named && !matches!(name, Some(n) if !n.starts_with('#')) {
            name = Some(["foo", "bar", "rng_next", "qux", "baz", "f2", "g2", "h2"][k]);
        }
        let data: Option<&str> = match self.cfg.externs {
            ExternMode::Named => Some(*self.rng.pick(&[
                "INTEGER (x : INTEGER)",
                "(x : mut REAL[2])",
                "REAL (a : REAL, b : mut INTEGER)",
                "BIT",
            ])),
            ExternMode::Rich => *self.rng.pick(&[
                Some("INTEGER (x : INTEGER)"),
                Some("(x : mut REAL[2])"),
                Some("BIT"),
                Some("()"),
                Some("not a signature at all"),
                None,
            ]),
        };
        let (arguments, key, head) = match name {
            Some(n) if n.starts_with('#') => (
                vec![PragmaArgument::Integer(7)],
                "<nameless>".to_string(),
                "7".to_string(),
            ),
            Some(n) => {
                let mut args = vec![PragmaArgument::Identifier(n.to_string())];
                let mut head = n.to_string();
                if self.cfg.externs == ExternMode::Rich && self.rng.chance(1, 8) {
                    args.push(PragmaArgument::Integer(3));
                    head.push_str(" 3");
                }
                (args, n.to_string(), head)
            }
            None => (vec![], "<nameless>".to_string(), String::new()),
        };
        Item {
            kind: Kind::Extern,
            key,
            instr: Instruction::Pragma(Pragma {
                name: "EXTERN".to_string(),
                arguments,
                data: data.map(str::to_string),
            }),
            desc: format!(
                "PRAGMA EXTERN {head}{}",
                data.map(|d| format!(" \"{d}\"")).unwrap_or_default()
            ),
        }
    }

    pub fn definition(&mut self, kind: Kind, k: usize) -> Item {
        match kind {
            Kind::Declare => self.declare(k),
            Kind::Frame => self.frame(k),
            Kind::Waveform => self.waveform(k),
            Kind::Defcal => self.defcal(k),
            Kind::DefcalMeasure => self.defcal_measure(k),
            Kind::Defgate => self.defgate(k),
            Kind::Defcircuit => self.defcircuit(k),
            Kind::Extern => self.extern_pragma(k),
            Kind::Body => self.body(),
        }
    }

    // ----- body ------------------------------------------------------------------------------

    fn body_qubit(&mut self, placeholders: &mut Vec<QubitPlaceholder>) -> (Qubit, String) {
        if self.cfg.placeholders && self.rng.chance(1, 6) {
            if placeholders.is_empty() || (placeholders.len() < 3 && self.rng.chance(1, 2)) {
                placeholders.push(QubitPlaceholder::default());
            }
            let i = self.rng.below(placeholders.len());
            (Qubit::Placeholder(placeholders[i].clone()), format!("{{q{i}}}"))
        } else {
            let q = self.rng.below(4) as u64;
            (Qubit::Fixed(q), q.to_string())
        }
    }

    pub fn body(&mut self) -> Item {
        let mut none = Vec::new();
        self.body_with(&mut none, &mut Vec::new())
    }

    /// One body instruction.  `qph` / `tph` are the placeholder pools of the enclosing sequence.
    pub fn body_with(
        &mut self,
        qph: &mut Vec<QubitPlaceholder>,
        tph: &mut Vec<TargetPlaceholder>,
    ) -> Item {
        let n_kinds = if self.cfg.control_flow { 22 } else { 17 };
        match self.rng.below(n_kinds) {
            0 | 1 => {
                let (q, qt) = self.body_qubit(qph);
                let name = *self.rng.pick(&["X", "H", "Y", "SEQ1", "HSEQ", "MYGATE"]);
                let g = Gate { name: name.to_string(), parameters: vec![], qubits: vec![q], modifiers: vec![] };
                body_item(Instruction::Gate(g), format!("{name} {qt}"))
            }
            2 => {
                let (q, qt) = self.body_qubit(qph);
                let p = self.rng.pick(&[Param::PiHalf, Param::Num(1.5), Param::Num(0.25), Param::Mem("theta", 0)]).clone();
                let mods: &[GateModifier] = if self.rng.chance(1, 6) { &[GateModifier::Dagger] } else { &[] };
                let g = Gate { name: "RX".to_string(), parameters: vec![p.expr()], qubits: vec![q], modifiers: mods.to_vec() };
                body_item(Instruction::Gate(g), format!("{}RX({}) {qt}", mods_text(mods), p.text()))
            }
            3 => {
                let a = self.rng.below(4) as u64;
                let b = (a + 1 + self.rng.below(3) as u64) % 4;
                let name = *self.rng.pick(&["CZ", "CNOT", "SEQ2"]);
                body_item(
                    Instruction::Gate(gate(name, &[], &[Q::F(a), Q::F(b)], &[])),
                    format!("{name} {a} {b}"),
                )
            }
            4 => {
                let (q, qt) = self.body_qubit(qph);
                let target = if self.rng.chance(3, 4) {
                    Some(MemoryReference { name: "ro".to_string(), index: self.rng.below(2) as u64 })
                } else {
                    None
                };
                let d = format!(
                    "MEASURE {qt}{}",
                    target.as_ref().map(|t| format!(" ro[{}]", t.index)).unwrap_or_default()
                );
                body_item(Instruction::Measurement(Measurement { name: None, qubit: q, target }), d)
            }
            5 => {
                if self.rng.chance(1, 2) {
                    body_item(Instruction::Reset(Reset { qubit: None }), "RESET".to_string())
                } else {
                    let (q, qt) = self.body_qubit(qph);
                    body_item(Instruction::Reset(Reset { qubit: Some(q) }), format!("RESET {qt}"))
                }
            }
            6 => {
                let q = self.rng.below(4) as u64;
                let d = [1e-6, 2e-6][self.rng.below(2)];
                let frame_names = if self.rng.chance(1, 3) { vec!["rf".to_string()] } else { vec![] };
                let desc = format!("DELAY {q}{} {d}", if frame_names.is_empty() { "" } else { " \"rf\"" });
                body_item(
                    Instruction::Delay(Delay { duration: num(d), frame_names, qubits: vec![Qubit::Fixed(q)] }),
                    desc,
                )
            }
            7 => {
                let n = self.rng.below(3);
                let qs: Vec<Q> = (0..n).map(|_| Q::F(self.rng.below(4) as u64)).collect();
                body_item(
                    Instruction::Fence(Fence { qubits: qs.iter().map(|q| q.qubit()).collect() }),
                    format!("FENCE {}", qs_text(&qs)),
                )
            }
            8 => {
                let q = Q::F(self.rng.below(2) as u64);
                let wf = *self.rng.pick(&WAVEFORM_NAMES);
                let blocking = self.rng.chance(3, 4);
                body_item(
                    Instruction::Pulse(Pulse {
                        blocking,
                        frame: frame_id("rf", &[q.clone()]),
                        waveform: WaveformInvocation { name: wf.to_string(), parameters: IndexMap::new() },
                    }),
                    format!("{}PULSE {} \"rf\" {wf}", if blocking { "" } else { "NONBLOCKING " }, q.text()),
                )
            }
            9 => {
                let q = Q::F([0u64, 2][self.rng.below(2)]);
                body_item(
                    Instruction::Capture(Capture {
                        blocking: true,
                        frame: frame_id("ro_rx", &[q.clone()]),
                        memory_reference: MemoryReference { name: "ro".to_string(), index: 0 },
                        waveform: WaveformInvocation { name: "kernel0".to_string(), parameters: IndexMap::new() },
                    }),
                    format!("CAPTURE {} \"ro_rx\" kernel0 ro[0]", q.text()),
                )
            }
            10 => {
                let q = Q::F(self.rng.below(2) as u64);
                if self.rng.chance(1, 2) {
                    body_item(
                        Instruction::SetPhase(SetPhase { frame: frame_id("rf", &[q.clone()]), phase: num(0.5) }),
                        format!("SET-PHASE {} \"rf\" 0.5", q.text()),
                    )
                } else {
                    body_item(
                        Instruction::SwapPhases(SwapPhases {
                            frame_1: frame_id("rf", &[Q::F(0)]),
                            frame_2: frame_id("rf", &[Q::F(1)]),
                        }),
                        "SWAP-PHASES 0 \"rf\" 1 \"rf\"".to_string(),
                    )
                }
            }
            11 => {
                let v = self.rng.range(-3, 9);
                body_item(
                    Instruction::Move(Move {
                        destination: MemoryReference { name: "acc".to_string(), index: 0 },
                        source: ArithmeticOperand::LiteralInteger(v),
                    }),
                    format!("MOVE acc[0] {v}"),
                )
            }
            12 => {
                let op = *self.rng.pick(&[ArithmeticOperator::Add, ArithmeticOperator::Subtract, ArithmeticOperator::Multiply]);
                body_item(
                    Instruction::Arithmetic(Arithmetic {
                        operator: op,
                        destination: MemoryReference { name: "acc".to_string(), index: 0 },
                        source: ArithmeticOperand::MemoryReference(MemoryReference { name: "shots".to_string(), index: 0 }),
                    }),
                    format!("{op:?} acc[0] shots[0]"),
                )
            }
            13 => body_item(Instruction::Nop(), "NOP".to_string()),
            14 => {
                let name = *self.rng.pick(&["foo", "bar", "rng_next", "nosuch"]);
                body_item(
                    Instruction::Call(Call {
                        name: name.to_string(),
                        arguments: vec![UnresolvedCallArgument::MemoryReference(MemoryReference {
                            name: "acc".to_string(),
                            index: 0,
                        })],
                    }),
                    format!("CALL {name} acc[0]"),
                )
            }
            15 => {
                // an ordinary pragma (not EXTERN) stays in the body
                let n = *self.rng.pick(&["INITIAL_REWIRING", "PRESERVE_BLOCK", "extern"]);
                body_item(
                    Instruction::Pragma(Pragma {
                        name: n.to_string(),
                        arguments: vec![PragmaArgument::Identifier("foo".to_string())],
                        data: Some("NAIVE".to_string()),
                    }),
                    format!("PRAGMA {n} foo \"NAIVE\""),
                )
            }
            16 => {
                if self.rng.chance(1, 2) {
                    body_item(Instruction::Wait(), "WAIT".to_string())
                } else {
                    body_item(Instruction::Halt(), "HALT".to_string())
                }
            }
            17 => {
                let f = *self.rng.pick(&["lib.quil", "cals.quil"]);
                body_item(Instruction::Include(Include { filename: f.to_string() }), format!("INCLUDE \"{f}\""))
            }
            18 | 19 => {
                let (t, tt) = self.target(tph);
                body_item(Instruction::Label(Label { target: t }), format!("LABEL {tt}"))
            }
            20 => {
                let (t, tt) = self.target(tph);
                body_item(Instruction::Jump(Jump { target: t }), format!("JUMP {tt}"))
            }
            _ => {
                let (t, tt) = self.target(tph);
                body_item(
                    Instruction::JumpWhen(JumpWhen {
                        target: t,
                        condition: MemoryReference { name: "ro".to_string(), index: 0 },
                    }),
                    format!("JUMP-WHEN {tt} ro[0]"),
                )
            }
        }
    }

    fn target(&mut self, tph: &mut Vec<TargetPlaceholder>) -> (Target, String) {
        if self.cfg.placeholders && self.rng.chance(1, 3) {
            if tph.is_empty() || (tph.len() < 2 && self.rng.chance(1, 2)) {
                tph.push(TargetPlaceholder::new(format!("lbl{}", tph.len())));
            }
            let i = self.rng.below(tph.len());
            (Target::Placeholder(tph[i].clone()), format!("@{{t{i}}}"))
        } else {
            let n = *self.rng.pick(&["start", "end", "loop_1"]);
            (Target::Fixed(n.to_string()), format!("@{n}"))
        }
    }

    // ----- whole sequences -------------------------------------------------------------------

    /// A shuffled sequence: per kind `defs_min..=defs_max` definitions (a kind may be dropped
    /// entirely with `drop_kind_percent`), each re-using an already defined key of this sequence
    /// with probability `dup_percent` (and at least 30 % duplicates are forced where the count
    /// allows), interleaved with body instructions.
    pub fn sequence(&mut self) -> Vec<Item> {
        let mut qph = Vec::new();
        let mut tph = Vec::new();
        // per kind: the ordered list of key indices to define
        let mut slots: Vec<(Kind, usize)> = Vec::new();
        for kind in DEF_KINDS {
            if self.cfg.drop_kind_percent > 0 && self.rng.chance(self.cfg.drop_kind_percent, 100) {
                continue;
            }
            let n = self.cfg.defs_min + self.rng.below(self.cfg.defs_max - self.cfg.defs_min + 1);
            let mut used: Vec<usize> = Vec::new();
            let mut keys: Vec<usize> = Vec::new();
            // at least ceil(0.3 n) duplicates when n >= 2
            let forced_dups = if n >= 2 { (3 * n).div_ceil(10) } else { 0 };
            for i in 0..n {
                let remaining = n - i;
                let dups_so_far = keys.len() - used.len();
                let must_dup = !used.is_empty() && forced_dups > dups_so_far && remaining <= forced_dups - dups_so_far;
                let frame_cap = kind == Kind::Frame && used.len() >= self.cfg.max_distinct_frames;
                let k = if must_dup || frame_cap || (!used.is_empty() && self.rng.chance(self.cfg.dup_percent, 100)) {
                    used[self.rng.below(used.len())]
                } else {
                    let k = self.pool_index();
                    if !used.contains(&k) {
                        used.push(k);
                    }
                    k
                };
                keys.push(k);
            }
            for k in keys {
                slots.push((kind, k));
            }
        }
        // Interleave: keep the relative order of each kind's definitions random as a whole
        // (shuffle all definition slots), then sprinkle body instructions.
        self.rng.shuffle(&mut slots);
        let mut out = Vec::new();
        for (kind, k) in slots {
            let mut budget = self.cfg.body_percent;
            while budget > 0 {
                if self.rng.chance(budget.min(100), 100) {
                    out.push(self.body_with(&mut qph, &mut tph));
                }
                budget = budget.saturating_sub(100);
            }
            out.push(self.definition(kind, k));
        }
        for _ in 0..self.rng.below(3) {
            out.push(self.body_with(&mut qph, &mut tph));
        }
        // Placeholders can also sit inside calibration definitions (only through the API): plant a
        // placeholder - one the body also uses, or a fresh one - into the body of some
        // DEFCAL / DEFCAL MEASURE items.  Placeholder resolution rewrites body instructions only,
        // so this is where a cache that is "remapped" instead of rebuilt goes wrong.
        if self.cfg.placeholders {
            for item in out.iter_mut() {
                if !matches!(item.kind, Kind::Defcal | Kind::DefcalMeasure) || !self.rng.chance(1, 4) {
                    continue;
                }
                let (ph, label) = if !qph.is_empty() && self.rng.chance(2, 3) {
                    let i = self.rng.below(qph.len());
                    (qph[i].clone(), format!("{{q{i}}}"))
                } else {
                    (QubitPlaceholder::default(), "{fresh-placeholder}".to_string())
                };
                let planted = Instruction::Fence(Fence { qubits: vec![Qubit::Placeholder(ph)] });
                match &mut item.instr {
                    Instruction::CalibrationDefinition(c) => c.instructions.push(planted),
                    Instruction::MeasureCalibrationDefinition(c) => c.instructions.push(planted),
                    _ => {}
                }
                item.desc.push_str(&format!("; FENCE {label}"));
            }
        }
        out
    }

    /// A sequence that redefines exactly the keys defined in `other` (total overlap), in a
    /// different order and with fresh values, plus its own body.
    pub fn sequence_redefining(&mut self, other: &[Item]) -> Vec<Item> {
        let mut slots: Vec<(Kind, usize)> = Vec::new();
        let mut seen: Vec<(Kind, String)> = Vec::new();
        for it in other {
            if it.kind == Kind::Body || seen.iter().any(|(k, key)| *k == it.kind && *key == it.key) {
                continue;
            }
            seen.push((it.kind, it.key.clone()));
            if let Some(k) = self.key_index(it.kind, &it.key) {
                slots.push((it.kind, k));
            }
        }
        self.rng.shuffle(&mut slots);
        let mut out = Vec::new();
        for (kind, k) in slots {
            if self.rng.chance(1, 2) {
                out.push(self.body());
            }
            // retry a few times so that the key really is the same (extern names are remapped in
            // Named mode, so look the key up instead of trusting the index)
            out.push(self.definition(kind, k));
        }
        out.push(self.body());
        out
    }

    /// Find the universe index that produces `key` for `kind`.
    fn key_index(&mut self, kind: Kind, key: &str) -> Option<usize> {
        // definitions are cheap: generate with a throw-away generator state and compare keys
        let saved = self.rng.clone();
        let mut found = None;
        for k in 0..8 {
            if self.definition(kind, k).key == key {
                found = Some(k);
                break;
            }
        }
        *self.rng = saved;
        found
    }
}

/// Render a sequence for the case description.
pub fn describe(items: &[Item]) -> String {
    items.iter().map(|i| i.desc.as_str()).collect::<Vec<_>>().join("\n")
}
