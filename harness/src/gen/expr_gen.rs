//! Expression-tree generator shared by C03, C12, C13 (group `expr`).
//!
//! `Tree` is the harness's *own* representation of a Quil expression: generators, the
//! reference evaluator (`model::expr_eval`) and the structural oracles (free names, memory
//! references) work on `Tree` and never ask quil-rs what is expected.  `to_expression` builds the
//! real `quil_rs::expression::Expression` through public constructors only, `from_expression`
//! reads a real expression (a parse result, a simplification result) back into a `Tree`.
//!
//! Two workloads:
//! * `Depth2`: every tree of depth <= 2 over a given leaf alphabet (indexable, so shards pick
//!   their indices without materialising the space),
//! * `random_tree`: random trees up to a given depth over a richer leaf distribution
//!   (reals, pure imaginaries, full complex, negative, integral-valued, tiny/huge exponents,
//!   `pi`, several variables and memory cells).

use crate::core::Rng;
use num_complex::Complex64;
use quil_rs::expression::{
    Expression, ExpressionFunction, FunctionCallExpression, InfixExpression, InfixOperator,
    PrefixExpression, PrefixOperator,
};
use quil_rs::instruction::MemoryReference;
use std::fmt::Write as _;

#[derive(Clone, Copy, Debug, PartialEq, Eq, Hash, PartialOrd, Ord)]
pub enum Func {
    Cis,
    Cos,
    Exp,
    Sin,
    Sqrt,
}
pub const FUNCS: [Func; 5] = [Func::Cis, Func::Cos, Func::Exp, Func::Sin, Func::Sqrt];

#[derive(Clone, Copy, Debug, PartialEq, Eq, Hash, PartialOrd, Ord)]
pub enum PreOp {
    Plus,
    Minus,
}
pub const PREOPS: [PreOp; 2] = [PreOp::Plus, PreOp::Minus];

#[derive(Clone, Copy, Debug, PartialEq, Eq, Hash, PartialOrd, Ord)]
pub enum InOp {
    Caret,
    Plus,
    Minus,
    Slash,
    Star,
}
pub const INOPS: [InOp; 5] = [InOp::Caret, InOp::Plus, InOp::Minus, InOp::Slash, InOp::Star];

impl Func {
    pub fn name(self) -> &'static str {
        match self {
            Func::Cis => "cis",
            Func::Cos => "cos",
            Func::Exp => "exp",
            Func::Sin => "sin",
            Func::Sqrt => "sqrt",
        }
    }
}
impl InOp {
    pub fn name(self) -> &'static str {
        match self {
            InOp::Caret => "^",
            InOp::Plus => "+",
            InOp::Minus => "-",
            InOp::Slash => "/",
            InOp::Star => "*",
        }
    }
    /// Name usable inside counters / signatures.
    pub fn word(self) -> &'static str {
        match self {
            InOp::Caret => "Caret",
            InOp::Plus => "Plus",
            InOp::Minus => "Minus",
            InOp::Slash => "Slash",
            InOp::Star => "Star",
        }
    }
}
impl PreOp {
    pub fn word(self) -> &'static str {
        match self {
            PreOp::Plus => "PrePlus",
            PreOp::Minus => "PreMinus",
        }
    }
}

#[derive(Clone, Debug, PartialEq)]
pub enum Tree {
    Num(f64, f64),
    Pi,
    Var(String),
    Mem(String, u64),
    Fun(Func, Box<Tree>),
    Pre(PreOp, Box<Tree>),
    Inf(Box<Tree>, InOp, Box<Tree>),
}

pub fn num(re: f64, im: f64) -> Tree {
    Tree::Num(re, im)
}
pub fn var(n: &str) -> Tree {
    Tree::Var(n.to_string())
}
pub fn mem(n: &str, i: u64) -> Tree {
    Tree::Mem(n.to_string(), i)
}
pub fn fun(f: Func, t: Tree) -> Tree {
    Tree::Fun(f, Box::new(t))
}
pub fn pre(o: PreOp, t: Tree) -> Tree {
    Tree::Pre(o, Box::new(t))
}
pub fn inf(l: Tree, o: InOp, r: Tree) -> Tree {
    Tree::Inf(Box::new(l), o, Box::new(r))
}

impl Tree {
    /// Build the real quil-rs expression (public constructors / public fields only).
    pub fn to_expression(&self) -> Expression {
        match self {
            Tree::Num(re, im) => Expression::Number(Complex64::new(*re, *im)),
            Tree::Pi => Expression::PiConstant(),
            Tree::Var(n) => Expression::Variable(n.clone()),
            Tree::Mem(n, i) => Expression::Address(MemoryReference {
                name: n.clone(),
                index: *i,
            }),
            Tree::Fun(f, t) => Expression::FunctionCall(FunctionCallExpression {
                function: match f {
                    Func::Cis => ExpressionFunction::Cis,
                    Func::Cos => ExpressionFunction::Cosine,
                    Func::Exp => ExpressionFunction::Exponent,
                    Func::Sin => ExpressionFunction::Sine,
                    Func::Sqrt => ExpressionFunction::SquareRoot,
                },
                expression: t.to_expression().into(),
            }),
            Tree::Pre(o, t) => Expression::Prefix(PrefixExpression {
                operator: match o {
                    PreOp::Plus => PrefixOperator::Plus,
                    PreOp::Minus => PrefixOperator::Minus,
                },
                expression: t.to_expression().into(),
            }),
            Tree::Inf(l, o, r) => Expression::Infix(InfixExpression {
                left: l.to_expression().into(),
                operator: match o {
                    InOp::Caret => InfixOperator::Caret,
                    InOp::Plus => InfixOperator::Plus,
                    InOp::Minus => InfixOperator::Minus,
                    InOp::Slash => InfixOperator::Slash,
                    InOp::Star => InfixOperator::Star,
                },
                right: r.to_expression().into(),
            }),
        }
    }

    /// Read a real expression back into the harness representation (purely structural).
    pub fn from_expression(e: &Expression) -> Tree {
        match e {
            Expression::Number(c) => Tree::Num(c.re, c.im),
            Expression::PiConstant() => Tree::Pi,
            Expression::Variable(n) => Tree::Var(n.clone()),
            Expression::Address(m) => Tree::Mem(m.name.clone(), m.index),
            Expression::FunctionCall(fc) => Tree::Fun(
                match fc.function {
                    ExpressionFunction::Cis => Func::Cis,
                    ExpressionFunction::Cosine => Func::Cos,
                    ExpressionFunction::Exponent => Func::Exp,
                    ExpressionFunction::Sine => Func::Sin,
                    ExpressionFunction::SquareRoot => Func::Sqrt,
                },
                Box::new(Tree::from_expression(&fc.expression)),
            ),
            Expression::Prefix(p) => Tree::Pre(
                match p.operator {
                    PrefixOperator::Plus => PreOp::Plus,
                    PrefixOperator::Minus => PreOp::Minus,
                },
                Box::new(Tree::from_expression(&p.expression)),
            ),
            Expression::Infix(i) => Tree::Inf(
                Box::new(Tree::from_expression(&i.left)),
                match i.operator {
                    InfixOperator::Caret => InOp::Caret,
                    InfixOperator::Plus => InOp::Plus,
                    InfixOperator::Minus => InOp::Minus,
                    InfixOperator::Slash => InOp::Slash,
                    InfixOperator::Star => InOp::Star,
                },
                Box::new(Tree::from_expression(&i.right)),
            ),
        }
    }

    /// Canonical, unambiguous, fully parenthesised description (harness syntax, *not* Quil):
    /// used as the announced input of a case, for distinctness and in witnesses.
    pub fn describe(&self) -> String {
        let mut s = String::new();
        self.describe_into(&mut s);
        s
    }
    fn describe_into(&self, s: &mut String) {
        match self {
            Tree::Num(re, im) => {
                let _ = write!(s, "Num({re:?},{im:?})");
            }
            Tree::Pi => s.push_str("pi"),
            Tree::Var(n) => {
                let _ = write!(s, "%{n}");
            }
            Tree::Mem(n, i) => {
                let _ = write!(s, "{n}[{i}]");
            }
            Tree::Fun(f, t) => {
                s.push_str(f.name());
                s.push('(');
                t.describe_into(s);
                s.push(')');
            }
            Tree::Pre(o, t) => {
                s.push_str(if *o == PreOp::Minus { "Neg(" } else { "Pos(" });
                t.describe_into(s);
                s.push(')');
            }
            Tree::Inf(l, o, r) => {
                s.push('(');
                l.describe_into(s);
                s.push(' ');
                s.push_str(o.name());
                s.push(' ');
                r.describe_into(s);
                s.push(')');
            }
        }
    }

    pub fn depth(&self) -> usize {
        match self {
            Tree::Fun(_, t) | Tree::Pre(_, t) => 1 + t.depth(),
            Tree::Inf(l, _, r) => 1 + l.depth().max(r.depth()),
            _ => 0,
        }
    }
    pub fn size(&self) -> usize {
        match self {
            Tree::Fun(_, t) | Tree::Pre(_, t) => 1 + t.size(),
            Tree::Inf(l, _, r) => 1 + l.size() + r.size(),
            _ => 1,
        }
    }
    /// Number of operator nodes (function, prefix, infix).
    pub fn operators(&self) -> usize {
        match self {
            Tree::Fun(_, t) | Tree::Pre(_, t) => 1 + t.operators(),
            Tree::Inf(l, _, r) => 1 + l.operators() + r.operators(),
            _ => 0,
        }
    }
    pub fn children(&self) -> Vec<&Tree> {
        match self {
            Tree::Fun(_, t) | Tree::Pre(_, t) => vec![t],
            Tree::Inf(l, _, r) => vec![l, r],
            _ => vec![],
        }
    }

    /// Variables occurring, in left-to-right order, with repetitions.
    pub fn variables_into<'a>(&'a self, out: &mut Vec<&'a str>) {
        match self {
            Tree::Var(n) => out.push(n),
            Tree::Fun(_, t) | Tree::Pre(_, t) => t.variables_into(out),
            Tree::Inf(l, _, r) => {
                l.variables_into(out);
                r.variables_into(out);
            }
            _ => {}
        }
    }
    /// Memory references occurring, in left-to-right order, with repetitions
    /// (the independent tree walk of C13 (ii)).
    pub fn memory_refs_into<'a>(&'a self, out: &mut Vec<(&'a str, u64)>) {
        match self {
            Tree::Mem(n, i) => out.push((n, *i)),
            Tree::Fun(_, t) | Tree::Pre(_, t) => t.memory_refs_into(out),
            Tree::Inf(l, _, r) => {
                l.memory_refs_into(out);
                r.memory_refs_into(out);
            }
            _ => {}
        }
    }
    /// Sorted, de-duplicated variable names.
    pub fn variable_set(&self) -> Vec<String> {
        let mut v = Vec::new();
        self.variables_into(&mut v);
        let mut v: Vec<String> = v.into_iter().map(str::to_string).collect();
        v.sort();
        v.dedup();
        v
    }
    /// Sorted, de-duplicated memory references.
    pub fn memory_ref_set(&self) -> Vec<(String, u64)> {
        let mut v = Vec::new();
        self.memory_refs_into(&mut v);
        let mut v: Vec<(String, u64)> = v.into_iter().map(|(n, i)| (n.to_string(), i)).collect();
        v.sort();
        v.dedup();
        v
    }

    /// Structural identity: same shape, same names, literals equal as values (NaN = NaN,
    /// -0.0 = 0.0).
    pub fn same(&self, other: &Tree) -> bool {
        let feq = |a: f64, b: f64| a == b || (a.is_nan() && b.is_nan());
        match (self, other) {
            (Tree::Num(a, b), Tree::Num(c, d)) => feq(*a, *c) && feq(*b, *d),
            (Tree::Pi, Tree::Pi) => true,
            (Tree::Var(a), Tree::Var(b)) => a == b,
            (Tree::Mem(a, i), Tree::Mem(b, j)) => a == b && i == j,
            (Tree::Fun(f, a), Tree::Fun(g, b)) => f == g && a.same(b),
            (Tree::Pre(f, a), Tree::Pre(g, b)) => f == g && a.same(b),
            (Tree::Inf(a, o, b), Tree::Inf(c, p, d)) => o == p && a.same(c) && b.same(d),
            _ => false,
        }
    }

    /// All node positions in pre-order, as child-index paths from the root.
    pub fn paths(&self) -> Vec<Vec<usize>> {
        fn go(t: &Tree, cur: &mut Vec<usize>, out: &mut Vec<Vec<usize>>) {
            out.push(cur.clone());
            for (i, ch) in t.children().into_iter().enumerate() {
                cur.push(i);
                go(ch, cur, out);
                cur.pop();
            }
        }
        let mut out = Vec::new();
        go(self, &mut Vec::new(), &mut out);
        out
    }
    pub fn at(&self, path: &[usize]) -> &Tree {
        let mut t = self;
        for &i in path {
            t = t.children()[i];
        }
        t
    }
    /// Copy of `self` with the subtree at `path` replaced.
    pub fn replaced(&self, path: &[usize], new: &Tree) -> Tree {
        if path.is_empty() {
            return new.clone();
        }
        match self {
            Tree::Fun(f, t) => Tree::Fun(*f, Box::new(t.replaced(&path[1..], new))),
            Tree::Pre(o, t) => Tree::Pre(*o, Box::new(t.replaced(&path[1..], new))),
            Tree::Inf(l, o, r) => {
                if path[0] == 0 {
                    Tree::Inf(Box::new(l.replaced(&path[1..], new)), *o, r.clone())
                } else {
                    Tree::Inf(l.clone(), *o, Box::new(r.replaced(&path[1..], new)))
                }
            }
            leaf => leaf.clone(),
        }
    }

    /// Shape of the tree with atoms renamed a, b, c, ... in order of first occurrence and short
    /// number spelling; used to name a reduced witness in violation signatures.
    pub fn shape(&self) -> String {
        fn go(t: &Tree, names: &mut Vec<String>, s: &mut String) {
            let mut atom = |key: String, s: &mut String| {
                let k = match names.iter().position(|n| *n == key) {
                    Some(k) => k,
                    None => {
                        names.push(key);
                        names.len() - 1
                    }
                };
                s.push((b'a' + (k as u8 % 26)) as char);
            };
            match t {
                Tree::Num(re, im) => {
                    if *im == 0.0 {
                        let _ = write!(s, "{re}");
                    } else if *re == 0.0 {
                        let _ = write!(s, "{im}i");
                    } else {
                        let _ = write!(s, "[{re}{}{im}i]", if *im < 0.0 { "" } else { "+" });
                    }
                }
                Tree::Pi => s.push_str("pi"),
                Tree::Var(n) => atom(format!("%{n}"), s),
                Tree::Mem(n, i) => atom(format!("{n}[{i}]"), s),
                Tree::Fun(f, a) => {
                    s.push_str(f.name());
                    s.push('(');
                    go(a, names, s);
                    s.push(')');
                }
                Tree::Pre(o, a) => {
                    s.push_str(if *o == PreOp::Minus { "Neg(" } else { "Pos(" });
                    go(a, names, s);
                    s.push(')');
                }
                Tree::Inf(l, o, r) => {
                    s.push('(');
                    go(l, names, s);
                    s.push_str(o.name());
                    go(r, names, s);
                    s.push(')');
                }
            }
        }
        let mut s = String::new();
        go(self, &mut Vec::new(), &mut s);
        s
    }

    /// Operator skeleton: like `shape` but every atom and every non-zero literal is `_` (zero stays
    /// `0` because rewriting rules treat it specially).  Names a *family* of reduced witnesses.
    pub fn skeleton(&self) -> String {
        match self {
            Tree::Num(re, im) if *re == 0.0 && *im == 0.0 => "0".into(),
            Tree::Num(..) | Tree::Pi | Tree::Var(_) | Tree::Mem(..) => "_".into(),
            Tree::Fun(f, a) => format!("{}({})", f.name(), a.skeleton()),
            Tree::Pre(o, a) => format!("{}({})", if *o == PreOp::Minus { "Neg" } else { "Pos" }, a.skeleton()),
            Tree::Inf(l, o, r) => format!("({}{}{})", l.skeleton(), o.name(), r.skeleton()),
        }
    }

    /// Coarse kind of the node, for coverage matrices and signatures.
    pub fn kind(&self) -> &'static str {
        match self {
            Tree::Num(re, im) => {
                if *im == 0.0 {
                    if *re < 0.0 {
                        "NumNegReal"
                    } else {
                        "NumReal"
                    }
                } else if *re == 0.0 {
                    "NumImag"
                } else {
                    "NumComplex"
                }
            }
            Tree::Pi => "Pi",
            Tree::Var(_) => "Var",
            Tree::Mem(..) => "Mem",
            Tree::Fun(..) => "Fun",
            Tree::Pre(PreOp::Minus, _) => "PreMinus",
            Tree::Pre(PreOp::Plus, _) => "PrePlus",
            Tree::Inf(_, o, _) => match o {
                InOp::Caret => "InfCaret",
                InOp::Plus => "InfPlus",
                InOp::Minus => "InfMinus",
                InOp::Slash => "InfSlash",
                InOp::Star => "InfStar",
            },
        }
    }
}

#[allow(dead_code)]
/// All 15 node kinds `Tree::kind` can return.
pub const KINDS: [&str; 15] = [
    "NumReal", "NumNegReal", "NumImag", "NumComplex", "Pi", "Var", "Mem", "Fun", "PreMinus", "PrePlus",
    "InfCaret", "InfPlus", "InfMinus", "InfSlash", "InfStar",
];

/// Leaf alphabet of C03 (DESIGN §4): 0, 1, -1, 2.5, 2i, 1+2i, -1-2i, 1e-7, 1e15, pi, %x, m[1].
pub fn leaves_c03() -> Vec<Tree> {
    vec![
        num(0.0, 0.0),
        num(1.0, 0.0),
        num(-1.0, 0.0),
        num(2.5, 0.0),
        num(0.0, 2.0),
        num(1.0, 2.0),
        num(-1.0, -2.0),
        num(1e-7, 0.0),
        num(1e15, 0.0),
        Tree::Pi,
        var("x"),
        mem("m", 1),
    ]
}

/// Leaf alphabet of C12/C13 (DESIGN §4): 0, 1, -1, 2, 0.5, 2i, pi, %x, %y, m[0].  Literals are dyadic
/// so constant folding is exact.
pub fn leaves_c12() -> Vec<Tree> {
    vec![
        num(0.0, 0.0),
        num(1.0, 0.0),
        num(-1.0, 0.0),
        num(2.0, 0.0),
        num(0.5, 0.0),
        num(0.0, 2.0),
        Tree::Pi,
        var("x"),
        var("y"),
        mem("m", 0),
    ]
}

/// Every tree of depth <= 2 over a leaf alphabet, addressable by index.
///
/// Let U = all trees of depth <= 1 (leaves, 7 unary operators over leaves, 5 infix operators over
/// pairs of leaves).  The space is: U itself, then 7 unary operators over U, then 5 infix
/// operators over U x U; trees of depth <= 1 that re-appear in the later segments are skipped so
/// that every tree is enumerated exactly once.
pub struct Depth2 {
    pub u: Vec<Tree>,
    n_leaves: usize,
}

impl Depth2 {
    pub fn new(leaves: &[Tree]) -> Self {
        let mut u: Vec<Tree> = leaves.to_vec();
        for l in leaves {
            for f in FUNCS {
                u.push(fun(f, l.clone()));
            }
            for o in PREOPS {
                u.push(pre(o, l.clone()));
            }
        }
        for o in INOPS {
            for l in leaves {
                for r in leaves {
                    u.push(inf(l.clone(), o, r.clone()));
                }
            }
        }
        Depth2 {
            u,
            n_leaves: leaves.len(),
        }
    }
    /// Size of the index space (some indices yield `None`: duplicates of depth <= 1 trees).
    pub fn index_space(&self) -> u64 {
        let n = self.u.len() as u64;
        n + 7 * n + 5 * n * n
    }
    /// Number of distinct trees.
    pub fn count(&self) -> u64 {
        let n = self.u.len() as u64;
        let l = self.n_leaves as u64;
        // unary over leaves and infix over leaf pairs are already in U
        n + 7 * (n - l) + 5 * (n * n - l * l)
    }
    pub fn get(&self, idx: u64) -> Option<Tree> {
        let n = self.u.len() as u64;
        let nl = self.n_leaves as u64;
        if idx < n {
            return Some(self.u[idx as usize].clone());
        }
        let idx = idx - n;
        if idx < 7 * n {
            let (op, c) = ((idx / n) as usize, idx % n);
            if c < nl {
                return None; // depth-1 tree, already in U
            }
            let child = self.u[c as usize].clone();
            return Some(if op < 5 {
                fun(FUNCS[op], child)
            } else {
                pre(PREOPS[op - 5], child)
            });
        }
        let idx = idx - 7 * n;
        if idx >= 5 * n * n {
            return None;
        }
        let op = (idx / (n * n)) as usize;
        let rest = idx % (n * n);
        let (a, b) = (rest / n, rest % n);
        if a < nl && b < nl {
            return None; // depth-1 tree, already in U
        }
        Some(inf(self.u[a as usize].clone(), INOPS[op], self.u[b as usize].clone()))
    }
}

/// Leaf distribution for random trees.
#[derive(Clone, Copy, Debug, PartialEq, Eq)]
pub enum LeafProfile {
    /// C03: every literal shape the printer distinguishes, incl. extreme exponents.
    Printing,
    /// C12/C13: dyadic literals of moderate size (exact constant folding), pi, names.
    Dyadic,
}

const VAR_NAMES: [&str; 4] = ["x", "y", "z", "a-b"];
const MEM_CELLS: [(&str, u64); 5] = [("m", 0), ("m", 1), ("q", 0), ("theta", 3), ("ro_1", 2)];

fn printing_real(rng: &mut Rng) -> f64 {
    const SPECIAL: [f64; 24] = [
        0.0, 1.0, 2.0, 3.0, 10.0, 0.5, 0.25, 2.5, 0.1, 1e-4, 1e-5, 1e-6, 1e-7, 1.5e-7, 1e14, 1e15, 1e16,
        123456789012345.6, 9007199254740993.0, 1e22, 1e100, 1e300, 2.2250738585072014e-308, 5e-324,
    ];
    let v = match rng.below(10) {
        0..=3 => SPECIAL[rng.below(SPECIAL.len())],
        4..=5 => rng.range(0, 12) as f64,
        6..=7 => (rng.f64() * 6.0).max(1e-3),
        8 => {
            // random mantissa and decimal exponent
            let m = 1.0 + rng.f64() * 9.0;
            let e = rng.range(-30, 30) as i32;
            m * 10f64.powi(e)
        }
        _ => std::f64::consts::PI * (rng.range(1, 8) as f64) / 4.0,
    };
    if rng.chance(1, 3) {
        -v
    } else {
        v
    }
}

fn dyadic_real(rng: &mut Rng) -> f64 {
    const VALS: [f64; 12] = [0.0, 1.0, 2.0, 3.0, 4.0, 0.5, 0.25, 1.5, 0.75, 8.0, 5.0, 0.125];
    let v = VALS[rng.below(VALS.len())];
    if rng.chance(1, 4) {
        -v
    } else {
        v
    }
}

pub fn random_leaf(rng: &mut Rng, profile: LeafProfile) -> Tree {
    match rng.below(10) {
        0..=4 => {
            let real = |rng: &mut Rng| match profile {
                LeafProfile::Printing => printing_real(rng),
                LeafProfile::Dyadic => dyadic_real(rng),
            };
            match rng.below(6) {
                0..=2 => num(real(rng), 0.0),
                3 => num(0.0, real(rng)),
                _ => num(real(rng), real(rng)),
            }
        }
        5 => Tree::Pi,
        6..=7 => var(VAR_NAMES[rng.below(VAR_NAMES.len())]),
        _ => {
            let (n, i) = MEM_CELLS[rng.below(MEM_CELLS.len())];
            mem(n, i)
        }
    }
}

/// Random tree of depth <= `max_depth`.  Interior nodes are chosen with probability falling with
/// depth budget, so sizes are spread between 1 and a few dozen nodes.
pub fn random_tree(rng: &mut Rng, max_depth: usize, profile: LeafProfile) -> Tree {
    if max_depth == 0 || rng.chance(1, (max_depth as u32) + 2) {
        return random_leaf(rng, profile);
    }
    match rng.below(10) {
        0..=5 => {
            let o = INOPS[rng.below(5)];
            // one side is allowed to be deep, the other a bit shallower on average
            let (dl, dr) = if rng.chance(1, 2) {
                (max_depth - 1, rng.below(max_depth))
            } else {
                (rng.below(max_depth), max_depth - 1)
            };
            let l = random_tree(rng, dl, profile);
            let r = random_tree(rng, dr, profile);
            inf(l, o, r)
        }
        6..=7 => pre(
            if rng.chance(3, 4) { PreOp::Minus } else { PreOp::Plus },
            random_tree(rng, max_depth - 1, profile),
        ),
        _ => fun(FUNCS[rng.below(5)], random_tree(rng, max_depth - 1, profile)),
    }
}
