//! AST generator: builds every `quil_rs::instruction::Instruction` variant through the public
//! constructors / public fields (C04, C07, C33, C34; reusable by C09–C11, C27, C35).
//!
//! "Well-formed" mode (the default):
//! * every name is accepted by the crate's own `validate_user_identifier` (gate / calibration names:
//!   `validate_identifier` and not a lexer keyword), i.e. the constructors' own identifier rules;
//! * every number is finite;
//! * collections that the Quil grammar requires to be non-empty are non-empty (DEFCAL / DEFCIRCUIT
//!   bodies, DEFFRAME attributes, matrices, frame qubits, ...);
//! * bodies of definitions hold simple (non-definition) instructions only;
//! * no placeholders unless enabled in `AstCfg`.
//! Expression shapes: "safe" shapes are those whose printing does not depend on the expression
//! printer's handling of nested prefix operators / complex literals inside operators (the subject
//! of C03); "risky" shapes (unrestricted trees, unary plus) are produced with probability
//! `risky_expr_pct` per expression so that monitors can attribute them separately.
//!
//! The generator never asks quil-rs what the *expected* result of anything is; it only uses the
//! crate's identifier validators as the definition of "well-formed name".

use crate::core::{guarded, Rng};
use indexmap::IndexMap;
use num_complex::Complex64;
use quil_rs::expression::{
    Expression, ExpressionFunction, FunctionCallExpression, InfixExpression, InfixOperator,
    PrefixExpression, PrefixOperator,
};
use quil_rs::instruction::*;
use quil_rs::reserved::ReservedToken;
use quil_rs::validation::identifier::{validate_identifier, validate_user_identifier};
use std::str::FromStr;

#[derive(Clone, Debug)]
pub struct AstCfg {
    /// Percent of qubit slots filled with a `Qubit::Placeholder` (0 = never).
    pub qubit_placeholder_pct: u32,
    /// Percent of label / jump target slots filled with a `Target::Placeholder`.
    pub target_placeholder_pct: u32,
    /// Percent of qubit slots filled with a `Qubit::Variable`.
    pub variable_qubit_pct: u32,
    /// Percent of expressions generated without the "safe shape" restriction.
    pub risky_expr_pct: u32,
    pub max_expr_depth: u32,
    /// Strings over the hostile alphabet (quote, backslash, newline, '#', ';', non-ASCII).
    pub hostile_strings: bool,
    /// Allow `LiteralReal` operands with integral values / huge magnitudes.
    pub integral_literal_reals: bool,
    /// Allow negative / complex CALL immediates.
    pub signed_call_immediates: bool,
    /// Allow DELAY without frame names whose duration is not a plain real literal.
    pub ambiguous_delays: bool,
    /// Allow DEFCAL identifiers with gate modifiers.
    pub defcal_modifiers: bool,
}

impl AstCfg {
    /// Everything the public API accepts within the well-formed rules.
    pub fn full() -> Self {
        AstCfg {
            qubit_placeholder_pct: 0,
            target_placeholder_pct: 0,
            variable_qubit_pct: 15,
            risky_expr_pct: 3,
            max_expr_depth: 3,
            hostile_strings: false,
            integral_literal_reals: true,
            signed_call_immediates: true,
            ambiguous_delays: true,
            defcal_modifiers: true,
        }
    }
    /// A conservative sub-language (used where another property's subject must stay out of the way).
    pub fn plain() -> Self {
        AstCfg {
            qubit_placeholder_pct: 0,
            target_placeholder_pct: 0,
            variable_qubit_pct: 0,
            risky_expr_pct: 0,
            max_expr_depth: 2,
            hostile_strings: false,
            integral_literal_reals: false,
            signed_call_immediates: false,
            ambiguous_delays: false,
            defcal_modifiers: false,
        }
    }
    pub fn with_placeholders(mut self, qubit_pct: u32, target_pct: u32) -> Self {
        self.qubit_placeholder_pct = qubit_pct;
        self.target_placeholder_pct = target_pct;
        self
    }
}

/// Names of all instruction variants (`AstGen::instruction_of` accepts exactly these).
pub const KINDS: &[&str] = &[
    "Arithmetic", "BinaryLogic", "CalibrationDefinition", "Call", "Capture", "CircuitDefinition",
    "Convert", "Comparison", "Declaration", "Delay", "Exchange", "Fence", "FrameDefinition", "Gate",
    "GateDefinition", "Halt", "Include", "Jump", "JumpUnless", "JumpWhen", "Label", "Load",
    "MeasureCalibrationDefinition", "Measurement", "Move", "Nop", "Pragma", "Pulse", "RawCapture",
    "Reset", "SetFrequency", "SetPhase", "SetScale", "ShiftFrequency", "ShiftPhase", "Store",
    "SwapPhases", "UnaryLogic", "WaveformDefinition", "Wait",
];

/// Kinds that may appear inside DEFCAL / DEFCIRCUIT bodies.
pub const SIMPLE_KINDS: &[&str] = &[
    "Arithmetic", "BinaryLogic", "Call", "Capture", "Convert", "Comparison", "Delay", "Exchange",
    "Fence", "Gate", "Halt", "Jump", "JumpUnless", "JumpWhen", "Label", "Load", "Measurement", "Move",
    "Nop", "Pragma", "Pulse", "RawCapture", "Reset", "SetFrequency", "SetPhase", "SetScale",
    "ShiftFrequency", "ShiftPhase", "Store", "SwapPhases", "UnaryLogic", "Wait",
];

const IDENT_BATTERY: &[&str] = &[
    "ro", "theta", "Theta_2", "a-b", "_x", "q0_ro", "DeClare", "sin", "PI", "beta", "m", "x", "Cos",
    "sqrt", "cis", "exp", "y-1", "a--b", "__", "z9", "NOPE", "pulse", "Matrix", "as", "gamma", "n0",
    "q", "r", "flat", "gaussian", "Kernel-2", "UPPER", "mixedCase", "_", "t_1",
];

const GATE_NAMES: &[&str] = &[
    "X", "Y", "Z", "H", "I", "RX", "RZ", "CNOT", "CPHASE", "CZ", "ISWAP", "XY", "my_gate", "G-2", "u3",
    "Foo", "pi", "i",
];

const FRAME_NAMES: &[&str] = &["rf", "ro_rx", "cz", "xy", "flux tx", "ro-tx", "Frame_1", "a b c", "z"];

const ATTR_KEYS: &[&str] = &[
    "SAMPLE-RATE", "INITIAL-FREQUENCY", "DIRECTION", "HARDWARE-OBJECT", "CENTER-FREQUENCY",
    "ENABLE-RAW-CAPTURE", "CHANNEL-DELAY", "custom_key",
];

pub const REALS: &[f64] = &[
    0.0, 1.0, -1.0, 2.0, 2.5, -0.75, 0.1, 1e-7, 1e15, 1e16, 123456789.125, 1e300, -1e300, 5e-324,
    1e-300, 3.0, 1e21, 0.5, 6.283185307179586, 4294967296.0, 9007199254740993.0,
    1.7976931348623157e308, -2.0, 1e-5, 0.00001234, 99999999999999.9, 1e14, 7.0,
];

/// Is `s` accepted by `validate_user_identifier`?  (The crate's own rule is the definition of a
/// well-formed user-chosen name.)
pub fn is_user_ident(s: &str) -> bool {
    guarded(|| validate_user_identifier(s).is_ok()).unwrap_or(false)
}

/// Gate / calibration names: `validate_identifier` (what `Gate::new` checks) and not a token the
/// lexer turns into a command / data type / modifier / keyword.
pub fn is_gate_ident(s: &str) -> bool {
    guarded(|| {
        validate_identifier(s).is_ok()
            && !matches!(
                ReservedToken::from_str(s),
                Ok(ReservedToken::Command(_))
                    | Ok(ReservedToken::DataType(_))
                    | Ok(ReservedToken::Modifier(_))
                    | Ok(ReservedToken::OtherKeyword(_))
            )
    })
    .unwrap_or(false)
}

#[derive(Clone, Copy, PartialEq, Eq)]
enum Parent {
    Root,
    FuncArg,
    InfixChild,
    PrefixChild,
}

pub struct AstGen<'r> {
    pub rng: &'r mut Rng,
    pub cfg: AstCfg,
    /// Pools, so that the same placeholder occurs at several places of one program.
    pub qubit_placeholders: Vec<QubitPlaceholder>,
    pub target_placeholders: Vec<TargetPlaceholder>,
}

impl<'r> AstGen<'r> {
    pub fn new(rng: &'r mut Rng, cfg: AstCfg) -> Self {
        AstGen { rng, cfg, qubit_placeholders: Vec::new(), target_placeholders: Vec::new() }
    }

    // ----------------------------------------------------------------------------- names

    fn random_ident_raw(&mut self) -> String {
        const FIRST: &[u8] = b"abcdefghijklmnopqrstuvwxyzABCDEFGHIJKLMNOPQRSTUVWXYZ_";
        const MID: &[u8] = b"abcdefghijklmnopqrstuvwxyzABCDEFGHIJKLMNOPQRSTUVWXYZ_0123456789--__";
        const LAST: &[u8] = b"abcdefghijklmnopqrstuvwxyzABCDEFGHIJKLMNOPQRSTUVWXYZ_0123456789";
        let len = 1 + self.rng.below(8);
        let mut s = String::new();
        s.push(*self.rng.pick(FIRST) as char);
        for k in 1..len {
            let set = if k + 1 == len { LAST } else { MID };
            s.push(*self.rng.pick(set) as char);
        }
        s
    }

    /// A name accepted by `validate_user_identifier`.
    pub fn ident(&mut self) -> String {
        for _ in 0..50 {
            let c = if self.rng.chance(1, 2) {
                self.rng.pick(IDENT_BATTERY).to_string()
            } else {
                self.random_ident_raw()
            };
            if is_user_ident(&c) {
                return c;
            }
        }
        "fallback_name".to_string()
    }

    pub fn gate_name(&mut self) -> String {
        for _ in 0..50 {
            let c = if self.rng.chance(2, 3) {
                self.rng.pick(GATE_NAMES).to_string()
            } else {
                self.random_ident_raw()
            };
            if is_gate_ident(&c) {
                return c;
            }
        }
        "G".to_string()
    }

    pub fn waveform_name(&mut self) -> String {
        let a = self.ident();
        if self.rng.chance(1, 6) {
            let b = self.ident();
            format!("{a}/{b}")
        } else {
            a
        }
    }

    pub fn string(&mut self) -> String {
        if self.cfg.hostile_strings {
            const A: &[&str] = &["\"", "\\", "\n", " ", "#", ";", "a", "é", "b", "\t", "'", "%", ":"];
            let n = self.rng.below(9);
            (0..n).map(|_| *self.rng.pick(A)).collect()
        } else {
            const A: &[u8] = b"abcXYZ019 _-./:()[]{},+*=<>!?@$&|~^";
            let n = self.rng.below(10);
            (0..n).map(|_| *self.rng.pick(A) as char).collect()
        }
    }

    pub fn frame_name(&mut self) -> String {
        if self.cfg.hostile_strings || self.rng.chance(1, 4) {
            self.string()
        } else {
            self.rng.pick(FRAME_NAMES).to_string()
        }
    }

    // ----------------------------------------------------------------------------- numbers

    pub fn real(&mut self) -> f64 {
        if self.rng.chance(3, 5) {
            *self.rng.pick(REALS)
        } else {
            let mant = (self.rng.range(-99999, 99999) as f64) / 1000.0;
            let exp = self.rng.range(-12, 12) as i32;
            let v = mant * 10f64.powi(exp);
            if v.is_finite() {
                v
            } else {
                1.0
            }
        }
    }

    /// A real that is neither integral-valued nor huge (prints with a fraction / exponent).
    pub fn fractional_real(&mut self) -> f64 {
        const F: &[f64] = &[0.5, 2.5, -0.75, 0.1, 1e-7, 123456789.125, 6.283185307179586, 1e-300, 0.00001234];
        *self.rng.pick(F)
    }

    pub fn u64_any(&mut self) -> u64 {
        match self.rng.below(10) {
            0 => u64::MAX,
            1 => (1u64 << 63) + self.rng.below(3) as u64,
            2 => 1u64 << 32,
            3 => self.rng.next(),
            _ => self.rng.below(20) as u64,
        }
    }

    pub fn i64_any(&mut self) -> i64 {
        match self.rng.below(10) {
            0 => i64::MIN,
            1 => i64::MAX,
            2 => self.rng.next() as i64,
            3 => -(self.rng.below(100) as i64),
            _ => self.rng.range(-5, 20),
        }
    }

    // ----------------------------------------------------------------------------- operands

    pub fn fixed_qubit(&mut self) -> Qubit {
        if self.rng.chance(1, 25) {
            Qubit::Fixed(self.u64_any())
        } else {
            Qubit::Fixed(self.rng.below(6) as u64)
        }
    }

    pub fn qubit_placeholder(&mut self) -> QubitPlaceholder {
        if self.qubit_placeholders.len() < 4
            && (self.qubit_placeholders.is_empty() || self.rng.chance(1, 2))
        {
            self.qubit_placeholders.push(QubitPlaceholder::default());
        }
        self.rng.pick(&self.qubit_placeholders).clone()
    }

    pub fn target_placeholder(&mut self) -> TargetPlaceholder {
        if self.target_placeholders.len() < 4
            && (self.target_placeholders.is_empty() || self.rng.chance(1, 2))
        {
            const BASES: &[&str] = &["loop", "end", "base", "loop"];
            let base = self.rng.pick(BASES).to_string();
            self.target_placeholders.push(TargetPlaceholder::new(base));
        }
        self.rng.pick(&self.target_placeholders).clone()
    }

    pub fn qubit(&mut self) -> Qubit {
        let r = self.rng.below(100) as u32;
        if r < self.cfg.qubit_placeholder_pct {
            Qubit::Placeholder(self.qubit_placeholder())
        } else if r < self.cfg.qubit_placeholder_pct + self.cfg.variable_qubit_pct {
            Qubit::Variable(self.ident())
        } else {
            self.fixed_qubit()
        }
    }

    pub fn qubits(&mut self, lo: usize, hi: usize) -> Vec<Qubit> {
        let n = lo + self.rng.below(hi - lo + 1);
        (0..n).map(|_| self.qubit()).collect()
    }

    pub fn target(&mut self) -> Target {
        if (self.rng.below(100) as u32) < self.cfg.target_placeholder_pct {
            Target::Placeholder(self.target_placeholder())
        } else {
            const L: &[&str] = &["start", "end", "loop_0", "loop_1", "base_0", "a-b", "L1", "DECLARE", "x"];
            if self.rng.chance(3, 4) {
                Target::Fixed(self.rng.pick(L).to_string())
            } else {
                Target::Fixed(self.random_ident_raw())
            }
        }
    }

    pub fn memref(&mut self) -> MemoryReference {
        let name = self.ident();
        let index = if self.rng.chance(1, 12) { self.u64_any() } else { self.rng.below(4) as u64 };
        MemoryReference::new(name, index)
    }

    pub fn scalar_type(&mut self) -> ScalarType {
        *self.rng.pick(&[ScalarType::Bit, ScalarType::Integer, ScalarType::Octet, ScalarType::Real])
    }

    pub fn frame_identifier(&mut self) -> FrameIdentifier {
        let name = self.frame_name();
        FrameIdentifier::new(name, self.qubits(1, 3))
    }

    // ----------------------------------------------------------------------------- expressions

    fn number(&mut self, parent: Parent, risky: bool) -> Expression {
        let neg_ok = risky || parent != Parent::PrefixChild;
        let full_ok = risky || matches!(parent, Parent::Root | Parent::FuncArg);
        let mut re = self.real();
        let mut im = self.real();
        if !neg_ok {
            re = re.abs();
            im = im.abs();
        }
        match self.rng.below(6) {
            0 if full_ok && re != 0.0 && im != 0.0 => Expression::Number(Complex64::new(re, im)),
            1 => Expression::Number(Complex64::new(0.0, im)),
            _ => Expression::Number(Complex64::new(re, 0.0)),
        }
    }

    fn leaf(&mut self, parent: Parent, risky: bool) -> Expression {
        match self.rng.below(10) {
            0 | 1 => Expression::PiConstant(),
            2 | 3 => Expression::Variable(self.ident()),
            4 | 5 => Expression::Address(self.memref()),
            _ => self.number(parent, risky),
        }
    }

    fn expr_in(&mut self, depth: u32, parent: Parent, risky: bool) -> Expression {
        if depth == 0 || self.rng.chance(1, 3) {
            return self.leaf(parent, risky);
        }
        let pick = self.rng.below(10);
        if pick < 4 {
            let op = *self.rng.pick(&[
                InfixOperator::Plus,
                InfixOperator::Minus,
                InfixOperator::Star,
                InfixOperator::Slash,
                InfixOperator::Caret,
            ]);
            let l = self.expr_in(depth - 1, Parent::InfixChild, risky);
            let r = self.expr_in(depth - 1, Parent::InfixChild, risky);
            Expression::Infix(InfixExpression::new(l.into(), op, r.into()))
        } else if pick < 7 {
            let f = *self.rng.pick(&[
                ExpressionFunction::Cis,
                ExpressionFunction::Cosine,
                ExpressionFunction::Exponent,
                ExpressionFunction::Sine,
                ExpressionFunction::SquareRoot,
            ]);
            let a = self.expr_in(depth - 1, Parent::FuncArg, risky);
            Expression::FunctionCall(FunctionCallExpression::new(f, a.into()))
        } else if pick < 9 && (risky || parent != Parent::PrefixChild) {
            let op = if risky && self.rng.chance(1, 3) { PrefixOperator::Plus } else { PrefixOperator::Minus };
            let a = self.expr_in(depth - 1, Parent::PrefixChild, risky);
            Expression::Prefix(PrefixExpression::new(op, a.into()))
        } else {
            self.leaf(parent, risky)
        }
    }

    /// A random expression (safe shape unless the risky lottery is won).
    pub fn expr(&mut self) -> Expression {
        let risky = (self.rng.below(100) as u32) < self.cfg.risky_expr_pct;
        let d = self.rng.below(self.cfg.max_expr_depth as usize + 1) as u32;
        self.expr_in(d, Parent::Root, risky)
    }

    /// An expression that re-parses to the *same tree* (for positions whose expressions are not
    /// publicly reachable for value comparison: gates inside `DEFGATE ... AS SEQUENCE`).
    pub fn structural_expr(&mut self) -> Expression {
        match self.rng.below(4) {
            0 => Expression::PiConstant(),
            1 => Expression::Variable(self.ident()),
            2 => Expression::Number(Complex64::new(self.fractional_real().abs(), 0.0)),
            _ => Expression::Address(self.memref()),
        }
    }

    pub fn waveform_invocation(&mut self) -> WaveformInvocation {
        let name = self.waveform_name();
        let n = self.rng.below(4);
        let mut parameters: IndexMap<String, Expression> = IndexMap::new();
        for _ in 0..n {
            let k = self.ident();
            let v = self.expr();
            parameters.insert(k, v);
        }
        WaveformInvocation::new(name, parameters)
    }

    pub fn arithmetic_operand(&mut self) -> ArithmeticOperand {
        match self.rng.below(3) {
            0 => ArithmeticOperand::LiteralInteger(self.i64_any()),
            1 => ArithmeticOperand::LiteralReal(if self.cfg.integral_literal_reals {
                self.real()
            } else {
                self.fractional_real()
            }),
            _ => ArithmeticOperand::MemoryReference(self.memref()),
        }
    }

    pub fn comparison_operand(&mut self) -> ComparisonOperand {
        match self.rng.below(3) {
            0 => ComparisonOperand::LiteralInteger(self.i64_any()),
            1 => ComparisonOperand::LiteralReal(if self.cfg.integral_literal_reals {
                self.real()
            } else {
                self.fractional_real()
            }),
            _ => ComparisonOperand::MemoryReference(self.memref()),
        }
    }

    pub fn modifiers(&mut self) -> Vec<GateModifier> {
        let n = match self.rng.below(6) {
            0 | 1 | 2 => 0,
            3 | 4 => 1,
            _ => 2 + self.rng.below(2),
        };
        (0..n)
            .map(|_| *self.rng.pick(&[GateModifier::Controlled, GateModifier::Dagger, GateModifier::Forked]))
            .collect()
    }

    pub fn gate(&mut self) -> Gate {
        let name = self.gate_name();
        let np = self.rng.below(3);
        let params: Vec<Expression> = (0..np).map(|_| self.expr()).collect();
        let qubits = self.qubits(1, 3);
        let modifiers = self.modifiers();
        match guarded(|| Gate::new(&name, params.clone(), qubits.clone(), modifiers.clone())) {
            Ok(Ok(g)) => g,
            _ => Gate { name: "X".into(), parameters: vec![], qubits: vec![Qubit::Fixed(0)], modifiers: vec![] },
        }
    }

    pub fn delay(&mut self) -> Delay {
        let nframes = self.rng.below(3);
        let frame_names: Vec<String> = (0..nframes).map(|_| self.frame_name()).collect();
        let qubits = self.qubits(0, 2);
        let duration = if frame_names.is_empty() && !self.cfg.ambiguous_delays {
            // a plain non-negative real literal: the only duration shape the DELAY grammar can tell
            // apart from a qubit list without an intervening frame name
            Expression::Number(Complex64::new(self.fractional_real().abs(), 0.0))
        } else {
            self.expr()
        };
        Delay::new(duration, frame_names, qubits)
    }

    pub fn call(&mut self) -> Call {
        let name = self.ident();
        let n = self.rng.below(4);
        let mut arguments = Vec::new();
        for _ in 0..n {
            arguments.push(match self.rng.below(3) {
                0 => UnresolvedCallArgument::Identifier(self.ident()),
                1 => UnresolvedCallArgument::MemoryReference(self.memref()),
                _ => {
                    let re = self.real();
                    let im = self.real();
                    if self.cfg.signed_call_immediates {
                        match self.rng.below(4) {
                            0 => UnresolvedCallArgument::Immediate(Complex64::new(re, im)),
                            1 => UnresolvedCallArgument::Immediate(Complex64::new(0.0, im)),
                            _ => UnresolvedCallArgument::Immediate(Complex64::new(re, 0.0)),
                        }
                    } else if self.rng.chance(1, 3) {
                        UnresolvedCallArgument::Immediate(Complex64::new(0.0, im.abs()))
                    } else {
                        UnresolvedCallArgument::Immediate(Complex64::new(re.abs(), 0.0))
                    }
                }
            });
        }
        match guarded(|| Call::try_new(name.clone(), arguments.clone())) {
            Ok(Ok(c)) => c,
            _ => Call { name: "f".into(), arguments: vec![] },
        }
    }

    pub fn block(&mut self, lo: usize, hi: usize) -> Vec<Instruction> {
        let n = lo + self.rng.below(hi - lo + 1);
        (0..n)
            .map(|_| {
                let k = *self.rng.pick(SIMPLE_KINDS);
                self.instruction_of(k)
            })
            .collect()
    }

    fn gate_definition(&mut self) -> GateDefinition {
        let name = self.ident();
        let nparams = self.rng.below(3);
        let parameters: Vec<String> = (0..nparams).map(|_| self.ident()).collect();
        let spec = match self.rng.below(4) {
            0 => {
                let dim = 1 + self.rng.below(3);
                let rows = (0..dim)
                    .map(|_| {
                        (0..dim)
                            .map(|_| {
                                if !parameters.is_empty() && self.rng.chance(1, 3) {
                                    Expression::Variable(self.rng.pick(&parameters).clone())
                                } else {
                                    self.expr()
                                }
                            })
                            .collect()
                    })
                    .collect();
                GateSpecification::Matrix(rows)
            }
            1 => {
                let n = 1 + self.rng.below(4);
                GateSpecification::Permutation((0..n).map(|_| self.u64_any()).collect())
            }
            2 => {
                let nargs = 1 + self.rng.below(3);
                let mut arguments: Vec<String> = Vec::new();
                while arguments.len() < nargs {
                    let a = self.ident();
                    if !arguments.contains(&a) {
                        arguments.push(a);
                    }
                }
                let nterms = 1 + self.rng.below(3);
                let terms = (0..nterms)
                    .map(|_| {
                        let len = 1 + self.rng.below(arguments.len());
                        let args: Vec<(PauliGate, String)> = (0..len)
                            .map(|k| {
                                (
                                    *self.rng.pick(&[PauliGate::I, PauliGate::X, PauliGate::Y, PauliGate::Z]),
                                    arguments[k].clone(),
                                )
                            })
                            .collect();
                        PauliTerm::new(args, self.expr())
                    })
                    .collect::<Vec<_>>();
                match guarded(|| PauliSum::new(arguments.clone(), terms.clone())) {
                    Ok(Ok(s)) => GateSpecification::PauliSum(s),
                    _ => GateSpecification::Permutation(vec![0, 1]),
                }
            }
            _ => {
                let nq = 1 + self.rng.below(3);
                let mut qs: Vec<String> = Vec::new();
                while qs.len() < nq {
                    let a = self.ident();
                    if !qs.contains(&a) {
                        qs.push(a);
                    }
                }
                let ng = 1 + self.rng.below(3);
                let gates: Vec<Gate> = (0..ng)
                    .map(|_| {
                        let name = self.gate_name();
                        let np = self.rng.below(2);
                        let params = (0..np)
                            .map(|_| {
                                if !parameters.is_empty() && self.rng.chance(1, 2) {
                                    Expression::Variable(self.rng.pick(&parameters).clone())
                                } else {
                                    self.structural_expr()
                                }
                            })
                            .collect();
                        let nqs = 1 + self.rng.below(2);
                        let qubits = (0..nqs).map(|_| Qubit::Variable(self.rng.pick(&qs).clone())).collect();
                        Gate { name, parameters: params, qubits, modifiers: self.modifiers() }
                    })
                    .collect();
                match guarded(|| DefGateSequence::try_new(qs.clone(), gates.clone())) {
                    Ok(Ok(s)) => GateSpecification::Sequence(s),
                    _ => GateSpecification::Permutation(vec![1, 0]),
                }
            }
        };
        match guarded(|| GateDefinition::new(name.clone(), parameters.clone(), spec.clone())) {
            Ok(Ok(g)) => g,
            _ => GateDefinition { name: "G0".into(), parameters: vec![], specification: GateSpecification::Permutation(vec![0]) },
        }
    }

    /// A valid `PRAGMA EXTERN name "signature"`.
    pub fn extern_pragma(&mut self) -> Pragma {
        let name = self.ident();
        let ret = if self.rng.chance(1, 2) { "INTEGER " } else { "" };
        let np = if ret.is_empty() { 1 + self.rng.below(2) } else { self.rng.below(3) };
        let mut params = Vec::new();
        for _ in 0..np {
            let p = self.ident();
            let m = if self.rng.chance(1, 2) { "mut " } else { "" };
            let t = *self.rng.pick(&["REAL", "BIT[2]", "INTEGER[]", "OCTET"]);
            params.push(format!("{p} : {m}{t}"));
        }
        let sig = if params.is_empty() {
            ret.trim().to_string()
        } else {
            format!("{ret}({})", params.join(", "))
        };
        Pragma::new("EXTERN".into(), vec![PragmaArgument::Identifier(name)], Some(sig))
    }

    // ----------------------------------------------------------------------------- instructions

    /// Build one instruction of the named variant (see `KINDS`).
    pub fn instruction_of(&mut self, kind: &str) -> Instruction {
        match kind {
            "Arithmetic" => {
                let op = *self.rng.pick(&[
                    ArithmeticOperator::Add,
                    ArithmeticOperator::Subtract,
                    ArithmeticOperator::Divide,
                    ArithmeticOperator::Multiply,
                ]);
                Instruction::Arithmetic(Arithmetic::new(op, self.memref(), self.arithmetic_operand()))
            }
            "BinaryLogic" => {
                let op = *self.rng.pick(&[
                    BinaryOperator::And,
                    BinaryOperator::Ior,
                    BinaryOperator::Xor,
                    BinaryOperator::Shl,
                    BinaryOperator::Shr,
                    BinaryOperator::Ashr,
                ]);
                let src = if self.rng.chance(1, 2) {
                    BinaryOperand::LiteralInteger(self.i64_any())
                } else {
                    BinaryOperand::MemoryReference(self.memref())
                };
                Instruction::BinaryLogic(BinaryLogic::new(op, self.memref(), src))
            }
            "CalibrationDefinition" => {
                let name = self.gate_name();
                let modifiers = if self.cfg.defcal_modifiers { self.modifiers() } else { vec![] };
                let np = self.rng.below(3);
                let params = (0..np).map(|_| self.expr()).collect::<Vec<_>>();
                let qubits = self.qubits(1, 3);
                let ident = match guarded(|| {
                    CalibrationIdentifier::new(name.clone(), modifiers.clone(), params.clone(), qubits.clone())
                }) {
                    Ok(Ok(i)) => i,
                    _ => CalibrationIdentifier { name: "X".into(), modifiers: vec![], parameters: vec![], qubits: vec![Qubit::Fixed(0)] },
                };
                Instruction::CalibrationDefinition(CalibrationDefinition::new(ident, self.block(1, 3)))
            }
            "Call" => Instruction::Call(self.call()),
            "Capture" => Instruction::Capture(Capture::new(
                self.rng.chance(1, 2),
                self.frame_identifier(),
                self.memref(),
                self.waveform_invocation(),
            )),
            "CircuitDefinition" => {
                let name = self.ident();
                let np = self.rng.below(3);
                let params = (0..np).map(|_| self.ident()).collect();
                let nq = self.rng.below(3);
                let qvars = (0..nq).map(|_| self.ident()).collect();
                Instruction::CircuitDefinition(CircuitDefinition::new(name, params, qvars, self.block(1, 3)))
            }
            "Convert" => Instruction::Convert(Convert::new(self.memref(), self.memref())),
            "Comparison" => {
                let op = *self.rng.pick(&[
                    ComparisonOperator::Equal,
                    ComparisonOperator::GreaterThanOrEqual,
                    ComparisonOperator::GreaterThan,
                    ComparisonOperator::LessThanOrEqual,
                    ComparisonOperator::LessThan,
                ]);
                Instruction::Comparison(Comparison::new(op, self.memref(), self.memref(), self.comparison_operand()))
            }
            "Declaration" => {
                let name = self.ident();
                let size = Vector::new(self.scalar_type(), if self.rng.chance(1, 8) { self.u64_any() } else { 1 + self.rng.below(8) as u64 });
                let sharing = if self.rng.chance(1, 3) {
                    let n = self.rng.below(3);
                    let offsets = (0..n).map(|_| Offset::new(self.u64_any(), self.scalar_type())).collect();
                    Some(Sharing::new(self.ident(), offsets))
                } else {
                    None
                };
                Instruction::Declaration(Declaration::new(name, size, sharing))
            }
            "Delay" => Instruction::Delay(self.delay()),
            "Exchange" => Instruction::Exchange(Exchange::new(self.memref(), self.memref())),
            "Fence" => Instruction::Fence(Fence::new(self.qubits(0, 3))),
            "FrameDefinition" => {
                let id = self.frame_identifier();
                let n = 1 + self.rng.below(3);
                let mut attrs: IndexMap<String, AttributeValue> = IndexMap::new();
                for _ in 0..n {
                    let key = if self.rng.chance(3, 4) { self.rng.pick(ATTR_KEYS).to_string() } else { self.ident() };
                    let v = if self.rng.chance(1, 2) {
                        AttributeValue::String(self.string())
                    } else {
                        AttributeValue::Expression(self.expr())
                    };
                    attrs.insert(key, v);
                }
                Instruction::FrameDefinition(FrameDefinition::new(id, attrs))
            }
            "Gate" => Instruction::Gate(self.gate()),
            "GateDefinition" => Instruction::GateDefinition(self.gate_definition()),
            "Halt" => Instruction::Halt(),
            "Include" => Instruction::Include(Include::new(self.string())),
            "Jump" => Instruction::Jump(Jump::new(self.target())),
            "JumpUnless" => Instruction::JumpUnless(JumpUnless::new(self.target(), self.memref())),
            "JumpWhen" => Instruction::JumpWhen(JumpWhen::new(self.target(), self.memref())),
            "Label" => Instruction::Label(Label::new(self.target())),
            "Load" => Instruction::Load(Load::new(self.memref(), self.ident(), self.memref())),
            "MeasureCalibrationDefinition" => {
                let name = if self.rng.chance(1, 3) { Some(self.ident()) } else { None };
                let qubit = self.qubit();
                let target = if self.rng.chance(1, 2) { Some(self.ident()) } else { None };
                Instruction::MeasureCalibrationDefinition(MeasureCalibrationDefinition::new(
                    MeasureCalibrationIdentifier::new(name, qubit, target),
                    self.block(1, 3),
                ))
            }
            "Measurement" => {
                let name = if self.rng.chance(1, 4) { Some(self.ident()) } else { None };
                let qubit = self.qubit();
                let target = if self.rng.chance(2, 3) { Some(self.memref()) } else { None };
                Instruction::Measurement(Measurement::new(name, qubit, target))
            }
            "Move" => Instruction::Move(Move::new(self.memref(), self.arithmetic_operand())),
            "Nop" => Instruction::Nop(),
            "Pragma" => {
                if self.rng.chance(1, 8) {
                    return Instruction::Pragma(self.extern_pragma());
                }
                let name = self.ident();
                let n = self.rng.below(4);
                let args = (0..n)
                    .map(|_| {
                        if self.rng.chance(1, 2) {
                            PragmaArgument::Identifier(self.ident())
                        } else {
                            PragmaArgument::Integer(self.u64_any())
                        }
                    })
                    .collect();
                let data = if self.rng.chance(1, 2) { Some(self.string()) } else { None };
                Instruction::Pragma(Pragma::new(name, args, data))
            }
            "Pulse" => Instruction::Pulse(Pulse::new(self.rng.chance(1, 2), self.frame_identifier(), self.waveform_invocation())),
            "RawCapture" => Instruction::RawCapture(RawCapture::new(
                self.rng.chance(1, 2),
                self.frame_identifier(),
                self.expr(),
                self.memref(),
            )),
            "Reset" => Instruction::Reset(Reset::new(if self.rng.chance(2, 3) { Some(self.qubit()) } else { None })),
            "SetFrequency" => Instruction::SetFrequency(SetFrequency::new(self.frame_identifier(), self.expr())),
            "SetPhase" => Instruction::SetPhase(SetPhase::new(self.frame_identifier(), self.expr())),
            "SetScale" => Instruction::SetScale(SetScale::new(self.frame_identifier(), self.expr())),
            "ShiftFrequency" => Instruction::ShiftFrequency(ShiftFrequency::new(self.frame_identifier(), self.expr())),
            "ShiftPhase" => Instruction::ShiftPhase(ShiftPhase::new(self.frame_identifier(), self.expr())),
            "Store" => Instruction::Store(Store::new(self.ident(), self.memref(), self.arithmetic_operand())),
            "SwapPhases" => Instruction::SwapPhases(SwapPhases::new(self.frame_identifier(), self.frame_identifier())),
            "UnaryLogic" => Instruction::UnaryLogic(UnaryLogic::new(
                *self.rng.pick(&[UnaryOperator::Neg, UnaryOperator::Not]),
                self.memref(),
            )),
            "WaveformDefinition" => {
                let name = self.waveform_name();
                let np = self.rng.below(3);
                let params: Vec<String> = (0..np).map(|_| self.ident()).collect();
                let n = 1 + self.rng.below(4);
                let matrix = (0..n).map(|_| self.expr()).collect();
                Instruction::WaveformDefinition(WaveformDefinition::new(name, Waveform::new(matrix, params)))
            }
            "Wait" => Instruction::Wait(),
            other => panic!("harness bug: unknown instruction kind {other}"),
        }
    }

    /// A random instruction of any variant.
    pub fn instruction(&mut self) -> Instruction {
        let k = *self.rng.pick(KINDS);
        self.instruction_of(k)
    }

    /// A random instruction list (definitions and body instructions mixed).
    pub fn instructions(&mut self, lo: usize, hi: usize) -> Vec<Instruction> {
        let n = lo + self.rng.below(hi - lo + 1);
        (0..n).map(|_| self.instruction()).collect()
    }
}
