//! Seeded generator of single instructions of every kind over a caller-chosen region alphabet
//! (used by C27 and C30).  Only builds AST values; never consults quil-rs for expectations.

use crate::core::Rng;
use crate::gen::analysis_ast::{addr, cnum, frame, mref, num, pi, pick_str, q, random_expr, var};
use indexmap::IndexMap;
use quil_rs::expression::Expression;
use quil_rs::instruction::*;

pub struct InstrGen<'a> {
    /// Region names operands are drawn from.
    pub regions: &'a [&'a str],
    /// Memory-reference indices are drawn from `0..=max_index`.
    pub max_index: u64,
    /// Maximum expression depth.
    pub expr_depth: usize,
    /// Whether expression leaves may be variables / complex numbers.
    pub exotic_leaves: bool,
}

pub const ARITH_OPS: [ArithmeticOperator; 4] = [
    ArithmeticOperator::Add,
    ArithmeticOperator::Subtract,
    ArithmeticOperator::Multiply,
    ArithmeticOperator::Divide,
];
pub const BINARY_OPS: [BinaryOperator; 6] = [
    BinaryOperator::And,
    BinaryOperator::Ior,
    BinaryOperator::Xor,
    BinaryOperator::Shl,
    BinaryOperator::Shr,
    BinaryOperator::Ashr,
];
pub const UNARY_OPS: [UnaryOperator; 2] = [UnaryOperator::Neg, UnaryOperator::Not];
pub const COMPARISON_OPS: [ComparisonOperator; 5] = [
    ComparisonOperator::Equal,
    ComparisonOperator::GreaterThanOrEqual,
    ComparisonOperator::GreaterThan,
    ComparisonOperator::LessThanOrEqual,
    ComparisonOperator::LessThan,
];

impl InstrGen<'_> {
    pub fn name(&self, rng: &mut Rng) -> String {
        rng.pick(self.regions).to_string()
    }
    pub fn mref(&self, rng: &mut Rng) -> MemoryReference {
        mref(pick_str(rng, self.regions), rng.below(self.max_index as usize + 1) as u64)
    }
    pub fn leaf(&self, rng: &mut Rng) -> Expression {
        let n = if self.exotic_leaves { 10 } else { 7 };
        match rng.below(n) {
            0..=3 => {
                let m = self.mref(rng);
                addr(&m.name, m.index)
            }
            4 => num(*rng.pick(&[0.0, 1.0, -2.0, 1.5, 0.25])),
            5 => num(rng.range(-8, 8) as f64 / 4.0),
            6 => pi(),
            7 => var(pick_str(rng, &["v", "theta"])),
            8 => cnum(0.0, *rng.pick(&[1.0, -2.0, 0.5])),
            _ => cnum(1.0, 1.0),
        }
    }
    pub fn expr(&self, rng: &mut Rng) -> Expression {
        let depth = rng.below(self.expr_depth + 1);
        self.expr_of_depth(rng, depth)
    }
    pub fn expr_of_depth(&self, rng: &mut Rng, depth: usize) -> Expression {
        let mut leaf = |r: &mut Rng| self.leaf(r);
        random_expr(rng, depth, &mut leaf)
    }
    fn arith_operand(&self, rng: &mut Rng) -> ArithmeticOperand {
        match rng.below(4) {
            0 => ArithmeticOperand::LiteralInteger(rng.range(-3, 9)),
            1 => ArithmeticOperand::LiteralReal(*rng.pick(&[0.5, 2.0, -1.25])),
            _ => ArithmeticOperand::MemoryReference(self.mref(rng)),
        }
    }
    fn frame(&self, rng: &mut Rng) -> FrameIdentifier {
        match rng.below(3) {
            0 => frame("rf", &[0]),
            1 => frame("ro", &[1]),
            _ => frame("cz", &[0, 1]),
        }
    }
    fn waveform(&self, rng: &mut Rng) -> WaveformInvocation {
        let mut parameters: IndexMap<String, Expression> = IndexMap::new();
        let n = rng.below(4);
        for name in ["duration", "iq", "scale"].iter().take(n) {
            parameters.insert(name.to_string(), self.expr(rng));
        }
        WaveformInvocation {
            name: rng.pick(&["flat", "gaussian", "my_wf"]).to_string(),
            parameters,
        }
    }

    /// Classical instructions: ADD..DIV, AND..ASHR, NEG/NOT, MOVE, EXCHANGE, CONVERT, EQ..LT,
    /// LOAD, STORE.
    pub fn classical(&self, rng: &mut Rng) -> Instruction {
        match rng.below(9) {
            0 => Instruction::Arithmetic(Arithmetic {
                operator: *rng.pick(&ARITH_OPS),
                destination: self.mref(rng),
                source: self.arith_operand(rng),
            }),
            1 => Instruction::BinaryLogic(BinaryLogic {
                operator: *rng.pick(&BINARY_OPS),
                destination: self.mref(rng),
                source: if rng.chance(1, 3) {
                    BinaryOperand::LiteralInteger(rng.range(0, 7))
                } else {
                    BinaryOperand::MemoryReference(self.mref(rng))
                },
            }),
            2 => Instruction::UnaryLogic(UnaryLogic {
                operator: *rng.pick(&UNARY_OPS),
                operand: self.mref(rng),
            }),
            3 => Instruction::Move(Move {
                destination: self.mref(rng),
                source: self.arith_operand(rng),
            }),
            4 => Instruction::Exchange(Exchange {
                left: self.mref(rng),
                right: self.mref(rng),
            }),
            5 => Instruction::Convert(Convert {
                destination: self.mref(rng),
                source: self.mref(rng),
            }),
            6 => Instruction::Comparison(Comparison {
                operator: *rng.pick(&COMPARISON_OPS),
                destination: self.mref(rng),
                lhs: self.mref(rng),
                rhs: match rng.below(4) {
                    0 => ComparisonOperand::LiteralInteger(rng.range(-3, 9)),
                    1 => ComparisonOperand::LiteralReal(*rng.pick(&[0.5, 2.0])),
                    _ => ComparisonOperand::MemoryReference(self.mref(rng)),
                },
            }),
            7 => Instruction::Load(Load {
                destination: self.mref(rng),
                source: self.name(rng),
                offset: self.mref(rng),
            }),
            _ => Instruction::Store(Store {
                destination: self.name(rng),
                offset: self.mref(rng),
                source: self.arith_operand(rng),
            }),
        }
    }

    /// SET-FREQUENCY / SET-PHASE / SET-SCALE / SHIFT-FREQUENCY / SHIFT-PHASE with expression `e`.
    pub fn frame_update_with(&self, rng: &mut Rng, which: usize, e: Expression) -> Instruction {
        let f = self.frame(rng);
        match which % 5 {
            0 => Instruction::SetFrequency(SetFrequency { frame: f, frequency: e }),
            1 => Instruction::SetPhase(SetPhase { frame: f, phase: e }),
            2 => Instruction::SetScale(SetScale { frame: f, scale: e }),
            3 => Instruction::ShiftFrequency(ShiftFrequency { frame: f, frequency: e }),
            _ => Instruction::ShiftPhase(ShiftPhase { frame: f, phase: e }),
        }
    }
    pub fn frame_update(&self, rng: &mut Rng) -> Instruction {
        let e = self.expr(rng);
        let which = rng.below(5);
        self.frame_update_with(rng, which, e)
    }

    /// Instructions that act on qubits / frames and may read memory through expressions or
    /// receive measurement / capture results.
    pub fn quantum(&self, rng: &mut Rng) -> Instruction {
        match rng.below(7) {
            0 => {
                let n_params = rng.below(3);
                let params: Vec<Expression> = (0..n_params).map(|_| self.expr(rng)).collect();
                let modifiers = match rng.below(5) {
                    0 => vec![GateModifier::Dagger],
                    1 => vec![GateModifier::Controlled],
                    _ => vec![],
                };
                let qubits: Vec<Qubit> = if modifiers.contains(&GateModifier::Controlled) {
                    vec![q(1), q(0)]
                } else {
                    vec![q(0)]
                };
                Instruction::Gate(Gate {
                    name: rng.pick(&["RX", "U", "CPHASE"]).to_string(),
                    parameters: params,
                    qubits,
                    modifiers,
                })
            }
            1 => Instruction::Measurement(Measurement {
                name: None,
                qubit: q(rng.below(3) as u64),
                target: if rng.chance(3, 4) { Some(self.mref(rng)) } else { None },
            }),
            2 => Instruction::Pulse(Pulse {
                blocking: rng.chance(1, 2),
                frame: self.frame(rng),
                waveform: self.waveform(rng),
            }),
            3 => Instruction::Capture(Capture {
                blocking: rng.chance(1, 2),
                frame: self.frame(rng),
                memory_reference: self.mref(rng),
                waveform: self.waveform(rng),
            }),
            4 => Instruction::RawCapture(RawCapture {
                blocking: rng.chance(1, 2),
                frame: self.frame(rng),
                duration: self.expr(rng),
                memory_reference: self.mref(rng),
            }),
            5 => Instruction::Delay(Delay {
                duration: self.expr(rng),
                frame_names: if rng.chance(1, 2) { vec!["rf".to_string()] } else { vec![] },
                qubits: vec![q(0)],
            }),
            _ => self.frame_update(rng),
        }
    }

    /// JUMP-WHEN / JUMP-UNLESS.
    pub fn conditional_jump(&self, rng: &mut Rng) -> Instruction {
        let target = Target::Fixed("end".to_string());
        if rng.chance(1, 2) {
            Instruction::JumpWhen(JumpWhen { target, condition: self.mref(rng) })
        } else {
            Instruction::JumpUnless(JumpUnless { target, condition: self.mref(rng) })
        }
    }

    /// Instructions that touch no memory at all.  (PRAGMA arguments are never region names: a
    /// pragma's meaning is outside the language.)
    pub fn inert(&self, rng: &mut Rng) -> Instruction {
        match rng.below(13) {
            0 => Instruction::Fence(Fence { qubits: vec![q(0), q(1)] }),
            1 => Instruction::Fence(Fence { qubits: vec![] }),
            2 => Instruction::Halt(),
            3 => Instruction::Wait(),
            4 => Instruction::Nop(),
            5 => Instruction::Include(Include { filename: "lib.quil".to_string() }),
            6 => Instruction::Jump(Jump { target: Target::Fixed("end".to_string()) }),
            7 => Instruction::Label(Label { target: Target::Fixed("end".to_string()) }),
            8 => Instruction::Pragma(Pragma {
                name: "NO-NOISE".to_string(),
                arguments: vec![PragmaArgument::Identifier("zzz".to_string()), PragmaArgument::Integer(3)],
                data: Some("payload".to_string()),
            }),
            9 => Instruction::Reset(Reset { qubit: if rng.chance(1, 2) { Some(q(0)) } else { None } }),
            10 => Instruction::SwapPhases(SwapPhases { frame_1: frame("rf", &[0]), frame_2: frame("ro", &[1]) }),
            11 => Instruction::Declaration(Declaration {
                name: self.name(rng),
                size: Vector { data_type: ScalarType::Real, length: 2 },
                sharing: None,
            }),
            _ => {
                let mut attributes: FrameAttributes = IndexMap::new();
                attributes.insert("SAMPLE-RATE".to_string(), AttributeValue::Expression(num(1e9)));
                attributes.insert("DIRECTION".to_string(), AttributeValue::String("tx".to_string()));
                Instruction::FrameDefinition(FrameDefinition { identifier: frame("rf", &[0]), attributes })
            }
        }
    }

    /// Definitions whose bodies / matrices mention regions.
    pub fn definition(&self, rng: &mut Rng) -> Instruction {
        let body = |g: &Self, rng: &mut Rng| -> Vec<Instruction> {
            (0..1 + rng.below(3))
                .map(|_| if rng.chance(1, 2) { g.classical(rng) } else { g.quantum(rng) })
                .collect()
        };
        match rng.below(5) {
            0 => Instruction::CalibrationDefinition(CalibrationDefinition {
                identifier: CalibrationIdentifier {
                    modifiers: vec![],
                    name: "RX".to_string(),
                    parameters: vec![self.expr(rng)],
                    qubits: vec![q(0)],
                },
                instructions: body(self, rng),
            }),
            1 => Instruction::MeasureCalibrationDefinition(MeasureCalibrationDefinition {
                identifier: MeasureCalibrationIdentifier::new(None, q(0), Some("dest".to_string())),
                instructions: body(self, rng),
            }),
            2 => Instruction::CircuitDefinition(CircuitDefinition {
                name: "BELL".to_string(),
                parameters: vec![],
                qubit_variables: vec!["qa".to_string()],
                instructions: body(self, rng),
            }),
            3 => Instruction::GateDefinition(GateDefinition {
                name: "MYGATE".to_string(),
                parameters: vec![],
                specification: GateSpecification::Matrix(vec![
                    vec![self.expr(rng), num(0.0)],
                    vec![num(0.0), self.expr(rng)],
                ]),
            }),
            _ => Instruction::WaveformDefinition(WaveformDefinition {
                name: "my_wf".to_string(),
                definition: Waveform { matrix: vec![self.expr(rng), self.expr(rng)], parameters: vec![] },
            }),
        }
    }
}
