//! Grammar-based generator of Quil program *text*, token alphabet for exhaustive short
//! sequences, and byte/token mutators.  Nothing here consults quil-rs.

use crate::core::Rng;

pub const SAFE_IDENTS: &[&str] = &[
    "ro", "theta", "q", "a", "b_1", "x-y", "Foo", "BAR", "m0", "_t", "a-b-c", "Theta", "PI2",
    "Sin1", "beta", "mem", "g", "CZ", "RX", "X", "H", "my_gate", "Declare", "u", "v9",
];

pub const GATE_NAMES: &[&str] = &[
    "X", "Y", "Z", "H", "I", "S", "T", "CNOT", "CZ", "SWAP", "RX", "RY", "RZ", "PHASE", "CPHASE",
    "ISWAP", "PSWAP", "CCNOT", "XY", "foo", "My-Gate", "g_1",
];

pub const FRAME_NAMES: &[&str] = &["rf", "ro_rx", "xy", "cz", "a b", "ro-tx", "Frame1"];
pub const WAVEFORM_NAMES: &[&str] = &[
    "flat",
    "gaussian",
    "drag_gaussian",
    "erf_square",
    "wf",
    "q0_q1/sqrtiSWAP",
    "my_wf",
    "boxcar_kernel",
];
pub const TYPES: &[&str] = &["BIT", "OCTET", "INTEGER", "REAL"];

pub struct TextGen<'a> {
    pub rng: &'a mut Rng,
    /// Names to draw identifiers from.
    pub idents: &'a [&'a str],
    /// Allow constructs known to be outside "plain" Quil (tabs, comments, `;`, CRLF).
    pub layout_noise: bool,
    /// Maximum expression depth.
    pub expr_depth: u32,
}

impl<'a> TextGen<'a> {
    pub fn new(rng: &'a mut Rng) -> Self {
        TextGen {
            rng,
            idents: SAFE_IDENTS,
            layout_noise: true,
            expr_depth: 3,
        }
    }

    pub fn ident(&mut self) -> String {
        self.rng.pick(self.idents).to_string()
    }

    fn indent(&mut self) -> &'static str {
        if self.layout_noise && self.rng.chance(1, 6) {
            "\t"
        } else {
            "    "
        }
    }

    pub fn uint(&mut self) -> String {
        match self.rng.below(12) {
            0 => "0".into(),
            1 => "1".into(),
            2 => format!("0x{:X}", self.rng.below(4096)),
            3 => format!("0b{:b}", self.rng.below(64)),
            4 => format!("0o{:o}", self.rng.below(512)),
            5 => format!("1_000"),
            6 => format!("{}", self.rng.next() >> self.rng.below(64)),
            7 => "007".into(),
            _ => format!("{}", self.rng.below(20)),
        }
    }

    pub fn small_uint(&mut self) -> String {
        format!("{}", self.rng.below(8))
    }

    pub fn float(&mut self) -> String {
        match self.rng.below(14) {
            0 => "1.0".into(),
            1 => "0.5".into(),
            2 => "2.5e-3".into(),
            3 => "1e300".into(),
            4 => ".5".into(),
            5 => "5.".into(),
            6 => "1E+2".into(),
            7 => "3.141592653589793".into(),
            8 => "1e-7".into(),
            9 => "1_0.2_5".into(),
            10 => "1e15".into(),
            11 => "123456789012345680.0".into(),
            12 => "0.0".into(),
            _ => format!("{:.3}", self.rng.f64() * 10.0),
        }
    }

    pub fn memref(&mut self) -> String {
        let n = self.ident();
        match self.rng.below(3) {
            0 => n,
            _ => format!("{n}[{}]", self.small_uint()),
        }
    }

    pub fn memref_brackets(&mut self) -> String {
        format!("{}[{}]", self.ident(), self.small_uint())
    }

    pub fn qubit(&mut self) -> String {
        match self.rng.below(8) {
            0 => format!("%{}", self.ident()),
            1 => self.ident(),
            _ => self.small_uint(),
        }
    }

    pub fn fixed_qubit(&mut self) -> String {
        self.small_uint()
    }

    pub fn string(&mut self) -> String {
        let body = match self.rng.below(10) {
            0 => String::new(),
            1 => "a\\\"b".to_string(),
            2 => "back\\\\slash".to_string(),
            3 => "with # hash ; semi".to_string(),
            4 => "é ü".to_string(),
            5 => "line\nbreak".to_string(),
            _ => self.rng.pick(FRAME_NAMES).to_string(),
        };
        format!("\"{body}\"")
    }

    pub fn frame_name(&mut self) -> String {
        if self.rng.chance(1, 8) {
            self.string()
        } else {
            format!("\"{}\"", self.rng.pick(FRAME_NAMES))
        }
    }

    pub fn frame(&mut self) -> String {
        let n = 1 + self.rng.below(2);
        let qs: Vec<String> = (0..n).map(|_| self.qubit()).collect();
        format!("{} {}", qs.join(" "), self.frame_name())
    }

    pub fn expr(&mut self) -> String {
        let d = self.expr_depth;
        self.expr_at(d)
    }

    fn atom(&mut self) -> String {
        match self.rng.below(14) {
            0 => self.uint(),
            1 => self.float(),
            2 => format!("{}i", self.float()),
            3 => format!("{}i", self.small_uint()),
            4 => "pi".into(),
            5 => "i".into(),
            6 => format!("%{}", self.ident()),
            7 => self.memref_brackets(),
            8 => self.ident(),
            9 => "PI".into(),
            10 => "1.0".into(),
            _ => self.small_uint(),
        }
    }

    pub fn expr_at(&mut self, depth: u32) -> String {
        if depth == 0 {
            return self.atom();
        }
        match self.rng.below(10) {
            0 | 1 => self.atom(),
            2 => {
                let f = *self.rng.pick(&["sin", "cos", "sqrt", "exp", "cis", "SIN", "Cos"]);
                format!("{f}({})", self.expr_at(depth - 1))
            }
            3 => format!("({})", self.expr_at(depth - 1)),
            4 => {
                // prefix minus applies to an atom or a group
                if self.rng.chance(1, 2) {
                    format!("-{}", self.atom())
                } else {
                    format!("-({})", self.expr_at(depth - 1))
                }
            }
            _ => {
                let op = *self.rng.pick(&["+", "-", "*", "/", "^"]);
                let sp = if self.rng.chance(1, 2) { " " } else { "" };
                format!(
                    "{}{sp}{op}{sp}{}",
                    self.expr_at(depth - 1),
                    self.expr_at(depth - 1)
                )
            }
        }
    }

    fn params(&mut self) -> String {
        match self.rng.below(4) {
            0 | 1 => String::new(),
            2 => format!("({})", self.expr()),
            _ => format!("({}, {})", self.expr(), self.expr()),
        }
    }

    pub fn modifiers(&mut self) -> String {
        let mut s = String::new();
        if self.rng.chance(1, 4) {
            for _ in 0..1 + self.rng.below(3) {
                s.push_str(*self.rng.pick(&["DAGGER ", "CONTROLLED ", "FORKED "]));
            }
        }
        s
    }

    pub fn gate(&mut self) -> String {
        let m = self.modifiers();
        let name = self.rng.pick(GATE_NAMES).to_string();
        let p = self.params();
        let n = self.rng.below(4);
        let qs: Vec<String> = (0..n).map(|_| self.qubit()).collect();
        format!("{m}{name}{p} {}", qs.join(" "))
            .trim_end()
            .to_string()
    }

    fn arith_operand(&mut self) -> String {
        match self.rng.below(6) {
            0 => self.uint(),
            1 => format!("-{}", self.uint()),
            2 => self.float(),
            3 => format!("-{}", self.float()),
            _ => self.memref(),
        }
    }

    fn int_operand(&mut self) -> String {
        match self.rng.below(4) {
            0 => self.uint(),
            1 => format!("-{}", self.uint()),
            _ => self.memref(),
        }
    }

    fn waveform_invocation(&mut self) -> String {
        let name = self.rng.pick(WAVEFORM_NAMES).to_string();
        match self.rng.below(4) {
            0 => name,
            1 => format!("{name}()"),
            2 => format!("{name}(duration: {}, iq: {})", self.expr(), self.expr()),
            _ => format!("{name}({}: {})", self.ident(), self.expr()),
        }
    }

    /// One simple (single-line) instruction.
    pub fn simple_instruction(&mut self) -> String {
        match self.rng.below(46) {
            0..=5 => self.gate(),
            6 => {
                let n = if self.rng.chance(1, 4) {
                    format!("!{}", self.ident())
                } else {
                    String::new()
                };
                if self.rng.chance(1, 3) {
                    format!("MEASURE{n} {}", self.qubit())
                } else {
                    format!("MEASURE{n} {} {}", self.qubit(), self.memref())
                }
            }
            7 => {
                if self.rng.chance(1, 2) {
                    "RESET".into()
                } else {
                    format!("RESET {}", self.qubit())
                }
            }
            8 => format!("MOVE {} {}", self.memref(), self.arith_operand()),
            9 => {
                let op = *self.rng.pick(&["ADD", "SUB", "MUL", "DIV"]);
                format!("{op} {} {}", self.memref(), self.arith_operand())
            }
            10 => {
                let op = *self.rng.pick(&["EQ", "GE", "GT", "LE", "LT"]);
                format!(
                    "{op} {} {} {}",
                    self.memref(),
                    self.memref(),
                    self.arith_operand()
                )
            }
            11 => {
                let op = *self.rng.pick(&["AND", "IOR", "XOR", "SHL", "SHR", "ASHR"]);
                format!("{op} {} {}", self.memref(), self.int_operand())
            }
            12 => {
                let op = *self.rng.pick(&["NEG", "NOT"]);
                format!("{op} {}", self.memref())
            }
            13 => format!("CONVERT {} {}", self.memref(), self.memref()),
            14 => format!("EXCHANGE {} {}", self.memref(), self.memref()),
            15 => format!("LOAD {} {} {}", self.memref(), self.ident(), self.memref()),
            16 => format!(
                "STORE {} {} {}",
                self.ident(),
                self.memref(),
                self.arith_operand()
            ),
            17 => format!("LABEL @{}", self.ident()),
            18 => format!("JUMP @{}", self.ident()),
            19 => format!("JUMP-WHEN @{} {}", self.ident(), self.memref()),
            20 => format!("JUMP-UNLESS @{} {}", self.ident(), self.memref()),
            21 => "HALT".into(),
            22 => "WAIT".into(),
            23 => "NOP".into(),
            24 => {
                let mut s = format!("PRAGMA {}", self.ident());
                for _ in 0..self.rng.below(3) {
                    if self.rng.chance(1, 2) {
                        s.push_str(&format!(" {}", self.ident()));
                    } else {
                        s.push_str(&format!(" {}", self.uint()));
                    }
                }
                if self.rng.chance(1, 2) {
                    s.push_str(&format!(" {}", self.string()));
                }
                s
            }
            25 => self.declare(),
            26 => format!("INCLUDE {}", self.string()),
            27 => {
                let mut s = format!("CALL {}", self.ident());
                for _ in 0..self.rng.below(4) {
                    let a = match self.rng.below(6) {
                        0 => self.memref_brackets(),
                        1 => self.ident(),
                        2 => self.uint(),
                        3 => self.float(),
                        4 => format!("{}i", self.float()),
                        _ => self.memref_brackets(),
                    };
                    s.push_str(&format!(" {a}"));
                }
                s
            }
            28 | 29 => {
                let nb = if self.rng.chance(1, 3) {
                    "NONBLOCKING "
                } else {
                    ""
                };
                format!("{nb}PULSE {} {}", self.frame(), self.waveform_invocation())
            }
            30 => {
                let nb = if self.rng.chance(1, 3) {
                    "NONBLOCKING "
                } else {
                    ""
                };
                format!(
                    "{nb}CAPTURE {} {} {}",
                    self.frame(),
                    self.waveform_invocation(),
                    self.memref()
                )
            }
            31 => {
                let nb = if self.rng.chance(1, 3) {
                    "NONBLOCKING "
                } else {
                    ""
                };
                format!(
                    "{nb}RAW-CAPTURE {} {} {}",
                    self.frame(),
                    self.expr(),
                    self.memref()
                )
            }
            32 | 33 => {
                let nq = self.rng.below(3);
                let mut s = "DELAY".to_string();
                for _ in 0..nq {
                    s.push_str(&format!(" {}", self.qubit()));
                }
                for _ in 0..self.rng.below(3) {
                    s.push_str(&format!(" {}", self.frame_name()));
                }
                s.push_str(&format!(" {}", self.expr()));
                s
            }
            34 => {
                let mut s = "FENCE".to_string();
                for _ in 0..self.rng.below(3) {
                    s.push_str(&format!(" {}", self.qubit()));
                }
                s
            }
            35 => format!("SET-FREQUENCY {} {}", self.frame(), self.expr()),
            36 => format!("SET-PHASE {} {}", self.frame(), self.expr()),
            37 => format!("SET-SCALE {} {}", self.frame(), self.expr()),
            38 => format!("SHIFT-FREQUENCY {} {}", self.frame(), self.expr()),
            39 => format!("SHIFT-PHASE {} {}", self.frame(), self.expr()),
            40 => format!("SWAP-PHASES {} {}", self.frame(), self.frame()),
            41 => format!(
                "PRAGMA EXTERN {} \"{}\"",
                self.ident(),
                self.rng.pick(&[
                    "INTEGER (a : INTEGER)",
                    "(a : mut REAL[3], b : BIT[])",
                    "REAL",
                    "bogus",
                    "",
                ])
            ),
            _ => self.gate(),
        }
    }

    pub fn declare(&mut self) -> String {
        let mut s = format!("DECLARE {} {}", self.ident(), self.rng.pick(TYPES));
        if self.rng.chance(1, 2) {
            s.push_str(&format!("[{}]", self.uint()));
        }
        if self.rng.chance(1, 4) {
            s.push_str(&format!(" SHARING {}", self.ident()));
            if self.rng.chance(1, 2) {
                s.push_str(" OFFSET");
                for _ in 0..1 + self.rng.below(2) {
                    s.push_str(&format!(" {} {}", self.small_uint(), self.rng.pick(TYPES)));
                }
            }
        }
        s
    }

    fn block(&mut self, max: usize) -> String {
        let n = 1 + self.rng.below(max);
        let mut s = String::new();
        for _ in 0..n {
            let ind = self.indent();
            s.push_str(&format!("\n{ind}{}", self.simple_instruction()));
        }
        s
    }

    fn formals(&mut self) -> String {
        match self.rng.below(3) {
            0 => String::new(),
            1 => format!("(%{})", self.ident()),
            _ => format!("(%{}, %{})", self.ident(), self.ident()),
        }
    }

    pub fn defgate(&mut self) -> String {
        let name = self.rng.pick(GATE_NAMES).to_string();
        let ind = self.indent();
        match self.rng.below(5) {
            0 => {
                // matrix
                let f = self.formals();
                let as_m = if self.rng.chance(1, 2) { " AS MATRIX" } else { "" };
                let n = if self.rng.chance(1, 3) { 4 } else { 2 };
                let mut s = format!("DEFGATE {name}{f}{as_m}:");
                for _ in 0..n {
                    let row: Vec<String> = (0..n).map(|_| self.expr_at(1)).collect();
                    s.push_str(&format!("\n{ind}{}", row.join(", ")));
                }
                s
            }
            1 => {
                let mut perm: Vec<usize> = (0..if self.rng.chance(1, 2) { 2 } else { 4 }).collect();
                self.rng.shuffle(&mut perm);
                let row: Vec<String> = perm.iter().map(|x| x.to_string()).collect();
                format!(
                    "DEFGATE {name} AS PERMUTATION:\n{ind}{}",
                    row.join(", ")
                )
            }
            2 => {
                let f = self.formals();
                let a = self.ident();
                let b = self.ident();
                let mut s = format!("DEFGATE {name}{f} {a} {b} AS PAULI-SUM:");
                for _ in 0..1 + self.rng.below(2) {
                    if self.rng.chance(1, 2) {
                        let w = *self.rng.pick(&["X", "Y", "Z", "I"]);
                        s.push_str(&format!("\n{ind}{w}({}) {a}", self.expr_at(1)));
                    } else {
                        let w = *self.rng.pick(&["XX", "ZY", "IZ"]);
                        s.push_str(&format!("\n{ind}{w}({}) {a} {b}", self.expr_at(1)));
                    }
                }
                s
            }
            _ => {
                let f = self.formals();
                let a = self.ident();
                let b = self.ident();
                let mut s = format!("DEFGATE {name}{f} {a} {b} AS SEQUENCE:");
                for _ in 0..1 + self.rng.below(3) {
                    let m = self.modifiers();
                    let g = self.rng.pick(GATE_NAMES).to_string();
                    let p = self.params();
                    let qs = match self.rng.below(3) {
                        0 => a.clone(),
                        1 => b.clone(),
                        _ => format!("{a} {b}"),
                    };
                    s.push_str(&format!("\n{ind}{m}{g}{p} {qs}"));
                }
                s
            }
        }
    }

    pub fn definition(&mut self) -> String {
        match self.rng.below(8) {
            0 | 1 => self.defgate(),
            2 => {
                let f = self.formals();
                let mut s = format!("DEFCIRCUIT {}{f}", self.ident().replace('-', "_"));
                for _ in 0..self.rng.below(3) {
                    s.push_str(&format!(" {}", self.ident()));
                }
                s.push(':');
                s.push_str(&self.block(3));
                s
            }
            3 | 4 => {
                let m = self.modifiers();
                let name = self.rng.pick(GATE_NAMES).to_string();
                let p = self.params();
                let mut s = format!("DEFCAL {m}{name}{p}");
                for _ in 0..self.rng.below(3) {
                    s.push_str(&format!(" {}", self.qubit()));
                }
                s.push(':');
                s.push_str(&self.block(3));
                s
            }
            5 => {
                let n = if self.rng.chance(1, 4) {
                    format!("!{}", self.ident())
                } else {
                    String::new()
                };
                let t = if self.rng.chance(2, 3) {
                    format!(" {}", self.ident())
                } else {
                    String::new()
                };
                let mut s = format!("DEFCAL MEASURE{n} {}{t}:", self.qubit());
                s.push_str(&self.block(3));
                s
            }
            6 => {
                let mut s = format!("DEFFRAME {}:", self.frame());
                for _ in 0..1 + self.rng.below(3) {
                    let ind = self.indent();
                    let key = *self.rng.pick(&[
                        "SAMPLE-RATE",
                        "INITIAL-FREQUENCY",
                        "DIRECTION",
                        "HARDWARE-OBJECT",
                        "CENTER-FREQUENCY",
                        "custom_key",
                    ]);
                    let v = if self.rng.chance(1, 2) {
                        self.string()
                    } else {
                        self.expr_at(1)
                    };
                    s.push_str(&format!("\n{ind}{key}: {v}"));
                }
                s
            }
            _ => {
                let name = self.rng.pick(WAVEFORM_NAMES).to_string();
                let f = self.formals();
                let ind = self.indent();
                let n = 1 + self.rng.below(4);
                let xs: Vec<String> = (0..n).map(|_| self.expr_at(1)).collect();
                format!("DEFWAVEFORM {name}{f}:\n{ind}{}", xs.join(", "))
            }
        }
    }

    /// A whole program of up to `max` top-level items.
    pub fn program(&mut self, max: usize) -> String {
        let n = 1 + self.rng.below(max);
        let mut out = String::new();
        for i in 0..n {
            let item = if self.rng.chance(1, 4) {
                self.definition()
            } else {
                self.simple_instruction()
            };
            out.push_str(&item);
            if i + 1 < n || self.rng.chance(1, 2) {
                if self.layout_noise {
                    match self.rng.below(12) {
                        0 => out.push_str("; "),
                        1 => out.push_str(" # a comment\n"),
                        2 => out.push_str("\n\n"),
                        3 => out.push_str("\r\n"),
                        4 => out.push_str("\n# full-line comment\n"),
                        _ => out.push('\n'),
                    }
                } else {
                    out.push('\n');
                }
            }
        }
        out
    }
}

// ---------------------------------------------------------------------------------------------
// Token alphabet for exhaustive short sequences (C01)

pub const TOKENS: &[&str] = &[
    // commands, one per parsing shape
    "ADD", "AND", "CALL", "CAPTURE", "CONVERT", "DECLARE", "DEFCAL", "DEFCIRCUIT", "DEFFRAME",
    "DEFGATE", "DEFWAVEFORM", "DELAY", "EQ", "EXCHANGE", "FENCE", "HALT", "INCLUDE", "JUMP",
    "JUMP-WHEN", "LABEL", "LOAD", "MEASURE", "MOVE", "NEG", "PRAGMA", "PULSE", "RAW-CAPTURE",
    "RESET", "SET-PHASE", "SWAP-PHASES", "STORE", // other keywords
    "NONBLOCKING", "DAGGER", "CONTROLLED", "AS", "MATRIX", "PERMUTATION", "PAULI-SUM",
    "SEQUENCE", "SHARING", "OFFSET", "BIT", "REAL", "mut", // names
    "ro", "X", "i", "pi", "sin", "a-b", "%v", "@l", "\"s\"", // numbers
    "0", "1", "18446744073709551615", "9223372036854775808", "0x1F", "1.5", "1e309", "2i",
    // operators and punctuation
    "+", "-", "*", "/", "^", "(", ")", "[", "]", ",", ":", "!", ";", "\n", "\n    ", "# c",
];

/// A smaller core alphabet (for length-4 enumeration in the thorough tier).
pub const CORE_TOKENS: &[&str] = &[
    "ADD", "AND", "CALL", "CAPTURE", "DECLARE", "DEFCAL", "DEFGATE", "DEFFRAME", "DELAY", "EQ",
    "MEASURE", "MOVE", "PRAGMA", "PULSE", "STORE", "NONBLOCKING", "CONTROLLED", "AS", "SEQUENCE",
    "SHARING", "BIT", "ro", "X", "i", "%v", "\"s\"", "0", "18446744073709551615", "1.5", "+",
    "-", "*", "(", ")", "[", "]", ",", ":", "\n", "\n    ",
];

// ---------------------------------------------------------------------------------------------
// Mutators

const HOSTILE_BYTES: &[&str] = &[
    "\0", "\r", "\t", "\"", "\\", "#", ";", "%", "@", "!", "[", "]", "(", ")", ":", ",", "-", "+",
    "é", "\u{2028}", "😀", " ", "\n", "0x", "0b", ".", "_", "e", "i", "    ",
];

pub fn mutate_bytes(rng: &mut Rng, s: &str) -> String {
    let mut chars: Vec<char> = s.chars().collect();
    let n = 1 + rng.below(3);
    for _ in 0..n {
        let len = chars.len();
        match rng.below(5) {
            0 if len > 0 => {
                chars.remove(rng.below(len));
            }
            1 if len > 0 => {
                let i = rng.below(len);
                let c = chars[i];
                chars.insert(i, c);
            }
            2 if len > 0 => {
                let i = rng.below(len);
                let ins: Vec<char> = rng.pick(HOSTILE_BYTES).chars().collect();
                chars.splice(i..i + 1, ins);
            }
            3 if len > 1 => {
                let i = rng.below(len - 1);
                chars.swap(i, i + 1);
            }
            _ => {
                let i = rng.below(len + 1);
                let ins: Vec<char> = rng.pick(HOSTILE_BYTES).chars().collect();
                chars.splice(i..i, ins);
            }
        }
    }
    chars.into_iter().collect()
}

/// Split on whitespace boundaries keeping separators, mutate at token level.
pub fn mutate_tokens(rng: &mut Rng, s: &str) -> String {
    let mut toks: Vec<String> = Vec::new();
    let mut cur = String::new();
    for c in s.chars() {
        if c == ' ' || c == '\n' {
            if !cur.is_empty() {
                toks.push(std::mem::take(&mut cur));
            }
            toks.push(c.to_string());
        } else {
            cur.push(c);
        }
    }
    if !cur.is_empty() {
        toks.push(cur);
    }
    if toks.is_empty() {
        return s.to_string();
    }
    for _ in 0..1 + rng.below(2) {
        let len = toks.len();
        match rng.below(4) {
            0 if len > 1 => {
                toks.remove(rng.below(len));
            }
            1 if len > 1 => {
                let i = rng.below(len);
                let j = rng.below(len);
                toks.swap(i, j);
            }
            2 => {
                let i = rng.below(len);
                let t = toks[i].clone();
                toks.insert(i, t);
            }
            _ => {
                let i = rng.below(len);
                toks[i] = rng.pick(TOKENS).to_string();
            }
        }
    }
    toks.concat()
}
