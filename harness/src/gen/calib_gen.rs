//! Generators of calibration programs over small alphabets (properties C16–C19).
//!
//! Everything is produced as Quil *text* (the replayable form of a case).  Calibrations are
//! *derived from the instructions that are supposed to invoke them* (fixed slots kept, generalised
//! to a variable, or — rarely — changed to a non-matching value), so that lookups with several
//! candidates, nested expansions and substitutions dominate instead of being rare accidents.
//! The generators never ask quil-rs anything.

use crate::core::Rng;

// ---------------------------------------------------------------------------------------------
// C16: identifier alphabets and definition histories

pub struct C16Alphabet {
    /// `DEFCAL ...` headers (without the colon), gate calibrations first.
    pub ids: Vec<String>,
    pub n_gate_ids: usize,
    /// Query instructions (gates and measurements).
    pub queries: Vec<String>,
}

const C16_PARAMS: &[&str] = &["pi", "pi/2", "1.5707963267948966", "%t"];
const C16_QUERY_PARAMS: &[&str] = &["pi", "pi/2", "1.5707963267948966", "%x", "0.5"];

fn qubit_patterns(one: &[&str], second: &[&str]) -> Vec<String> {
    let mut v: Vec<String> = one.iter().map(|s| s.to_string()).collect();
    for a in one {
        for b in second {
            v.push(format!("{a} {b}"));
        }
    }
    v
}

pub fn c16_alphabet() -> C16Alphabet {
    let mut ids = Vec::new();
    let cal_qubits = qubit_patterns(&["0", "1", "q"], &["0", "1", "r"]);
    for m in ["", "CONTROLLED "] {
        for q in &cal_qubits {
            ids.push(format!("DEFCAL {m}X {q}"));
            for p in C16_PARAMS {
                ids.push(format!("DEFCAL {m}RX({p}) {q}"));
            }
        }
    }
    // other modifier stacks (name, modifiers - as an ordered list - and arities must all agree for
    // a match): parameterless X only, to keep the enumerated space small
    for m in ["DAGGER ", "DAGGER CONTROLLED ", "CONTROLLED DAGGER ", "FORKED "] {
        for q in &cal_qubits {
            ids.push(format!("DEFCAL {m}X {q}"));
        }
    }
    // a two-parameter gate: variable and literal parameters in both orders (a literal after a
    // variable must still be compared with the gate's parameter at the same position)
    for ps in ["%a,%b", "%a,0.5", "%a,0.25", "0.25,%b", "0.5,%b", "0.25,0.5", "0.5,0.5", "0.25,0.25"] {
        for q in ["0", "q"] {
            ids.push(format!("DEFCAL U2({ps}) {q}"));
        }
    }
    let n_gate_ids = ids.len();
    for n in ["", "!mid"] {
        for q in ["0", "1", "q"] {
            for t in ["", " addr", " dest"] {
                ids.push(format!("DEFCAL MEASURE{n} {q}{t}"));
            }
        }
    }
    let mut queries = Vec::new();
    let query_qubits = qubit_patterns(&["0", "1", "v"], &["0", "1", "w"]);
    for m in ["", "CONTROLLED "] {
        for q in &query_qubits {
            queries.push(format!("{m}X {q}"));
            for p in C16_QUERY_PARAMS {
                queries.push(format!("{m}RX({p}) {q}"));
            }
        }
    }
    for m in ["DAGGER ", "DAGGER CONTROLLED ", "CONTROLLED DAGGER ", "FORKED "] {
        for q in &query_qubits {
            queries.push(format!("{m}X {q}"));
        }
    }
    for ps in ["0.25,0.5", "0.5,0.25", "0.25,0.25", "0.5,0.5", "%x,0.5", "0.25,%y"] {
        for q in ["0", "1", "v"] {
            queries.push(format!("U2({ps}) {q}"));
        }
    }
    for n in ["", "!mid"] {
        for q in ["0", "1", "v"] {
            for t in ["", " ro[1]"] {
                queries.push(format!("MEASURE{n} {q}{t}"));
            }
        }
    }
    C16Alphabet { ids, n_gate_ids, queries }
}

/// Text of definition number `k` of a history: the body is a unique marker.
pub fn c16_def_text(header: &str, k: usize) -> String {
    format!("{header}:\n    PRAGMA c{k}")
}

/// A history of 3..=6 definitions derived from one query so that most of them match it (and
/// identical signatures are re-defined now and then).  Returns the headers.
pub fn c16_history_for(rng: &mut Rng, query: &str) -> Vec<String> {
    let n = 3 + rng.below(4);
    let mut out: Vec<String> = Vec::with_capacity(n);
    for _ in 0..n {
        if !out.is_empty() && rng.chance(1, 8) {
            // explicit redefinition of an earlier signature
            let h = rng.pick(&out).clone();
            out.push(h);
            continue;
        }
        out.push(c16_derive_header(rng, query));
    }
    out
}

fn c16_derive_header(rng: &mut Rng, query: &str) -> String {
    if let Some(rest) = query.strip_prefix("MEASURE") {
        // MEASURE[!mid] q [ro[1]]
        let mut toks = rest.split_whitespace();
        let first = toks.next().unwrap_or("0");
        let (name, qubit) = if rest.starts_with('!') { (first.to_string(), toks.next().unwrap_or("0")) } else { (String::new(), first) };
        let has_target = toks.next().is_some();
        let name = if rng.chance(1, 10) { if name.is_empty() { "!mid".to_string() } else { String::new() } } else { name };
        let q = match rng.below(10) {
            0..=3 => qubit.to_string(),
            4..=7 => "q".to_string(),
            _ => rng.pick(&["0", "1"]).to_string(),
        };
        let q = if q == "v" { "q".to_string() } else { q };
        let target = if has_target != rng.chance(1, 10) { *rng.pick(&[" addr", " dest"]) } else { "" };
        return format!("DEFCAL MEASURE{name} {q}{target}");
    }
    // [CONTROLLED ]NAME[(p)] q [q]
    // split off the leading modifier words
    let mut rest = query;
    let mut mod_words: Vec<&str> = Vec::new();
    loop {
        let mut stripped = false;
        for m in ["CONTROLLED ", "DAGGER ", "FORKED "] {
            if let Some(r) = rest.strip_prefix(m) {
                mod_words.push(m);
                rest = r;
                stripped = true;
                break;
            }
        }
        if !stripped {
            break;
        }
    }
    // occasionally perturb the modifier list: toggle CONTROLLED, drop one, or reverse the order
    if rng.chance(1, 10) {
        match rng.below(3) {
            0 => {
                if mod_words.is_empty() {
                    mod_words.push("CONTROLLED ");
                } else {
                    mod_words.clear();
                }
            }
            1 if !mod_words.is_empty() => {
                let k = rng.below(mod_words.len());
                mod_words.remove(k);
            }
            _ => mod_words.reverse(),
        }
    }
    let mods: String = mod_words.concat();
    let mods = mods.as_str();
    let mut toks = rest.split_whitespace();
    let head = toks.next().unwrap_or("X");
    let qubits: Vec<&str> = toks.collect();
    let head = if let Some(open) = head.find('(') {
        let name = &head[..open];
        let p = &head[open + 1..head.len() - 1];
        if p.contains(',') {
            // several parameters: generalise / keep / change each one independently
            let parts: Vec<String> = p
                .split(',')
                .enumerate()
                .map(|(k, part)| match rng.below(10) {
                    0..=3 => format!("%{}", ["a", "b", "c"][k.min(2)]),
                    4..=7 => {
                        if part.starts_with('%') {
                            format!("%{}", ["a", "b", "c"][k.min(2)])
                        } else {
                            part.to_string()
                        }
                    }
                    _ => rng.pick(&["0.25", "0.5"]).to_string(),
                })
                .collect();
            let name = &head[..open];
            let hq: Vec<String> = qubits
                .iter()
                .map(|q| if rng.chance(1, 2) || !q.chars().all(|c| c.is_ascii_digit()) { "q".to_string() } else { q.to_string() })
                .collect();
            return format!("DEFCAL {mods}{name}({}) {}", parts.join(","), hq.join(" "));
        }
        let np = match rng.below(10) {
            0..=3 => "%t".to_string(),
            4..=5 => p.to_string(),
            6..=7 => match p {
                "pi/2" => "1.5707963267948966".to_string(),
                "1.5707963267948966" => "pi/2".to_string(),
                other => other.to_string(),
            },
            _ => rng.pick(C16_PARAMS).to_string(),
        };
        let np = if np == "%x" || np == "0.5" { "%t".to_string() } else { np };
        format!("{name}({np})")
    } else {
        head.to_string()
    };
    let mut qs = Vec::new();
    for (k, q) in qubits.iter().enumerate() {
        let var = if k == 0 { "q" } else { "r" };
        let c = match rng.below(10) {
            0..=3 => q.to_string(),
            4..=8 => var.to_string(),
            _ => rng.pick(&["0", "1"]).to_string(),
        };
        qs.push(if c == "v" || c == "w" { var.to_string() } else { c });
    }
    if rng.chance(1, 20) {
        // arity change
        if qs.len() == 2 {
            qs.pop();
        } else {
            qs.push("r".to_string());
        }
    }
    format!("DEFCAL {mods}{head} {}", qs.join(" "))
}

// ---------------------------------------------------------------------------------------------
// C17–C19: programs with calibration bodies

#[derive(Clone, Debug)]
pub struct Cfg {
    /// Calibration bodies may only invoke gates of a strictly higher level (no recursion possible).
    pub acyclic: bool,
    /// Chance (percent) that a body slot is a DECLARE.
    pub declare_pct: u32,
    /// Keep to the features for which one expansion step is a faithful substitution on the
    /// current tree (used by C19 so that most programs align with the model): MEASURE / RESET /
    /// SWAP-PHASES only on fixed qubits inside gate calibrations; measurement calibrations with a
    /// variable qubit do not use it; CAPTURE only into the target name, RAW-CAPTURE elsewhere.
    pub plain_substitution_only: bool,
    pub max_cals: usize,
    pub max_body: usize,
    pub max_top: usize,
}

impl Cfg {
    pub fn c17() -> Self {
        Cfg { acyclic: true, declare_pct: 8, plain_substitution_only: false, max_cals: 5, max_body: 4, max_top: 4 }
    }
}

struct GSpec {
    mods: &'static str,
    name: &'static str,
    nparams: usize,
    nqubits: usize,
    level: usize,
}

const GSPECS: &[GSpec] = &[
    GSpec { mods: "", name: "X", nparams: 0, nqubits: 1, level: 0 },
    GSpec { mods: "", name: "RX", nparams: 1, nqubits: 1, level: 1 },
    GSpec { mods: "", name: "CZ", nparams: 0, nqubits: 2, level: 2 },
    GSpec { mods: "CONTROLLED ", name: "X", nparams: 0, nqubits: 2, level: 3 },
    GSpec { mods: "", name: "Y", nparams: 0, nqubits: 1, level: 5 },
    GSpec { mods: "", name: "RZ", nparams: 1, nqubits: 1, level: 6 },
    // two parameters: at most one of them is generalised to the variable %t when a calibration is
    // derived, so a constant can come before (or after) the variable in the DEFCAL header
    GSpec { mods: "", name: "U2", nparams: 2, nqubits: 1, level: 7 },
    // further modifier stacks (a calibration matches only a gate with the same ordered modifiers)
    GSpec { mods: "DAGGER ", name: "Y", nparams: 0, nqubits: 1, level: 8 },
    GSpec { mods: "DAGGER CONTROLLED ", name: "RZ", nparams: 1, nqubits: 2, level: 9 },
];
const MEASURE_LEVEL: usize = 4;

const CONST_PARAMS: &[&str] = &["pi", "pi/2", "1.5707963267948966", "0.5", "0", "1"];
/// Parameter expressions of calibration bodies; `{t}` is the calibration's parameter variable.
pub const T_EXPRS: &[&str] = &["{t}", "{t}+1", "2*{t}", "-{t}", "{t}*1", "{t}/2", "sin({t})", "{t}", "{t}"];

/// A concrete (fully substituted) invocation that some calibration may be derived from.
#[derive(Clone, Debug)]
enum Inv {
    Gate { spec: usize, params: Vec<String>, qubits: Vec<String> },
    Measure { name: &'static str, qubit: String, target: Option<String> },
}

impl Inv {
    fn level(&self) -> usize {
        match self {
            Inv::Gate { spec, .. } => GSPECS[*spec].level,
            Inv::Measure { .. } => MEASURE_LEVEL,
        }
    }
}

fn gate_text(spec: usize, params: &[String], qubits: &[String]) -> String {
    let s = &GSPECS[spec];
    let p = if params.is_empty() { String::new() } else { format!("({})", params.join(", ")) };
    format!("{}{}{} {}", s.mods, s.name, p, qubits.join(" "))
}

fn measure_text(name: &str, qubit: &str, target: &Option<String>) -> String {
    match target {
        Some(t) => format!("MEASURE{name} {qubit} {t}"),
        None => format!("MEASURE{name} {qubit}"),
    }
}

fn atomic(s: &str) -> bool {
    s.chars().all(|c| c.is_ascii_alphanumeric() || c == '.' || c == '%' || c == '[' || c == ']')
}

fn paren(s: &str) -> String {
    if atomic(s) {
        s.to_string()
    } else {
        format!("({s})")
    }
}

/// Variable environment of the calibration whose body is being generated.
struct Env {
    /// (symbol used in the body, concrete qubit it stands for)
    qsyms: Vec<(String, String)>,
    /// concrete text bound to `%t`
    tparam: Option<String>,
    /// (target name, concrete target) of a measurement calibration
    target: Option<(String, Option<String>)>,
    level: usize,
    is_measure: bool,
    /// the measurement calibration's qubit is a variable
    measure_qubit_is_var: bool,
}

pub struct GenProgram {
    /// Program text pieces in order (declarations, definitions, body instructions).
    pub parts: Vec<String>,
    pub n_defs: usize,
    pub n_body: usize,
}

impl GenProgram {
    pub fn text(&self) -> String {
        let mut s = self.parts.join("\n");
        s.push('\n');
        s
    }
}

pub struct CalibGen<'a> {
    pub rng: &'a mut Rng,
    pub cfg: Cfg,
    decl_counter: usize,
}

impl<'a> CalibGen<'a> {
    pub fn new(rng: &'a mut Rng, cfg: Cfg) -> Self {
        CalibGen { rng, cfg, decl_counter: 0 }
    }

    fn fixed_qubit(&mut self) -> String {
        self.rng.pick(&["0", "1", "2"]).to_string()
    }

    fn top_invocation(&mut self) -> Inv {
        if self.rng.chance(3, 10) {
            let name = if self.rng.chance(1, 5) { "!mid" } else { "" };
            let target = if self.rng.chance(3, 4) { Some(format!("ro[{}]", self.rng.below(3))) } else { None };
            let qubit = if self.rng.chance(1, 20) { "v".to_string() } else { self.fixed_qubit() };
            Inv::Measure { name, qubit, target }
        } else {
            let spec = self.rng.below(GSPECS.len());
            let s = &GSPECS[spec];
            let params = (0..s.nparams).map(|_| self.rng.pick(CONST_PARAMS).to_string()).collect();
            let mut qubits: Vec<String> = Vec::new();
            for _ in 0..s.nqubits {
                let q = if self.rng.chance(1, 25) { "v".to_string() } else { self.fixed_qubit() };
                qubits.push(q);
            }
            Inv::Gate { spec, params, qubits }
        }
    }

    fn inv_text(inv: &Inv) -> String {
        match inv {
            Inv::Gate { spec, params, qubits } => gate_text(*spec, params, qubits),
            Inv::Measure { name, qubit, target } => measure_text(name, qubit, target),
        }
    }

    fn filler(&mut self) -> String {
        let q = self.fixed_qubit();
        match self.rng.below(6) {
            0 => "NOP".to_string(),
            1 => format!("PULSE {q} \"rf\" gaussian(duration: 1.0, fwhm: 2.0, t0: 3.0)"),
            2 => format!("FENCE {q}"),
            3 => format!("DELAY {q} 1.0"),
            4 => format!("H {q}"),
            _ => format!("SHIFT-PHASE {q} \"rf\" 0.25"),
        }
    }

    /// (symbol, concrete) of a qubit slot in a calibration body.
    fn pick_qubit(&mut self, env: &Env, must_be_fixed: bool) -> (String, String) {
        if !must_be_fixed && !env.qsyms.is_empty() && self.rng.chance(7, 10) {
            let k = self.rng.below(env.qsyms.len());
            return env.qsyms[k].clone();
        }
        if !must_be_fixed && self.rng.chance(1, 20) {
            return ("u".to_string(), "u".to_string());
        }
        let q = self.fixed_qubit();
        (q.clone(), q)
    }

    /// (symbolic text, concrete text) of a parameter slot in a calibration body.
    fn pick_param(&mut self, env: &Env) -> (String, String) {
        if let Some(c) = &env.tparam {
            if self.rng.chance(13, 20) {
                let t = *self.rng.pick(T_EXPRS);
                return (t.replace("{t}", "%t"), t.replace("{t}", &paren(c)));
            }
        }
        if self.rng.chance(1, 25) {
            return ("%s".to_string(), "%s".to_string());
        }
        let c = self.rng.pick(CONST_PARAMS).to_string();
        (c.clone(), c)
    }

    /// One instruction of a calibration body: its text and, if it is a gate or measurement, the
    /// concrete invocation it will become when the calibration is applied to its seed.
    fn body_instr(&mut self, env: &Env) -> (String, Option<Inv>) {
        let plain = self.cfg.plain_substitution_only;
        if self.rng.below(100) < self.cfg.declare_pct as usize {
            let name = if self.rng.chance(1, 6) {
                "m0".to_string()
            } else {
                self.decl_counter += 1;
                format!("m{}", self.decl_counter)
            };
            let ty = *self.rng.pick(&["BIT[1]", "REAL[2]", "INTEGER"]);
            return (format!("DECLARE {name} {ty}"), None);
        }
        // measurement calibrations with a variable qubit: in "plain" mode do not use the variable
        let fixed_only = plain && env.is_measure && env.measure_qubit_is_var;
        let roll = self.rng.below(100);
        match roll {
            // nested gate
            0..=27 => {
                let candidates: Vec<usize> = (0..GSPECS.len())
                    .filter(|&k| !self.cfg.acyclic || GSPECS[k].level > env.level)
                    .collect();
                if candidates.is_empty() {
                    return ("NOP".to_string(), None);
                }
                let spec = *self.rng.pick(&candidates);
                let s = &GSPECS[spec];
                let (mut sym_p, mut con_p) = (Vec::new(), Vec::new());
                for _ in 0..s.nparams {
                    let (a, b) = self.pick_param(env);
                    sym_p.push(a);
                    con_p.push(b);
                }
                let (mut sym_q, mut con_q) = (Vec::new(), Vec::new());
                for _ in 0..s.nqubits {
                    let (a, b) = self.pick_qubit(env, fixed_only);
                    sym_q.push(a);
                    con_q.push(b);
                }
                (gate_text(spec, &sym_p, &sym_q), Some(Inv::Gate { spec, params: con_p, qubits: con_q }))
            }
            // nested measurement
            28..=39 => {
                if (self.cfg.acyclic && MEASURE_LEVEL <= env.level) || env.is_measure {
                    return ("NOP".to_string(), None);
                }
                let (sq, cq) = self.pick_qubit(env, plain);
                let name = if self.rng.chance(1, 6) { "!mid" } else { "" };
                let target = if self.rng.chance(3, 4) { Some(format!("ro[{}]", self.rng.below(3))) } else { None };
                (measure_text(name, &sq, &target), Some(Inv::Measure { name, qubit: cq, target }))
            }
            40..=47 => {
                let (q, _) = self.pick_qubit(env, fixed_only);
                let (p, _) = self.pick_param(env);
                let nb = if self.rng.chance(1, 5) { "NONBLOCKING " } else { "" };
                (format!("{nb}PULSE {q} \"rf\" gaussian(duration: 1.0, fwhm: 2.0, t0: {p})"), None)
            }
            48..=57 => {
                // CAPTURE: into the target name, or into another region
                let (q, _) = self.pick_qubit(env, fixed_only);
                let (p, _) = self.pick_param(env);
                let dest = match &env.target {
                    Some((t, _)) if plain || self.rng.chance(1, 2) => format!("{t}[0]"),
                    Some(_) => "other[0]".to_string(),
                    None => format!("ro[{}]", self.rng.below(2)),
                };
                (format!("CAPTURE {q} \"ro_rx\" flat(duration: {p}, iq: 1.0) {dest}"), None)
            }
            58..=63 => {
                let (q, _) = self.pick_qubit(env, fixed_only);
                let (p, _) = self.pick_param(env);
                let dest = match &env.target {
                    Some((t, _)) if !plain && self.rng.chance(1, 2) => t.clone(),
                    Some(_) => "other".to_string(),
                    None => "raw".to_string(),
                };
                (format!("RAW-CAPTURE {q} \"ro_rx\" {} {dest}", paren_expr_start(&p)), None)
            }
            64..=69 => {
                let (q, _) = self.pick_qubit(env, fixed_only);
                let (p, _) = self.pick_param(env);
                (format!("DELAY {q} {}", paren_expr_start(&p)), None)
            }
            70..=76 => {
                let (q, _) = self.pick_qubit(env, fixed_only);
                if self.rng.chance(1, 2) {
                    let (r, _) = self.pick_qubit(env, fixed_only);
                    (format!("FENCE {q} {r}"), None)
                } else {
                    (format!("FENCE {q}"), None)
                }
            }
            77..=84 => {
                let (q, _) = self.pick_qubit(env, fixed_only);
                let (p, _) = self.pick_param(env);
                let kw = *self.rng.pick(&["SHIFT-PHASE", "SET-FREQUENCY", "SET-PHASE", "SET-SCALE", "SHIFT-FREQUENCY"]);
                (format!("{kw} {q} \"rf\" {p}"), None)
            }
            85..=88 => {
                let (q, _) = self.pick_qubit(env, plain || fixed_only);
                let (r, _) = self.pick_qubit(env, plain || fixed_only);
                (format!("SWAP-PHASES {q} \"rf\" {r} \"aux\""), None)
            }
            89..=92 => {
                let (q, _) = self.pick_qubit(env, plain || fixed_only);
                (format!("RESET {q}"), None)
            }
            93..=96 => {
                let data = match &env.target {
                    Some((t, _)) if self.rng.chance(2, 3) => t.clone(),
                    _ => "other".to_string(),
                };
                (format!("PRAGMA LOAD-MEMORY \"{data}\""), None)
            }
            _ => ("NOP".to_string(), None),
        }
    }

    /// Derive a calibration from a concrete invocation.  Returns the definition text and the
    /// concrete nested invocations of its body.
    fn derive_cal(&mut self, inv: &Inv) -> (String, Vec<Inv>) {
        let (header, env) = match inv {
            Inv::Gate { spec, params, qubits } => {
                let s = &GSPECS[*spec];
                let mut qsyms = Vec::new();
                let mut hq = Vec::new();
                for (k, cq) in qubits.iter().enumerate() {
                    let var = if k == 0 { "q" } else { "r" };
                    let is_num = cq.chars().all(|c| c.is_ascii_digit());
                    let roll = self.rng.below(20);
                    if is_num && roll < 9 {
                        hq.push(cq.clone());
                    } else if is_num && roll >= 18 {
                        hq.push(self.fixed_qubit());
                    } else {
                        hq.push(if self.rng.chance(1, 2) { format!("%{var}") } else { var.to_string() });
                        qsyms.push((var.to_string(), cq.clone()));
                    }
                }
                let mut hp = Vec::new();
                let mut tparam = None;
                // with several parameters only one may become the variable %t (which one is random)
                let only_variable_slot = if params.len() > 1 { Some(self.rng.below(params.len() + 1)) } else { None };
                for (slot, cp) in params.iter().enumerate() {
                    let mut roll = self.rng.below(20);
                    // an open compound expression (mentions an unbound variable) is only ever
                    // generalised: "equal to a non-variable parameter" is not well defined for it
                    let open_compound = cp.contains('%') && !atomic(cp);
                    if let Some(v) = only_variable_slot {
                        if v == slot {
                            roll = 0;
                        } else if roll < 10 {
                            roll = 12;
                        }
                        if open_compound && v != slot {
                            // cannot stay a constant: make the header not match instead
                            hp.push(self.rng.pick(CONST_PARAMS).to_string());
                            continue;
                        }
                    }
                    if roll < 10 || open_compound {
                        hp.push("%t".to_string());
                        tparam = Some(cp.clone());
                    } else if roll < 17 {
                        hp.push(match cp.as_str() {
                            "pi/2" if self.rng.chance(1, 2) => "1.5707963267948966".to_string(),
                            "1.5707963267948966" if self.rng.chance(1, 2) => "pi/2".to_string(),
                            other => other.to_string(),
                        });
                    } else {
                        hp.push(self.rng.pick(CONST_PARAMS).to_string());
                    }
                }
                let p = if hp.is_empty() { String::new() } else { format!("({})", hp.join(", ")) };
                (
                    format!("DEFCAL {}{}{} {}", s.mods, s.name, p, hq.join(" ")),
                    Env { qsyms, tparam, target: None, level: s.level, is_measure: false, measure_qubit_is_var: false },
                )
            }
            Inv::Measure { name, qubit, target } => {
                let is_num = qubit.chars().all(|c| c.is_ascii_digit());
                let roll = self.rng.below(20);
                let mut qsyms = Vec::new();
                let (hq, is_var) = if is_num && roll < 8 {
                    (qubit.clone(), false)
                } else if is_num && roll >= 18 {
                    (self.fixed_qubit(), false)
                } else {
                    qsyms.push(("q".to_string(), qubit.clone()));
                    ("q".to_string(), true)
                };
                let tname = if target.is_some() != self.rng.chance(1, 15) { Some(if self.rng.chance(3, 4) { "addr" } else { "dest" }) } else { None };
                let name = if self.rng.chance(1, 15) { if name.is_empty() { "!mid" } else { "" } } else { name };
                let t = tname.map(|t| format!(" {t}")).unwrap_or_default();
                (
                    format!("DEFCAL MEASURE{name} {hq}{t}"),
                    Env {
                        qsyms,
                        tparam: None,
                        target: tname.map(|t| (t.to_string(), target.clone())),
                        level: MEASURE_LEVEL,
                        is_measure: true,
                        measure_qubit_is_var: is_var,
                    },
                )
            }
        };
        let n = 1 + self.rng.below(self.cfg.max_body);
        let mut text = format!("{header}:");
        let mut nested = Vec::new();
        for _ in 0..n {
            let (line, inv) = self.body_instr(&env);
            text.push_str("\n    ");
            text.push_str(&line);
            if let Some(i) = inv {
                nested.push(i);
            }
        }
        (text, nested)
    }

    /// A whole program: declarations, 1..=max_cals calibrations derived from the invocations that
    /// exist so far (top-level first, then nested ones), 1..=max_top body instructions.
    pub fn program(&mut self) -> GenProgram {
        self.decl_counter = 0;
        let mut parts = vec!["DECLARE ro BIT[4]".to_string(), "DECLARE other BIT[2]".to_string()];
        let n_top = 1 + self.rng.below(self.cfg.max_top);
        let mut body = Vec::new();
        let mut pool: Vec<Inv> = Vec::new();
        for _ in 0..n_top {
            if self.rng.chance(1, 5) {
                body.push(self.filler());
            } else {
                let inv = if !pool.is_empty() && self.rng.chance(1, 6) { self.rng.pick(&pool).clone() } else { self.top_invocation() };
                body.push(Self::inv_text(&inv));
                pool.push(inv);
            }
        }
        if pool.is_empty() {
            let inv = self.top_invocation();
            body.push(Self::inv_text(&inv));
            pool.push(inv);
        }
        let n_cals = 1 + self.rng.below(self.cfg.max_cals);
        let mut defs: Vec<String> = Vec::new();
        for _ in 0..n_cals {
            let inv = if self.rng.chance(1, 2) { pool[pool.len() - 1].clone() } else { self.rng.pick(&pool).clone() };
            // in acyclic mode nothing above the top level may be derived for the top level names
            let _ = inv.level();
            let (def, nested) = self.derive_cal(&inv);
            // redefinition of the same signature with another body, now and then
            if self.rng.chance(1, 12) {
                let header = def.split(':').next().unwrap_or("").to_string();
                defs.push(format!("{header}:\n    NOP\n    PRAGMA replaced"));
            }
            let at = self.rng.below(defs.len() + 1);
            defs.insert(at, def);
            pool.extend(nested);
        }
        let n_defs = defs.len();
        let n_body = body.len();
        // a fifth of the definitions come after the body
        let mut late = Vec::new();
        for d in defs {
            if self.rng.chance(1, 5) {
                late.push(d);
            } else {
                parts.push(d);
            }
        }
        parts.extend(body);
        parts.extend(late);
        GenProgram { parts, n_defs, n_body }
    }
}

/// DELAY / RAW-CAPTURE durations must not start with a token the parser takes for a qubit.
fn paren_expr_start(p: &str) -> String {
    let first = p.chars().next().unwrap_or('0');
    let is_float = p.contains('.') && atomic(p) && first.is_ascii_digit();
    if is_float {
        p.to_string()
    } else {
        format!("({p})")
    }
}

// ---------------------------------------------------------------------------------------------
// C18: recursive shapes

/// Parameter transforms of a re-invocation.
pub const C18_TRANSFORMS: &[&str] = &["%t", "%t+1", "2*%t", "-%t", "%t*1", "0.5"];

#[derive(Clone, Debug)]
pub struct C18Cal {
    /// None: leaf-only body; Some(j): the body re-invokes calibration name j
    pub target: Option<usize>,
    pub transform: usize,
    pub swapped: bool,
}

pub const C18_NAMES: &[&str] = &["GA", "GB", "GC"];

/// Text of a recursive-shape program: calibrations `GA/GB/GC(%t) q r` (or fixed `0 1`), each with
/// a leaf and at most one re-invocation, and a body of one or two invocations.
pub fn c18_shape_text(cals: &[C18Cal], fixed_qubits: bool, second_top: bool) -> String {
    let mut s = String::new();
    for (i, c) in cals.iter().enumerate() {
        let (a, b) = if fixed_qubits { ("0", "1") } else { ("q", "r") };
        s.push_str(&format!("DEFCAL {}(%t) {a} {b}:\n    NOP\n", C18_NAMES[i]));
        if let Some(j) = c.target {
            let (x, y) = if c.swapped { (b, a) } else { (a, b) };
            s.push_str(&format!("    {}({}) {x} {y}\n", C18_NAMES[j], C18_TRANSFORMS[c.transform]));
        }
        s.push_str("    FENCE 0\n");
    }
    s.push_str("GA(1) 0 1\n");
    if second_top {
        s.push_str(&format!("{}(pi) 0 1\n", C18_NAMES[cals.len() - 1]));
    }
    s
}
