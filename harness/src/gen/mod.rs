pub mod text;
pub mod numeric_gates;
pub mod numeric_waveforms;
