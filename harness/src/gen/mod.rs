pub mod text;
