pub mod text;
pub mod numeric_gates;
pub mod numeric_waveforms;
pub mod analysis_ast;
pub mod analysis_extern;
pub mod analysis_instr;
pub mod seq_gen;
pub mod sched_prog;
