//! Case descriptions for C32: one built-in waveform with all its parameters, the sample rate and
//! the number of samples the duration was constructed from, plus constructors of the quil-rs
//! parameter structs (concrete and partial).  Only public struct literals are used here; nothing
//! is sampled in this file.

use crate::core::Rng;
use num_complex::Complex64;
use quil_rs::units::Cycles;
use quil_rs::waveform::builtin::{
    BoxcarKernel, BuiltinWaveform, CommonBuiltinParameters, DragGaussian, ErfSquare, Flat,
    Gaussian, HermiteGaussian, RaisedCosine,
};
use quil_rs::waveform::{Concrete, Partial};
use serde_json::{json, Value};

#[derive(Clone, Copy, Debug, PartialEq, Eq, Hash)]
pub enum Kind {
    Flat,
    Gaussian,
    DragGaussian,
    ErfSquare,
    HermiteGaussian,
    RaisedCosine,
    BoxcarKernel,
}

pub const ALL_KINDS: &[Kind] = &[
    Kind::Flat,
    Kind::Gaussian,
    Kind::DragGaussian,
    Kind::ErfSquare,
    Kind::HermiteGaussian,
    Kind::RaisedCosine,
    Kind::BoxcarKernel,
];

impl Kind {
    pub fn name(self) -> &'static str {
        match self {
            Kind::Flat => "flat",
            Kind::Gaussian => "gaussian",
            Kind::DragGaussian => "drag_gaussian",
            Kind::ErfSquare => "erf_square",
            Kind::HermiteGaussian => "hermite_gaussian",
            Kind::RaisedCosine => "raised_cosine",
            Kind::BoxcarKernel => "boxcar_kernel",
        }
    }
    /// Names of the kind's own parameters that may be unknown in a partial waveform
    /// (pad_left / pad_right and the duration are always concrete).
    pub fn partial_fields(self) -> &'static [&'static str] {
        match self {
            Kind::Flat => &["iq"],
            Kind::Gaussian => &["fwhm", "t0"],
            Kind::DragGaussian => &["fwhm", "t0", "anh", "alpha"],
            Kind::ErfSquare => &["risetime"],
            Kind::HermiteGaussian => &["fwhm", "t0", "anh", "alpha", "second_order_hrm_coeff"],
            Kind::RaisedCosine => &["rolloff"],
            Kind::BoxcarKernel => &[],
        }
    }
    pub fn padded(self) -> bool {
        matches!(self, Kind::ErfSquare | Kind::RaisedCosine)
    }
}

/// How the duration was constructed.
#[derive(Clone, Copy, Debug, PartialEq)]
pub enum Alignment {
    /// `k / rate`
    Exact,
    /// `(k + d) / rate` with |d| a fifth of the smallest documented tolerance: still aligned
    Near(f64),
    /// `(k + f) / rate`, f in {0.25, 0.5, 0.75}: misaligned, must be the documented error
    Off(f64),
}

/// The three optional common parameters of one call.
#[derive(Clone, Copy, Debug, PartialEq)]
pub struct Common {
    pub scale: Option<f64>,
    pub phase: Option<f64>,
    pub detuning: Option<f64>,
}

/// State of an optional common parameter in a partial call.
#[derive(Clone, Copy, Debug, PartialEq, Eq)]
pub enum Slot {
    /// not given at all (the default applies)
    Absent,
    /// given and known
    Known,
    /// given but not known yet
    Unknown,
}

#[derive(Clone, Debug)]
pub struct WfCase {
    pub kind: Kind,
    pub rate: f64,
    /// number of samples of the active part the duration was built from
    pub k: u32,
    pub alignment: Alignment,
    pub duration: f64,
    // kind-specific parameters (unused ones are 0)
    pub iq: Complex64,
    pub fwhm: f64,
    pub t0: f64,
    pub anh: f64,
    pub alpha: f64,
    pub hrm: f64,
    pub risetime: f64,
    pub rolloff: f64,
    pub pad_left: f64,
    pub pad_right: f64,
    /// acceptable padding sample counts [lo, hi] per side (lo == hi unless `pad * rate` is so close
    /// to an integer that "rounded up" depends on floating-point rounding of the product)
    pub pad_left_samples: (usize, usize),
    pub pad_right_samples: (usize, usize),
    // values for the metamorphic relations
    pub scale: f64,
    pub phase: f64,
    pub detuning: f64,
}

/// Acceptable values of "padding rounded up to whole samples".
fn pad_samples(pad: f64, rate: f64) -> (usize, usize) {
    let x = pad * rate;
    let nearest = x.round();
    if (x - nearest).abs() < 1e-6 * nearest.max(1.0) {
        // (numerically) an integer number of samples: an exact computation says `nearest`, a
        // floating-point product that lands a hair above says `nearest + 1`
        let n = nearest as usize;
        if x == nearest {
            (n, n)
        } else if x > nearest {
            (n, n + 1)
        } else {
            // a hair below the integer: both readings round up to it
            (n, n)
        }
    } else {
        let c = x.ceil() as usize;
        (c, c)
    }
}

impl WfCase {
    /// Draw the kind-specific and metamorphic parameters for (kind, rate, k, alignment).
    pub fn generate(rng: &mut Rng, kind: Kind, rate: f64, k: u32, alignment: Alignment) -> WfCase {
        let samples = match alignment {
            Alignment::Exact => k as f64,
            Alignment::Near(d) => k as f64 + d,
            Alignment::Off(f) => k as f64 + f,
        };
        let duration = samples / rate;
        let u = |rng: &mut Rng, lo: f64, hi: f64| lo + (hi - lo) * rng.f64();
        let sign = |rng: &mut Rng| if rng.chance(1, 2) { 1.0 } else { -1.0 };
        let pad = |rng: &mut Rng| -> f64 {
            match rng.below(4) {
                0 => 0.0,
                // a whole number of samples
                1 => rng.below(6) as f64 / rate,
                // clearly fractional
                _ => (rng.below(5) as f64 + *rng.pick(&[0.25, 0.5, 0.75])) / rate,
            }
        };
        let (pad_left, pad_right) = if kind.padded() { (pad(rng), pad(rng)) } else { (0.0, 0.0) };
        let rolloff = match rng.below(5) {
            0 => 0.0,
            1 => 1.0,
            _ => u(rng, 0.05, 0.95),
        };
        // keep detuning * duration (total phase advance) below ~8 cycles
        let detuning = match rng.below(3) {
            0 => 0.0,
            _ => sign(rng) * u(rng, 0.01, 8.0) / duration.max(1.0 / rate),
        };
        WfCase {
            kind,
            rate,
            k,
            alignment,
            duration,
            iq: Complex64::new(u(rng, -1.0, 1.0), u(rng, -1.0, 1.0)),
            fwhm: duration * u(rng, 0.05, 1.0),
            t0: duration * u(rng, 0.0, 1.0),
            anh: sign(rng) * u(rng, 1e6, 3e8),
            alpha: u(rng, -2.0, 2.0),
            hrm: u(rng, 0.0, 1.0),
            risetime: duration * u(rng, 0.01, 0.5),
            rolloff,
            pad_left,
            pad_right,
            pad_left_samples: pad_samples(pad_left, rate),
            pad_right_samples: pad_samples(pad_right, rate),
            scale: sign(rng) * u(rng, 0.05, 4.0),
            phase: u(rng, -2.0, 2.0),
            detuning,
        }
    }

    pub fn describe(&self) -> Value {
        let mut v = json!({
            "kind": self.kind.name(), "sample_rate": self.rate, "k": self.k,
            "alignment": format!("{:?}", self.alignment), "duration": self.duration,
            "scale": self.scale, "phase_cycles": self.phase, "detuning": self.detuning,
        });
        let o = v.as_object_mut().expect("object");
        match self.kind {
            Kind::Flat => {
                o.insert("iq".into(), json!([self.iq.re, self.iq.im]));
            }
            Kind::Gaussian => {
                o.insert("fwhm".into(), json!(self.fwhm));
                o.insert("t0".into(), json!(self.t0));
            }
            Kind::DragGaussian => {
                o.insert("fwhm".into(), json!(self.fwhm));
                o.insert("t0".into(), json!(self.t0));
                o.insert("anh".into(), json!(self.anh));
                o.insert("alpha".into(), json!(self.alpha));
            }
            Kind::HermiteGaussian => {
                o.insert("fwhm".into(), json!(self.fwhm));
                o.insert("t0".into(), json!(self.t0));
                o.insert("anh".into(), json!(self.anh));
                o.insert("alpha".into(), json!(self.alpha));
                o.insert("second_order_hrm_coeff".into(), json!(self.hrm));
            }
            Kind::ErfSquare => {
                o.insert("risetime".into(), json!(self.risetime));
                o.insert("pad_left".into(), json!(self.pad_left));
                o.insert("pad_right".into(), json!(self.pad_right));
            }
            Kind::RaisedCosine => {
                o.insert("rolloff".into(), json!(self.rolloff));
                o.insert("pad_left".into(), json!(self.pad_left));
                o.insert("pad_right".into(), json!(self.pad_right));
            }
            Kind::BoxcarKernel => {}
        }
        v
    }

    /// Acceptable total sample counts [lo, hi].
    pub fn expected_count(&self) -> (usize, usize) {
        let k = self.k as usize;
        if self.kind.padded() {
            (
                k + self.pad_left_samples.0 + self.pad_right_samples.0,
                k + self.pad_left_samples.1 + self.pad_right_samples.1,
            )
        } else {
            (k, k)
        }
    }

    pub fn concrete_waveform(&self) -> BuiltinWaveform<Concrete> {
        match self.kind {
            Kind::Flat => Flat::<Concrete> { iq: self.iq }.into(),
            Kind::Gaussian => Gaussian::<Concrete> { fwhm: self.fwhm, t0: self.t0 }.into(),
            Kind::DragGaussian => DragGaussian::<Concrete> {
                fwhm: self.fwhm,
                t0: self.t0,
                anh: self.anh,
                alpha: self.alpha,
            }
            .into(),
            Kind::ErfSquare => ErfSquare::<Concrete> {
                risetime: self.risetime,
                pad_left: self.pad_left,
                pad_right: self.pad_right,
            }
            .into(),
            Kind::HermiteGaussian => HermiteGaussian::<Concrete> {
                fwhm: self.fwhm,
                t0: self.t0,
                anh: self.anh,
                alpha: self.alpha,
                second_order_hrm_coeff: self.hrm,
            }
            .into(),
            Kind::RaisedCosine => RaisedCosine::<Concrete> {
                rolloff: self.rolloff,
                pad_left: self.pad_left,
                pad_right: self.pad_right,
            }
            .into(),
            Kind::BoxcarKernel => BoxcarKernel.into(),
        }
    }

    /// Partial waveform; bit `i` of `missing` set = the i-th entry of `kind.partial_fields()` is
    /// unknown.
    pub fn partial_waveform(&self, missing: u32) -> BuiltinWaveform<Partial<Concrete>> {
        let r = |i: u32, v: f64| if missing >> i & 1 == 1 { None } else { Some(v) };
        match self.kind {
            Kind::Flat => Flat::<Partial<Concrete>> {
                iq: if missing & 1 == 1 { None } else { Some(self.iq) },
            }
            .into(),
            Kind::Gaussian => {
                Gaussian::<Partial<Concrete>> { fwhm: r(0, self.fwhm), t0: r(1, self.t0) }.into()
            }
            Kind::DragGaussian => DragGaussian::<Partial<Concrete>> {
                fwhm: r(0, self.fwhm),
                t0: r(1, self.t0),
                anh: r(2, self.anh),
                alpha: r(3, self.alpha),
            }
            .into(),
            Kind::ErfSquare => ErfSquare::<Partial<Concrete>> {
                risetime: r(0, self.risetime),
                pad_left: self.pad_left,
                pad_right: self.pad_right,
            }
            .into(),
            Kind::HermiteGaussian => HermiteGaussian::<Partial<Concrete>> {
                fwhm: r(0, self.fwhm),
                t0: r(1, self.t0),
                anh: r(2, self.anh),
                alpha: r(3, self.alpha),
                second_order_hrm_coeff: r(4, self.hrm),
            }
            .into(),
            Kind::RaisedCosine => RaisedCosine::<Partial<Concrete>> {
                rolloff: r(0, self.rolloff),
                pad_left: self.pad_left,
                pad_right: self.pad_right,
            }
            .into(),
            Kind::BoxcarKernel => BoxcarKernel.into(),
        }
    }

    pub fn concrete_common(&self, c: Common) -> CommonBuiltinParameters<Concrete> {
        CommonBuiltinParameters {
            duration: self.duration,
            scale: c.scale,
            phase: c.phase.map(Cycles),
            detuning: c.detuning,
        }
    }

    /// Partial common parameters: each slot is absent, known (value from `c`) or unknown.
    pub fn partial_common(
        &self,
        c: Common,
        slots: [Slot; 3],
    ) -> CommonBuiltinParameters<Partial<Concrete>> {
        let f = |slot: Slot, v: Option<f64>| -> Option<Option<f64>> {
            match slot {
                Slot::Absent => None,
                // (a slot can only be "known" when the caller supplies its value)
                Slot::Known => v.map(Some),
                Slot::Unknown => Some(None),
            }
        };
        CommonBuiltinParameters {
            duration: self.duration,
            scale: f(slots[0], c.scale),
            phase: f(slots[1], c.phase).map(Cycles),
            detuning: f(slots[2], c.detuning),
        }
    }
}
