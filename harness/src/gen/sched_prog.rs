//! `sched` group — generator of small RF-control / classical / control-flow programs shared by the
//! scheduling monitors (C22, C23, C24, C25, C35).
//!
//! Everything is described by *specs* written here (text + what the generator knows about the
//! instruction: its documented duration, what it expands to); the specs are rendered to Quil text
//! and parsed **once** per shard into `Instruction` values (`Pool::new`), after which programs are
//! assembled with `Program::add_instruction` from clones.  The generator never asks quil-rs what
//! is *expected*; it only uses it to build AST values.
//!
//! Frames live on qubits {0,1,2} with names {a,b}.  All durations and sample rates are dyadic
//! rationals with small exponents ({0, 0.5, 1, 1.5, 2.5, ...}) so that every sum / maximum the
//! scheduler computes is exact in `f64` and schedules can be compared with `==`.

use crate::core::{guarded, Rng};
use quil_rs::instruction::Instruction;
use quil_rs::Program;
use std::collections::BTreeMap;
use std::str::FromStr;

// ---------------------------------------------------------------------------------------------
// Frames

/// A frame of the generator's universe.
#[derive(Clone, Debug, PartialEq, Eq, Hash, PartialOrd, Ord)]
pub struct FrameKey {
    pub qubits: Vec<u64>,
    pub name: &'static str,
}

impl FrameKey {
    pub fn new(qubits: &[u64], name: &'static str) -> Self {
        FrameKey {
            qubits: qubits.to_vec(),
            name,
        }
    }
    /// `0 1 "a"`
    pub fn text(&self) -> String {
        let q: Vec<String> = self.qubits.iter().map(|q| q.to_string()).collect();
        format!("{} \"{}\"", q.join(" "), self.name)
    }
}

/// The `SAMPLE-RATE` attribute given to a frame definition.
#[derive(Clone, Copy, Debug, PartialEq)]
pub enum Rate {
    /// `SAMPLE-RATE: <number>`
    Num(f64),
    /// no `SAMPLE-RATE` attribute at all
    Absent,
    /// `SAMPLE-RATE: "fast"` (a string: not a usable rate)
    Str,
}

#[derive(Clone, Debug)]
pub struct FrameDef {
    pub key: FrameKey,
    pub rate: Rate,
    pub text: String,
    pub instr: Instruction,
}

/// The eight candidate frames of the graph/schedule workloads.
pub fn candidate_frames() -> Vec<FrameKey> {
    vec![
        FrameKey::new(&[0], "a"),
        FrameKey::new(&[0], "b"),
        FrameKey::new(&[1], "a"),
        FrameKey::new(&[1], "b"),
        FrameKey::new(&[2], "a"),
        FrameKey::new(&[0, 1], "a"),
        FrameKey::new(&[1, 2], "a"),
        FrameKey::new(&[0, 1], "b"),
    ]
}

// ---------------------------------------------------------------------------------------------
// Instruction specs

/// What the generator knows about how long an instruction lasts ("documented duration", see the
/// doc comments of `instruction_duration_seconds` / `waveform_duration_seconds`).
#[derive(Clone, Debug, PartialEq)]
pub enum DurModel {
    /// DELAY / RAW-CAPTURE literal duration; template waveform `duration + pad_left + pad_right`;
    /// 0 for FENCE, SET-*, SHIFT-*, SWAP-PHASES.
    Fixed(f64),
    /// PULSE / CAPTURE of a waveform that may be defined by DEFWAVEFORM with `samples` samples,
    /// played on `frame`: samples / SAMPLE-RATE(frame) when both are defined (numeric rate).
    Custom {
        waveform: &'static str,
        samples: usize,
        frame: FrameKey,
    },
    /// No documented duration (RESET, classical instructions, gates, a DELAY whose duration is not
    /// a literal, a template waveform without a literal `duration`).
    Unknown,
}

#[derive(Clone, Copy, Debug, PartialEq, Eq, Hash, PartialOrd, Ord)]
pub enum Kind {
    Pulse,
    Capture,
    RawCapture,
    Delay,
    Fence,
    FrameUpdate,
    SwapPhases,
    Reset,
    Classical,
    Call,
    Gate,
    Measure,
    Label,
    Jump,
    CondJump,
    Halt,
    Wait,
}

impl Kind {
    pub fn name(self) -> &'static str {
        match self {
            Kind::Pulse => "PULSE",
            Kind::Capture => "CAPTURE",
            Kind::RawCapture => "RAW-CAPTURE",
            Kind::Delay => "DELAY",
            Kind::Fence => "FENCE",
            Kind::FrameUpdate => "SET/SHIFT",
            Kind::SwapPhases => "SWAP-PHASES",
            Kind::Reset => "RESET",
            Kind::Classical => "classical",
            Kind::Call => "CALL",
            Kind::Gate => "gate",
            Kind::Measure => "MEASURE",
            Kind::Label => "LABEL",
            Kind::Jump => "JUMP",
            Kind::CondJump => "JUMP-WHEN/UNLESS",
            Kind::Halt => "HALT",
            Kind::Wait => "WAIT",
        }
    }
    pub fn is_rf(self) -> bool {
        matches!(
            self,
            Kind::Pulse
                | Kind::Capture
                | Kind::RawCapture
                | Kind::Delay
                | Kind::Fence
                | Kind::FrameUpdate
                | Kind::SwapPhases
                | Kind::Reset
        )
    }
    pub fn is_control(self) -> bool {
        matches!(
            self,
            Kind::Label | Kind::Jump | Kind::CondJump | Kind::Halt | Kind::Wait
        )
    }
}

/// One body instruction of the pool.
#[derive(Clone, Debug)]
pub struct Item {
    pub text: String,
    pub instr: Instruction,
    pub dur: DurModel,
    pub kind: Kind,
    /// Waveform name invoked (PULSE / CAPTURE only).
    pub waveform: Option<String>,
    /// Extern called (CALL only).
    pub callee: Option<&'static str>,
}

#[derive(Clone, Debug)]
struct Spec {
    text: String,
    dur: DurModel,
    kind: Kind,
    waveform: Option<String>,
    callee: Option<&'static str>,
}

fn spec(text: String, dur: DurModel, kind: Kind) -> Spec {
    Spec {
        text,
        dur,
        kind,
        waveform: None,
        callee: None,
    }
}

/// Waveform invocations used by the generator.
#[derive(Clone, Debug)]
pub enum Wf {
    /// `flat(duration: d, iq: 1.0)`
    Flat(f64),
    /// `erf_square(duration: d, pad_left: l, pad_right: r, risetime: 0.25)`
    Erf(f64, f64, f64),
    /// `gaussian(duration: d, pad_left: l, fwhm: 0.5, t0: 0.25)` — a template the spec gives no pads to;
    /// the scheduler documents that it accepts `pad_*` on any built-in template.
    GaussPadLeft(f64, f64),
    /// DEFWAVEFORM-defined waveform with the given sample count
    Custom(&'static str, usize),
    /// `flat(iq: 1.0)` — no duration parameter at all
    NoDuration,
    /// `flat(duration: r[0], iq: 1.0)` — duration read from memory, not a literal
    MemDuration,
}

fn fmt_f(x: f64) -> String {
    // dyadic values print exactly with {:?}
    format!("{x:?}")
}

impl Wf {
    fn text(&self) -> String {
        match self {
            Wf::Flat(d) => format!("flat(duration: {}, iq: 1.0)", fmt_f(*d)),
            Wf::Erf(d, l, r) => format!(
                "erf_square(duration: {}, pad_left: {}, pad_right: {}, risetime: 0.25)",
                fmt_f(*d),
                fmt_f(*l),
                fmt_f(*r)
            ),
            Wf::GaussPadLeft(d, l) => format!(
                "gaussian(duration: {}, fwhm: 0.5, pad_left: {}, t0: 0.25)",
                fmt_f(*d),
                fmt_f(*l)
            ),
            Wf::Custom(name, _) => name.to_string(),
            Wf::NoDuration => "flat(iq: 1.0)".to_string(),
            Wf::MemDuration => "flat(duration: r[0], iq: 1.0)".to_string(),
        }
    }
    fn name(&self) -> String {
        match self {
            Wf::Flat(_) | Wf::NoDuration | Wf::MemDuration => "flat".into(),
            Wf::Erf(..) => "erf_square".into(),
            Wf::GaussPadLeft(..) => "gaussian".into(),
            Wf::Custom(n, _) => n.to_string(),
        }
    }
    fn dur(&self, frame: &FrameKey) -> DurModel {
        match self {
            Wf::Flat(d) => DurModel::Fixed(*d),
            Wf::Erf(d, l, r) => DurModel::Fixed(*d + *l + *r),
            Wf::GaussPadLeft(d, l) => DurModel::Fixed(*d + *l),
            Wf::Custom(name, samples) => DurModel::Custom {
                waveform: name,
                samples: *samples,
                frame: frame.clone(),
            },
            Wf::NoDuration | Wf::MemDuration => DurModel::Unknown,
        }
    }
}

fn nb(blocking: bool) -> &'static str {
    if blocking {
        ""
    } else {
        "NONBLOCKING "
    }
}

fn pulse(blocking: bool, f: &FrameKey, wf: &Wf) -> Spec {
    let mut s = spec(
        format!("{}PULSE {} {}", nb(blocking), f.text(), wf.text()),
        wf.dur(f),
        Kind::Pulse,
    );
    s.waveform = Some(wf.name());
    s
}

fn capture(blocking: bool, f: &FrameKey, wf: &Wf, mem: &str) -> Spec {
    let mut s = spec(
        format!("{}CAPTURE {} {} {}", nb(blocking), f.text(), wf.text(), mem),
        wf.dur(f),
        Kind::Capture,
    );
    s.waveform = Some(wf.name());
    s
}

fn raw_capture(blocking: bool, f: &FrameKey, d: f64, mem: &str) -> Spec {
    spec(
        format!("{}RAW-CAPTURE {} {} {}", nb(blocking), f.text(), fmt_f(d), mem),
        DurModel::Fixed(d),
        Kind::RawCapture,
    )
}

fn delay(qubits: &[u64], names: &[&str], d: f64) -> Spec {
    let q: Vec<String> = qubits.iter().map(|q| q.to_string()).collect();
    let n: Vec<String> = names.iter().map(|n| format!(" \"{n}\"")).collect();
    spec(
        format!("DELAY {}{} {}", q.join(" "), n.concat(), fmt_f(d)),
        DurModel::Fixed(d),
        Kind::Delay,
    )
}

fn fence(qubits: &[u64]) -> Spec {
    let q: Vec<String> = qubits.iter().map(|q| format!(" {q}")).collect();
    spec(format!("FENCE{}", q.concat()), DurModel::Fixed(0.0), Kind::Fence)
}

fn frame_update(op: &str, f: &FrameKey, operand: &str) -> Spec {
    spec(
        format!("{op} {} {operand}", f.text()),
        DurModel::Fixed(0.0),
        Kind::FrameUpdate,
    )
}

fn swap_phases(f1: &FrameKey, f2: &FrameKey) -> Spec {
    spec(
        format!("SWAP-PHASES {} {}", f1.text(), f2.text()),
        DurModel::Fixed(0.0),
        Kind::SwapPhases,
    )
}

fn classical(text: &str) -> Spec {
    spec(text.to_string(), DurModel::Unknown, Kind::Classical)
}

// ---------------------------------------------------------------------------------------------
// Calibrations (deliberately unambiguous: at most one definition per gate name, no parameters,
// either all-fixed qubits or one variable qubit `q`), so the model expansion below is just
// "replace the gate by the body with q substituted" and does not depend on the matching rules
// that C16/C17 own.

#[derive(Clone, Debug)]
pub struct CalSpec {
    pub name: &'static str,
    /// `None` = one variable qubit `q`; `Some(qs)` = exactly these fixed qubits.
    pub fixed_qubits: Option<Vec<u64>>,
    /// Body lines; `{q}` is replaced by the qubit (definition: `q`).  A line that is itself a gate
    /// application is expanded recursively by the model.
    body: Vec<Spec>,
}

#[derive(Clone, Debug)]
pub struct CalDef {
    pub spec: CalSpec,
    pub text: String,
    pub instr: Instruction,
}

#[derive(Clone, Debug)]
pub struct MeasCalDef {
    pub qubit: u64,
    /// body lines, `{addr}` replaced by the measurement target
    body: Vec<Spec>,
    pub text: String,
    pub instr: Instruction,
}

fn cal_specs() -> Vec<CalSpec> {
    let a0 = FrameKey::new(&[0], "a");
    let b0 = FrameKey::new(&[0], "b");
    let a1 = FrameKey::new(&[1], "a");
    let a01 = FrameKey::new(&[0, 1], "a");
    vec![
        // one pulse
        CalSpec {
            name: "CA",
            fixed_qubits: Some(vec![0]),
            body: vec![pulse(true, &a0, &Wf::Flat(1.0))],
        },
        // FENCE-first body on a two-qubit frame (the example in the as_schedule docs)
        CalSpec {
            name: "CB",
            fixed_qubits: Some(vec![0, 1]),
            body: vec![fence(&[1]), pulse(true, &a01, &Wf::Flat(1.0))],
        },
        // four instructions incl. a zero-duration one and a non-blocking pulse
        CalSpec {
            name: "CC",
            fixed_qubits: Some(vec![1]),
            body: vec![
                pulse(false, &a1, &Wf::Flat(0.5)),
                delay(&[1], &[], 0.5),
                frame_update("SHIFT-PHASE", &a1, "1.0"),
                pulse(true, &a1, &Wf::Erf(0.5, 0.5, 1.0)),
            ],
        },
        // nested: expands to CA 0 then a delay
        CalSpec {
            name: "CD",
            fixed_qubits: Some(vec![0]),
            body: vec![
                spec("CA 0".into(), DurModel::Unknown, Kind::Gate),
                delay(&[0], &[], 2.5),
            ],
        },
        // variable qubit; body only uses kinds whose qubits the expander substitutes
        CalSpec {
            name: "CV",
            fixed_qubits: None,
            body: vec![
                spec("FENCE {q}".into(), DurModel::Fixed(0.0), Kind::Fence),
                spec("DELAY {q} 1.0".into(), DurModel::Fixed(1.0), Kind::Delay),
                {
                    let mut s = spec(
                        "NONBLOCKING PULSE {q} \"a\" flat(duration: 0.5, iq: 1.0)".into(),
                        DurModel::Fixed(0.5),
                        Kind::Pulse,
                    );
                    s.waveform = Some("flat".into());
                    s
                },
            ],
        },
        // custom waveform + capture: the only users of `wcal` and of frame 0 "b" in some programs
        CalSpec {
            name: "CW",
            fixed_qubits: Some(vec![0]),
            body: vec![
                pulse(false, &b0, &Wf::Custom("wcal", 2)),
                capture(true, &b0, &Wf::Custom("wcap", 4), "ro[1]"),
            ],
        },
        // classical + CALL inside a calibration body: the only caller of extern `efn2`
        CalSpec {
            name: "CX",
            fixed_qubits: Some(vec![2]),
            body: vec![
                {
                    let mut s = spec(
                        "CALL efn2 octets[1] reals".into(),
                        DurModel::Unknown,
                        Kind::Call,
                    );
                    s.callee = Some("efn2");
                    s
                },
                delay(&[2], &[], 0.5),
            ],
        },
    ]
}

// ---------------------------------------------------------------------------------------------
// The pool

/// Waveform definitions available to headers: (name, sample count).
pub const WAVEFORMS: &[(&str, usize)] = &[("w3", 3), ("w4", 4), ("wcal", 2), ("wcap", 4), ("wunused", 5)];
/// Extern declarations available to headers.
pub const EXTERNS: &[&str] = &["efn", "efn2", "eunused"];

#[derive(Clone, Debug)]
pub struct TextInstr {
    pub name: String,
    pub text: String,
    pub instr: Instruction,
}

/// Everything parsed once.
pub struct Pool {
    /// frame definitions: for every candidate frame, one per `Rate` variant
    pub frame_defs: Vec<FrameDef>,
    pub decls: Vec<TextInstr>,
    pub wave_defs: Vec<TextInstr>,
    pub extern_defs: Vec<TextInstr>,
    pub cal_defs: Vec<CalDef>,
    pub meas_cal_defs: Vec<MeasCalDef>,
    /// DEFGATE / DEFCIRCUIT (C35: must be left unchanged)
    pub other_defs: Vec<TextInstr>,
    pub items: Vec<Item>,
    /// indices into `items` by role
    pub rf: Vec<usize>,
    pub classical: Vec<usize>,
    pub control: Vec<usize>,
    /// gate applications, measurements, and the CALL of an undeclared extern
    pub gates: Vec<usize>,
    /// the 24-instruction alphabet of the exhaustive C22/C24 workload
    pub alphabet24: Vec<usize>,
    /// RF alphabet with positive durations for exhaustive C25 blocks
    pub alphabet_timed: Vec<usize>,
    /// memory alphabet for C23(b): classical + RF readers/capturers over regions r, s (+ index t)
    pub alphabet_mem: Vec<usize>,
    /// conditional-jump terminators for C23(b)
    pub mem_terminators: Vec<usize>,
    /// parse cache for model-expanded calibration lines
    line_cache: BTreeMap<String, Instruction>,
}

fn parse_one(text: &str) -> Result<Instruction, String> {
    match guarded(|| Instruction::from_str(text)) {
        Ok(Ok(i)) => Ok(i),
        Ok(Err(e)) => Err(format!("generator text does not parse: {text:?}: {e}")),
        Err(p) => Err(format!("parser panicked on generator text {text:?}: {}", p.message)),
    }
}

impl Pool {
    /// Build the pool; `Err` means generator text was rejected by the parser (reported by the
    /// monitors as a check failure, never as a violation).
    pub fn new() -> Result<Pool, String> {
        let frames = candidate_frames();
        let mut frame_defs = Vec::new();
        for key in &frames {
            for rate in [Rate::Num(1.0), Rate::Num(2.0), Rate::Absent, Rate::Str] {
                let attr = match rate {
                    Rate::Num(r) => format!("\n    SAMPLE-RATE: {}", fmt_f(r)),
                    Rate::Absent => String::new(),
                    Rate::Str => "\n    SAMPLE-RATE: \"fast\"".to_string(),
                };
                let text = format!(
                    "DEFFRAME {}:{}\n    INITIAL-FREQUENCY: 1e8",
                    key.text(),
                    attr
                );
                let instr = parse_one(&text)?;
                frame_defs.push(FrameDef {
                    key: key.clone(),
                    rate,
                    text,
                    instr,
                });
            }
        }
        let mut decls = Vec::new();
        for (name, text) in [
            ("r", "DECLARE r REAL[2]"),
            ("s", "DECLARE s REAL[2]"),
            ("t", "DECLARE t INTEGER[2]"),
            ("ro", "DECLARE ro BIT[2]"),
            ("raw", "DECLARE raw REAL[8]"),
            ("reals", "DECLARE reals REAL[3]"),
            ("octets", "DECLARE octets OCTET[3]"),
        ] {
            decls.push(TextInstr {
                name: name.into(),
                text: text.into(),
                instr: parse_one(text)?,
            });
        }
        let mut wave_defs = Vec::new();
        for (name, samples) in WAVEFORMS {
            let vals: Vec<String> = (0..*samples).map(|k| format!("{}.0", k + 1)).collect();
            let text = format!("DEFWAVEFORM {name}:\n    {}", vals.join(", "));
            wave_defs.push(TextInstr {
                name: name.to_string(),
                instr: parse_one(&text)?,
                text,
            });
        }
        let mut extern_defs = Vec::new();
        for name in EXTERNS {
            let text = format!("PRAGMA EXTERN {name} \"OCTET (params : mut REAL[3])\"");
            extern_defs.push(TextInstr {
                name: name.to_string(),
                instr: parse_one(&text)?,
                text,
            });
        }
        let mut other_defs = Vec::new();
        for (name, text) in [
            ("MYG", "DEFGATE MYG AS PERMUTATION:\n    1, 0"),
            ("MYC", "DEFCIRCUIT MYC a:\n    X a"),
        ] {
            other_defs.push(TextInstr {
                name: name.into(),
                text: text.into(),
                instr: parse_one(text)?,
            });
        }
        let mut cal_defs = Vec::new();
        for spec in cal_specs() {
            let qs = match &spec.fixed_qubits {
                Some(qs) => qs.iter().map(|q| q.to_string()).collect::<Vec<_>>().join(" "),
                None => "q".to_string(),
            };
            let mut text = format!("DEFCAL {} {}:", spec.name, qs);
            for line in &spec.body {
                text.push_str("\n    ");
                text.push_str(&line.text.replace("{q}", "q"));
            }
            let instr = parse_one(&text)?;
            cal_defs.push(CalDef { spec, text, instr });
        }
        let mut meas_cal_defs = Vec::new();
        {
            let b0 = FrameKey::new(&[0], "b");
            let body = vec![
                frame_update("SET-SCALE", &b0, "1.0"),
                capture(true, &b0, &Wf::Flat(1.0), "{addr}"),
            ];
            let mut text = "DEFCAL MEASURE 0 addr:".to_string();
            for line in &body {
                text.push_str("\n    ");
                text.push_str(&line.text.replace("{addr}", "addr"));
            }
            let instr = parse_one(&text)?;
            meas_cal_defs.push(MeasCalDef {
                qubit: 0,
                body,
                text,
                instr,
            });
        }

        // ---- body items -------------------------------------------------------------------
        let f = |q: &[u64], n: &'static str| FrameKey::new(q, n);
        let (a0, b0, a1, b1, a2, a01, a12, b01) = (
            f(&[0], "a"),
            f(&[0], "b"),
            f(&[1], "a"),
            f(&[1], "b"),
            f(&[2], "a"),
            f(&[0, 1], "a"),
            f(&[1, 2], "a"),
            f(&[0, 1], "b"),
        );
        let mut specs: Vec<Spec> = Vec::new();
        let mut alphabet24_texts: Vec<String> = Vec::new();
        let mut timed_texts: Vec<String> = Vec::new();
        let mut mem_texts: Vec<String> = Vec::new();
        let mut mem_term_texts: Vec<String> = Vec::new();
        macro_rules! add {
            ($s:expr) => {{
                let s: Spec = $s;
                let t = s.text.clone();
                specs.push(s);
                t
            }};
        }
        // the 24-instruction alphabet (exhaustive blocks of length <= 3)
        alphabet24_texts.push(add!(pulse(true, &a0, &Wf::Flat(1.0))));
        alphabet24_texts.push(add!(pulse(false, &a0, &Wf::Flat(2.5))));
        alphabet24_texts.push(add!(pulse(true, &b0, &Wf::Erf(0.5, 0.5, 1.0))));
        alphabet24_texts.push(add!(pulse(false, &a1, &Wf::Flat(0.5))));
        alphabet24_texts.push(add!(pulse(true, &a01, &Wf::Custom("w3", 3))));
        alphabet24_texts.push(add!(capture(true, &b0, &Wf::Flat(1.0), "ro[0]")));
        alphabet24_texts.push(add!(capture(false, &a1, &Wf::Flat(2.5), "r[0]")));
        alphabet24_texts.push(add!(raw_capture(true, &a0, 1.0, "raw[0]")));
        alphabet24_texts.push(add!(delay(&[0], &[], 1.0)));
        alphabet24_texts.push(add!(delay(&[0], &["a"], 0.5)));
        alphabet24_texts.push(add!(delay(&[0, 1], &[], 2.5)));
        alphabet24_texts.push(add!(fence(&[])));
        alphabet24_texts.push(add!(fence(&[0])));
        alphabet24_texts.push(add!(fence(&[1, 2])));
        alphabet24_texts.push(add!(frame_update("SET-PHASE", &a0, "r[0]")));
        alphabet24_texts.push(add!(frame_update("SHIFT-FREQUENCY", &a1, "1.0")));
        alphabet24_texts.push(add!(swap_phases(&a0, &b0)));
        alphabet24_texts.push(add!(spec("RESET".into(), DurModel::Unknown, Kind::Reset)));
        alphabet24_texts.push(add!(spec("RESET 0".into(), DurModel::Unknown, Kind::Reset)));
        // frame 1 "b" is the frame that the exhaustive header leaves undefined
        alphabet24_texts.push(add!(pulse(true, &b1, &Wf::Flat(1.0))));
        alphabet24_texts.push(add!(classical("MOVE r[0] 1.0")));
        alphabet24_texts.push(add!(classical("ADD r[0] s[0]")));
        alphabet24_texts.push(add!(classical("MOVE s[1] r[1]")));
        alphabet24_texts.push(add!(classical("NOP")));

        // further RF instructions for the random workloads: every kind on more frames / shapes
        for fr in [&a0, &b0, &a1, &b1, &a2, &a01, &a12, &b01] {
            for blocking in [true, false] {
                for wf in [Wf::Flat(0.5), Wf::Flat(1.0), Wf::Custom("w4", 4)] {
                    add!(pulse(blocking, fr, &wf));
                }
            }
            add!(capture(true, fr, &Wf::Flat(0.5), "ro[0]"));
            add!(capture(false, fr, &Wf::Custom("w3", 3), "ro[1]"));
            add!(raw_capture(false, fr, 2.5, "raw[0]"));
            add!(frame_update("SET-FREQUENCY", fr, "1.0"));
            add!(frame_update("SHIFT-PHASE", fr, "s[0]"));
            add!(frame_update("SET-SCALE", fr, "0.5"));
        }
        add!(pulse(true, &a0, &Wf::GaussPadLeft(1.0, 0.5)));
        add!(pulse(true, &a0, &Wf::Flat(0.0)));
        add!(pulse(true, &a1, &Wf::NoDuration));
        add!(pulse(true, &a1, &Wf::MemDuration));
        add!(pulse(false, &a2, &Wf::Erf(1.0, 0.0, 0.5)));
        add!(capture(true, &a01, &Wf::Erf(0.5, 0.5, 0.5), "ro[0]"));
        add!(swap_phases(&a1, &a01));
        add!(swap_phases(&a0, &b1));
        add!(swap_phases(&a2, &a2));
        for (q, n, d) in [
            (&[1u64][..], &[][..], 0.5),
            (&[2], &[], 1.0),
            (&[0], &["b"], 1.0),
            (&[0], &["a", "b"], 2.5),
            (&[1], &["b"], 0.5),
            (&[0, 1], &["a"], 1.0),
            (&[1, 0], &[], 0.5),
            (&[1, 2], &[], 1.0),
            (&[0, 1, 2], &[], 1.0),
            (&[0], &[], 0.0),
        ] {
            add!(delay(q, n, d));
        }
        add!(spec("DELAY 0 \"a\" r[0]".into(), DurModel::Unknown, Kind::Delay));
        for q in [&[1u64][..], &[2], &[0, 1], &[0, 2], &[0, 1, 2]] {
            add!(fence(q));
        }
        add!(spec("RESET 1".into(), DurModel::Unknown, Kind::Reset));
        add!(spec("RESET 2".into(), DurModel::Unknown, Kind::Reset));

        // exhaustive C25 alphabet: timed RF instructions with known durations on overlapping frames
        timed_texts.push(add!(pulse(true, &a0, &Wf::Flat(1.0))));
        timed_texts.push(add!(pulse(false, &a0, &Wf::Flat(2.5))));
        timed_texts.push(add!(pulse(false, &b0, &Wf::Erf(0.5, 0.5, 1.0))));
        timed_texts.push(add!(pulse(true, &a1, &Wf::Flat(0.5))));
        timed_texts.push(add!(pulse(false, &a01, &Wf::Custom("w3", 3))));
        timed_texts.push(add!(capture(false, &b0, &Wf::Custom("w4", 4), "ro[0]")));
        timed_texts.push(add!(raw_capture(true, &a1, 2.5, "raw[0]")));
        timed_texts.push(add!(delay(&[0], &[], 1.0)));
        timed_texts.push(add!(delay(&[0], &["a"], 0.5)));
        timed_texts.push(add!(delay(&[0, 1], &[], 2.5)));
        timed_texts.push(add!(fence(&[])));
        timed_texts.push(add!(fence(&[1])));
        timed_texts.push(add!(frame_update("SET-PHASE", &a0, "1.0")));
        timed_texts.push(add!(swap_phases(&a0, &b0)));
        timed_texts.push(add!(pulse(true, &b1, &Wf::Flat(1.0))));
        timed_texts.push(add!(pulse(false, &a2, &Wf::Flat(1.0))));

        // memory alphabet (C23 b): every access shape over regions r, s (+ t as an index region)
        for text in [
            "MOVE r[0] 1.0",
            "MOVE r[0] s[0]",
            "MOVE s[0] r[1]",
            "ADD r[0] s[0]",
            "ADD s[0] 2.0",
            "NOT t[0]",
            "NEG r[0]",
            "EXCHANGE r[0] s[0]",
            "CONVERT r[0] t[0]",
            "LOAD r[0] s t[0]",
            "STORE s t[0] r[0]",
            "EQ t[0] r[0] s[0]",
        ] {
            mem_texts.push(add!(classical(text)));
        }
        mem_texts.push(add!(frame_update("SET-PHASE", &a0, "r[0]")));
        mem_texts.push(add!(frame_update("SHIFT-FREQUENCY", &a1, "2.0*s[1]")));
        mem_texts.push(add!(capture(false, &b0, &Wf::Flat(1.0), "r[1]")));
        mem_texts.push(add!(raw_capture(false, &a1, 1.0, "s[0]")));
        mem_texts.push(add!(pulse(false, &a2, &Wf::MemDuration)));
        // instructions that READ and CAPTURE the same region (waveform parameter / raw-capture
        // duration referencing the capture target's region): the shape where a read and a capture
        // of one instruction meet in one dependency queue
        mem_texts.push(add!(capture(false, &b0, &Wf::MemDuration, "r[1]")));
        mem_texts.push(add!(spec(
            "RAW-CAPTURE 1 \"a\" s[1] s[0]".to_string(),
            DurModel::Unknown,
            Kind::RawCapture,
        )));
        add!(capture(true, &a0, &Wf::MemDuration, "r[0]"));
        // more classical instructions for random programs
        for text in [
            "MOVE t[0] 1",
            "SUB r[1] r[0]",
            "MUL s[1] s[1]",
            "AND t[0] t[1]",
            "GT t[1] s[0] 1.0",
            "LOAD s[0] r t[1]",
            "STORE r t[1] 2.0",
            "PRAGMA hint",
        ] {
            add!(classical(text));
        }
        for (text, callee) in [
            ("CALL efn octets[1] reals", "efn"),
            ("CALL efn2 octets[0] reals", "efn2"),
            ("CALL enone octets[0] reals", "enone"),
        ] {
            let mut s = spec(text.into(), DurModel::Unknown, Kind::Call);
            s.callee = Some(callee);
            add!(s);
        }
        // control flow
        for (text, kind) in [
            ("LABEL @l0", Kind::Label),
            ("LABEL @l1", Kind::Label),
            ("JUMP @l0", Kind::Jump),
            ("HALT", Kind::Halt),
            ("WAIT", Kind::Wait),
        ] {
            add!(spec(text.into(), DurModel::Unknown, kind));
        }
        for text in ["JUMP-WHEN @l0 r[0]", "JUMP-UNLESS @l1 s[0]", "JUMP-WHEN @l1 t[0]"] {
            mem_term_texts.push(add!(spec(text.into(), DurModel::Unknown, Kind::CondJump)));
        }
        // gates (calibrated or not) and measurements
        for text in ["CA 0", "CA 1", "CB 0 1", "CC 1", "CD 0", "CV 0", "CV 2", "CW 0", "CX 2", "X 0"] {
            add!(spec(text.into(), DurModel::Unknown, Kind::Gate));
        }
        for text in ["MEASURE 0 ro[1]", "MEASURE 1 ro[0]"] {
            add!(spec(text.into(), DurModel::Unknown, Kind::Measure));
        }

        // parse, dropping duplicates by text
        let mut items: Vec<Item> = Vec::new();
        let mut by_text: BTreeMap<String, usize> = BTreeMap::new();
        for s in specs {
            if by_text.contains_key(&s.text) {
                continue;
            }
            let instr = parse_one(&s.text)?;
            by_text.insert(s.text.clone(), items.len());
            items.push(Item {
                text: s.text,
                instr,
                dur: s.dur,
                kind: s.kind,
                waveform: s.waveform,
                callee: s.callee,
            });
        }
        let idx = |texts: &[String]| -> Vec<usize> { texts.iter().map(|t| by_text[t]).collect() };
        let rf = (0..items.len()).filter(|&i| items[i].kind.is_rf()).collect();
        // CALLs of declared externs count as classical; the CALL of the undeclared `enone` (which
        // makes scheduling fail) is only offered together with gates (calibration / simplify workloads)
        let classical = (0..items.len())
            .filter(|&i| {
                items[i].kind == Kind::Classical
                    || (items[i].kind == Kind::Call && items[i].callee != Some("enone"))
            })
            .collect();
        let control = (0..items.len()).filter(|&i| items[i].kind.is_control() || items[i].kind == Kind::CondJump).collect();
        let gates = (0..items.len())
            .filter(|&i| {
                matches!(items[i].kind, Kind::Gate | Kind::Measure)
                    || items[i].callee == Some("enone")
            })
            .collect();
        Ok(Pool {
            frame_defs,
            decls,
            wave_defs,
            extern_defs,
            cal_defs,
            meas_cal_defs,
            other_defs,
            alphabet24: idx(&alphabet24_texts),
            alphabet_timed: idx(&timed_texts),
            alphabet_mem: idx(&mem_texts),
            mem_terminators: idx(&mem_term_texts),
            items,
            rf,
            classical,
            control,
            gates,
            line_cache: BTreeMap::new(),
        })
    }

    pub fn frame_def(&self, key: &FrameKey, rate: Rate) -> usize {
        self.frame_defs
            .iter()
            .position(|d| &d.key == key && d.rate == rate)
            .expect("frame definition in pool")
    }
}

// ---------------------------------------------------------------------------------------------
// Cases

/// A generated program: which definitions it has and its body.
#[derive(Clone, Debug, Default)]
pub struct Case {
    /// indices into `pool.frame_defs` (at most one per frame key)
    pub frames: Vec<usize>,
    pub waves: Vec<usize>,
    pub externs: Vec<usize>,
    pub cals: Vec<usize>,
    pub meas_cals: Vec<usize>,
    pub others: Vec<usize>,
    pub decls: bool,
    /// indices into `pool.items`
    pub body: Vec<usize>,
}

impl Case {
    /// Full program text (what a human needs to reproduce the case).
    pub fn text(&self, pool: &Pool) -> String {
        let mut out = String::new();
        let mut push = |s: &str| {
            out.push_str(s);
            out.push('\n');
        };
        if self.decls {
            for d in &pool.decls {
                push(&d.text);
            }
        }
        for &i in &self.externs {
            push(&pool.extern_defs[i].text);
        }
        for &i in &self.frames {
            push(&pool.frame_defs[i].text);
        }
        for &i in &self.waves {
            push(&pool.wave_defs[i].text);
        }
        for &i in &self.others {
            push(&pool.other_defs[i].text);
        }
        for &i in &self.cals {
            push(&pool.cal_defs[i].text);
        }
        for &i in &self.meas_cals {
            push(&pool.meas_cal_defs[i].text);
        }
        for &i in &self.body {
            push(&pool.items[i].text);
        }
        out
    }

    /// Header instructions in the order of `text`.
    fn header_instructions<'a>(&'a self, pool: &'a Pool) -> Vec<&'a Instruction> {
        let mut v: Vec<&Instruction> = Vec::new();
        if self.decls {
            v.extend(pool.decls.iter().map(|d| &d.instr));
        }
        v.extend(self.externs.iter().map(|&i| &pool.extern_defs[i].instr));
        v.extend(self.frames.iter().map(|&i| &pool.frame_defs[i].instr));
        v.extend(self.waves.iter().map(|&i| &pool.wave_defs[i].instr));
        v.extend(self.others.iter().map(|&i| &pool.other_defs[i].instr));
        v.extend(self.cals.iter().map(|&i| &pool.cal_defs[i].instr));
        v.extend(self.meas_cals.iter().map(|&i| &pool.meas_cal_defs[i].instr));
        v
    }

    /// Assemble the program through `Program::add_instruction` (call inside `guarded`).
    pub fn build(&self, pool: &Pool) -> Program {
        let mut p = Program::new();
        for i in self.header_instructions(pool) {
            p.add_instruction(i.clone());
        }
        for &i in &self.body {
            p.add_instruction(pool.items[i].instr.clone());
        }
        p
    }

    /// Assemble a program with this case's definitions and another body.
    pub fn build_with_body(&self, pool: &Pool, body: &[Instruction]) -> Program {
        let mut p = Program::new();
        for i in self.header_instructions(pool) {
            p.add_instruction(i.clone());
        }
        for i in body {
            p.add_instruction(i.clone());
        }
        p
    }

    pub fn rate_of(&self, pool: &Pool, key: &FrameKey) -> Option<Rate> {
        self.frames
            .iter()
            .map(|&i| &pool.frame_defs[i])
            .find(|d| &d.key == key)
            .map(|d| d.rate)
    }

    pub fn defines_waveform(&self, pool: &Pool, name: &str) -> bool {
        self.waves.iter().any(|&i| pool.wave_defs[i].name == name)
    }

    /// Documented duration of an instruction in this program, if the model knows one.
    pub fn model_duration(&self, pool: &Pool, dur: &DurModel) -> Option<f64> {
        match dur {
            DurModel::Fixed(d) => Some(*d),
            DurModel::Unknown => None,
            DurModel::Custom {
                waveform,
                samples,
                frame,
            } => {
                if !self.defines_waveform(pool, waveform) {
                    // not a DEFWAVEFORM in this program: treated as a template without `duration`
                    return None;
                }
                match self.rate_of(pool, frame) {
                    Some(Rate::Num(r)) => Some(*samples as f64 / r),
                    _ => None,
                }
            }
        }
    }
}

/// One instruction of a model-expanded body.
#[derive(Clone, Debug)]
pub struct Expanded {
    /// index of the source instruction in the case body
    pub source: usize,
    pub text: String,
    pub instr: Instruction,
    pub dur: DurModel,
    pub kind: Kind,
}

impl Pool {
    fn cached_parse(&mut self, text: &str) -> Result<Instruction, String> {
        if let Some(i) = self.line_cache.get(text) {
            return Ok(i.clone());
        }
        let i = parse_one(text)?;
        self.line_cache.insert(text.to_string(), i.clone());
        Ok(i)
    }

    /// Whether the case defines a calibration that the gate / measurement `item` matches (always
    /// true for items that are neither).
    pub fn is_calibrated(&self, case: &Case, item: usize) -> bool {
        let it = &self.items[item];
        let toks: Vec<&str> = it.text.split_whitespace().collect();
        match it.kind {
            Kind::Gate => {
                let qubits: Vec<u64> = toks[1..].iter().filter_map(|t| t.parse().ok()).collect();
                case.cals.iter().any(|&i| {
                    let c = &self.cal_defs[i].spec;
                    c.name == toks[0]
                        && match &c.fixed_qubits {
                            Some(qs) => *qs == qubits,
                            None => qubits.len() == 1,
                        }
                })
            }
            Kind::Measure => {
                let q: Option<u64> = toks.get(1).and_then(|t| t.parse().ok());
                case.meas_cals.iter().any(|&i| Some(self.meas_cal_defs[i].qubit) == q)
            }
            _ => true,
        }
    }

    /// Model expansion of calibrations: every body gate `N q..` for which the case defines the
    /// calibration `N` with matching qubits is replaced (recursively) by the calibration body;
    /// `MEASURE q target` with a measurement calibration for `q` likewise.  Everything else is kept.
    /// Returns `Err` only if generator text fails to parse.
    pub fn model_expand(&mut self, case: &Case) -> Result<Vec<Expanded>, String> {
        let mut out = Vec::new();
        for (source, &idx) in case.body.iter().enumerate() {
            let item = self.items[idx].clone();
            let s = Spec {
                text: item.text.clone(),
                dur: item.dur.clone(),
                kind: item.kind,
                waveform: None,
                callee: None,
            };
            self.expand_line(case, source, &s, 0, &mut out)?;
        }
        Ok(out)
    }

    fn expand_line(
        &mut self,
        case: &Case,
        source: usize,
        line: &Spec,
        depth: usize,
        out: &mut Vec<Expanded>,
    ) -> Result<(), String> {
        if depth < 4 {
            if line.kind == Kind::Gate {
                let mut toks = line.text.split_whitespace();
                let name = toks.next().unwrap_or("");
                let qubits: Vec<u64> = toks.filter_map(|t| t.parse().ok()).collect();
                let found = case
                    .cals
                    .iter()
                    .map(|&i| self.cal_defs[i].spec.clone())
                    .find(|c| {
                        c.name == name
                            && match &c.fixed_qubits {
                                Some(qs) => *qs == qubits,
                                None => qubits.len() == 1,
                            }
                    });
                if let Some(cal) = found {
                    let q = qubits.first().copied().unwrap_or(0).to_string();
                    for b in &cal.body {
                        let mut b = b.clone();
                        b.text = b.text.replace("{q}", &q);
                        self.expand_line(case, source, &b, depth + 1, out)?;
                    }
                    return Ok(());
                }
            }
            if line.kind == Kind::Measure {
                let toks: Vec<&str> = line.text.split_whitespace().collect();
                if toks.len() == 3 {
                    let qubit: Option<u64> = toks[1].parse().ok();
                    let found = case
                        .meas_cals
                        .iter()
                        .map(|&i| (self.meas_cal_defs[i].qubit, self.meas_cal_defs[i].body.clone()))
                        .find(|(q, _)| Some(*q) == qubit);
                    if let Some((_, body)) = found {
                        for b in &body {
                            let mut b = b.clone();
                            b.text = b.text.replace("{addr}", toks[2]);
                            self.expand_line(case, source, &b, depth + 1, out)?;
                        }
                        return Ok(());
                    }
                }
            }
        }
        let instr = self.cached_parse(&line.text)?;
        out.push(Expanded {
            source,
            text: line.text.clone(),
            instr,
            dur: line.dur.clone(),
            kind: line.kind,
        });
        Ok(())
    }
}

// ---------------------------------------------------------------------------------------------
// Case constructors

/// The fixed header of the exhaustive workloads: frames 0a, 0b, 1a, (0 1)a, 2a defined (rates 1, 2,
/// 1, 2, 1), 1b / (1 2)a / (0 1)b undefined, all declarations, waveforms w3 and w4.
pub fn standard_header(pool: &Pool) -> Case {
    let fr = |q: &[u64], n: &'static str, r: f64| pool.frame_def(&FrameKey::new(q, n), Rate::Num(r));
    Case {
        frames: vec![
            fr(&[0], "a", 1.0),
            fr(&[0], "b", 2.0),
            fr(&[1], "a", 1.0),
            fr(&[0, 1], "a", 2.0),
            fr(&[2], "a", 1.0),
        ],
        waves: vec![0, 1],
        externs: vec![],
        cals: vec![],
        meas_cals: vec![],
        others: vec![],
        decls: true,
        body: vec![],
    }
}

/// Random header: each candidate frame defined with probability 3/4 with a random rate variant.
pub fn random_header(pool: &Pool, rng: &mut Rng, with_cals: bool, with_extras: bool) -> Case {
    let mut c = Case {
        decls: true,
        ..Case::default()
    };
    for key in candidate_frames() {
        if rng.chance(3, 4) {
            let rate = match rng.below(8) {
                0 => Rate::Absent,
                1 => Rate::Str,
                2 | 3 | 4 => Rate::Num(2.0),
                _ => Rate::Num(1.0),
            };
            c.frames.push(pool.frame_def(&key, rate));
        }
    }
    rng.shuffle(&mut c.frames);
    for i in 0..pool.wave_defs.len() {
        let p = if with_extras { (2, 3) } else { (3, 4) };
        // wcal / wcap / wunused only when extras are requested
        if (i < 2 || with_extras) && rng.chance(p.0, p.1) {
            c.waves.push(i);
        }
    }
    if with_extras {
        for i in 0..pool.extern_defs.len() {
            if rng.chance(2, 3) {
                c.externs.push(i);
            }
        }
        for i in 0..pool.other_defs.len() {
            if rng.chance(1, 2) {
                c.others.push(i);
            }
        }
    } else {
        // efn and efn2 (the externs the pool's CALLs name) are usually declared
        for i in 0..2 {
            if rng.chance(5, 6) {
                c.externs.push(i);
            }
        }
    }
    if with_cals {
        for i in 0..pool.cal_defs.len() {
            if rng.chance(3, 4) {
                c.cals.push(i);
            }
        }
        if rng.chance(3, 4) {
            c.meas_cals.push(0);
        }
    }
    c
}

/// Weights of a random body.
#[derive(Clone, Copy, Debug)]
pub struct BodyMix {
    pub rf: u32,
    pub classical: u32,
    pub control: u32,
    pub gates: u32,
}

pub fn random_body(pool: &Pool, rng: &mut Rng, max_len: usize, mix: BodyMix) -> Vec<usize> {
    let len = 1 + rng.below(max_len);
    let total = mix.rf + mix.classical + mix.control + mix.gates;
    let mut body = Vec::with_capacity(len);
    for _ in 0..len {
        let mut x = (rng.next() % total as u64) as u32;
        let class: &Vec<usize> = if x < mix.rf {
            &pool.rf
        } else {
            x -= mix.rf;
            if x < mix.classical {
                &pool.classical
            } else {
                x -= mix.classical;
                if x < mix.control {
                    &pool.control
                } else {
                    &pool.gates
                }
            }
        };
        body.push(*rng.pick(class));
    }
    body
}

/// Decode index `code` of the enumeration of all sequences of length `len` over `alphabet`.
pub fn decode_sequence(alphabet: &[usize], len: usize, mut code: usize) -> Vec<usize> {
    let n = alphabet.len();
    let mut v = Vec::with_capacity(len);
    for _ in 0..len {
        v.push(alphabet[code % n]);
        code /= n;
    }
    v
}
