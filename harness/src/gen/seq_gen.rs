//! Generator of programs over a small gate-sequence alphabet (C20, C21).
//!
//! Definitions over the names {A, B, C} (each: a `DEFGATE .. AS SEQUENCE` with <= 2 formal
//! parameters, 1..=2 formal qubits and a body of 0..=3 elements; or a PERMUTATION definition; or
//! undefined), plus optionally a non-sequence definition `M`.  Elements reference standard gates
//! and A/B/C/M (so nesting, 1-/2-/3-cycles and arity mismatches all occur), the program body
//! invokes them with fixed / variable / placeholder qubits, parameters (possibly mentioning
//! variables named like the formals) and modifiers, interleaved with standard gates and non-gate
//! instructions.  Three styles steer the outcome mix: `WellFormed` (right arities, cycles
//! possible), `Acyclic` (references only "downwards" in a random order of the names: deep
//! successful nesting), `Hostile` (arity mismatches, modifiers, non-fixed qubits).
//!
//! The generator only produces model data (`model::seq_model`); it never calls quil-rs.

use crate::core::Rng;
use crate::model::seq_model::*;

pub const NAMES: [&str; 3] = ["A", "B", "C"];
/// Name of the extra non-sequence definition.
pub const EXTRA_DEF: &str = "M";

/// (name, parameter count, qubit count) of the standard gates used as leaves.
pub const STANDARD: &[(&str, usize, usize)] = &[
    ("H", 0, 1),
    ("X", 0, 1),
    ("RX", 1, 1),
    ("RZ", 1, 1),
    ("CNOT", 0, 2),
    ("CPHASE", 1, 2),
    ("ISWAP", 0, 2),
];

/// Non-gate body instructions (text form; the monitor builds the real instruction by index).
pub const OTHER_SNIPPETS: &[&str] = &["MEASURE 0 ro[0]", "RESET 1", "NOP", "PRAGMA marker", "RESET", "HALT"];

/// Text of the accompanying non-gate-definition sections when `MProgram::extras` is set.
pub const EXTRAS_TEXT: &str = "DECLARE ro BIT[2]\nDECLARE theta REAL[2]\nDEFCAL A 0:\n    NOP\nDEFCAL H 0:\n    NOP\nDEFCIRCUIT BELL a b:\n    H a\n    CNOT a b\nDEFFRAME 0 \"rf\":\n    SAMPLE-RATE: 1.0\nDEFWAVEFORM wf:\n    1.0, 0.5\n";

#[derive(Clone, Copy, Debug, PartialEq, Eq)]
pub enum Style {
    WellFormed,
    Acyclic,
    Hostile,
}

impl Style {
    pub fn name(self) -> &'static str {
        match self {
            Style::WellFormed => "well-formed",
            Style::Acyclic => "acyclic",
            Style::Hostile => "hostile",
        }
    }
}

#[derive(Clone, Copy)]
enum Plan {
    Seq { np: usize, nq: usize },
    Perm,
    Undefined,
}

pub struct SeqGen<'r> {
    pub rng: &'r mut Rng,
    pub max_body: usize,
    placeholders: usize,
}

impl<'r> SeqGen<'r> {
    pub fn new(rng: &'r mut Rng, max_body: usize) -> Self {
        SeqGen { rng, max_body, placeholders: 0 }
    }

    fn expr(&mut self, depth: usize, vars: &[&str]) -> MExpr {
        if depth == 0 || self.rng.chance(1, 2) {
            if !vars.is_empty() && self.rng.chance(2, 5) {
                return MExpr::Var(self.rng.pick(vars).to_string());
            }
            return match self.rng.below(8) {
                0 => MExpr::Num(0.0),
                1 => MExpr::Num(1.0),
                2 => MExpr::Num(2.0),
                3 => MExpr::Num(0.5),
                4 | 5 => MExpr::Pi,
                _ => MExpr::Addr("theta".into(), self.rng.below(2) as u64),
            };
        }
        match self.rng.below(10) {
            0 | 1 => MExpr::Neg(Box::new(self.expr(depth - 1, vars))),
            2 => {
                let f = *self.rng.pick(&["sin", "cos", "exp", "sqrt", "cis"]);
                MExpr::Fun(f, Box::new(self.expr(depth - 1, vars)))
            }
            _ => {
                let op = *self.rng.pick(&['+', '+', '-', '*', '*', '/', '/', '^']);
                MExpr::Bin(
                    Box::new(self.expr(depth - 1, vars)),
                    op,
                    Box::new(self.expr(depth - 1, vars)),
                )
            }
        }
    }

    /// Apply a random modifier to a gate, adding the operands the modifier calls for.
    fn add_modifier(&mut self, g: &mut MGate, extra_qubit: MQubit) {
        match self.rng.below(3) {
            0 => g.mods.insert(0, MMod::Dagger),
            1 => {
                g.mods.insert(0, MMod::Controlled);
                g.qubits.insert(0, extra_qubit);
            }
            _ => {
                g.mods.insert(0, MMod::Forked);
                g.qubits.insert(0, extra_qubit);
                let alt = g.params.clone();
                g.params.extend(alt);
            }
        }
    }

    pub fn program(&mut self) -> (MProgram, Style) {
        self.placeholders = 0;
        let style = match self.rng.below(10) {
            0..=3 => Style::WellFormed,
            4..=6 => Style::Acyclic,
            _ => Style::Hostile,
        };
        let hostile = style == Style::Hostile;

        // Plan kinds and arities first, so that references can (mis)match them on purpose.
        let mut plans = [Plan::Undefined; 3];
        for p in plans.iter_mut() {
            *p = match self.rng.below(20) {
                0..=15 => Plan::Seq { np: self.rng.below(3), nq: 1 + self.rng.below(2) },
                16 | 17 => Plan::Perm,
                _ => Plan::Undefined,
            };
        }
        let with_extra_def = self.rng.chance(3, 10);
        // Rank for the acyclic style: a definition may only reference names of higher rank.
        let mut rank = [0usize, 1, 2];
        self.rng.shuffle(&mut rank);

        let mut defs: Vec<MDef> = Vec::new();
        for (i, name) in NAMES.iter().enumerate() {
            match plans[i] {
                Plan::Undefined => {}
                Plan::Perm => defs.push(MDef { name: name.to_string(), params: vec![], kind: MDefKind::Permutation }),
                Plan::Seq { np, nq } => {
                    let formals_p: Vec<&str> = ["p", "q"][..np].to_vec();
                    let formals_q: Vec<&str> = ["a", "b"][..nq].to_vec();
                    let len = match self.rng.below(20) {
                        0 => 0,
                        1..=5 => 1,
                        6..=12 => 2,
                        _ => 3,
                    };
                    let mut gates = Vec::new();
                    for _ in 0..len {
                        // choose what the element refers to
                        let mut target: Option<usize> = None; // index into NAMES
                        let mut extra = false;
                        if self.rng.chance(11, 20) {
                            let allowed: Vec<usize> = (0..3)
                                .filter(|j| style != Style::Acyclic || rank[*j] > rank[i])
                                .collect();
                            if !allowed.is_empty() {
                                target = Some(*self.rng.pick(&allowed));
                            }
                        } else if with_extra_def && self.rng.chance(1, 6) {
                            extra = true;
                        }
                        let (gname, mut gnp, mut gnq) = match target {
                            Some(j) => match plans[j] {
                                Plan::Seq { np, nq } => (NAMES[j], np, nq),
                                Plan::Perm => (NAMES[j], 0, 1),
                                Plan::Undefined => (NAMES[j], self.rng.below(2), 1 + self.rng.below(2)),
                            },
                            None if extra => (EXTRA_DEF, 0, 1),
                            None => *self.rng.pick(STANDARD),
                        };
                        if hostile && self.rng.chance(3, 20) {
                            gnp = self.rng.below(3);
                            gnq = 1 + self.rng.below(3);
                        }
                        let mut g = MGate {
                            name: gname.to_string(),
                            params: (0..gnp).map(|_| self.expr(2, &formals_p)).collect(),
                            qubits: (0..gnq)
                                .map(|_| MQubit::Var(self.rng.pick(&formals_q).to_string()))
                                .collect(),
                            mods: vec![],
                        };
                        let is_ref = target.is_some();
                        let want_mod = if is_ref { hostile && self.rng.chance(1, 8) } else { self.rng.chance(1, 10) };
                        if want_mod {
                            let q = MQubit::Var(self.rng.pick(&formals_q).to_string());
                            self.add_modifier(&mut g, q);
                        }
                        gates.push(g);
                    }
                    defs.push(MDef {
                        name: name.to_string(),
                        params: formals_p.iter().map(|s| s.to_string()).collect(),
                        kind: MDefKind::Sequence {
                            qubits: formals_q.iter().map(|s| s.to_string()).collect(),
                            gates,
                        },
                    });
                }
            }
        }
        if with_extra_def {
            defs.push(MDef { name: EXTRA_DEF.to_string(), params: vec![], kind: MDefKind::Permutation });
        }
        self.rng.shuffle(&mut defs);

        // Program body.
        let n = 1 + self.rng.below(self.max_body);
        let mut body = Vec::new();
        let top_vars = ["p", "q", "x"];
        for _ in 0..n {
            let roll = self.rng.below(20);
            if roll >= 17 {
                body.push(MInstr::Other(self.rng.below(OTHER_SNIPPETS.len())));
                continue;
            }
            let (gname, mut gnp, mut gnq, is_ref) = if roll < 13 {
                let j = self.rng.below(3);
                match plans[j] {
                    Plan::Seq { np, nq } => (NAMES[j], np, nq, true),
                    Plan::Perm => (NAMES[j], 0, 1, true),
                    Plan::Undefined => (NAMES[j], self.rng.below(2), 1 + self.rng.below(2), true),
                }
            } else if roll == 13 && with_extra_def {
                (EXTRA_DEF, 0, 1, false)
            } else {
                let s = *self.rng.pick(STANDARD);
                (s.0, s.1, s.2, false)
            };
            if hostile && self.rng.chance(3, 20) {
                gnp = self.rng.below(3);
                gnq = 1 + self.rng.below(3);
            }
            let vars: &[&str] = if self.rng.chance(1, 3) { &top_vars } else { &[] };
            let qubit = |me: &mut Self| -> MQubit {
                if hostile && me.rng.chance(1, 10) {
                    MQubit::Var(me.rng.pick(&["q", "r"]).to_string())
                } else if hostile && me.rng.chance(1, 30) {
                    me.placeholders += 1;
                    MQubit::Placeholder(me.placeholders)
                } else {
                    MQubit::Fixed(me.rng.below(3) as u64)
                }
            };
            let mut g = MGate {
                name: gname.to_string(),
                params: (0..gnp).map(|_| self.expr(2, vars)).collect(),
                qubits: (0..gnq).map(|_| qubit(self)).collect(),
                mods: vec![],
            };
            let want_mod = if is_ref { hostile && self.rng.chance(1, 8) } else { self.rng.chance(1, 10) };
            if want_mod {
                let q = qubit(self);
                self.add_modifier(&mut g, q);
            }
            body.push(MInstr::Gate(g));
        }
        let extras = self.rng.chance(1, 4);
        (MProgram { defs, body, extras }, style)
    }
}

/// Text of a program (for the case description and for the text/API cross-check).
pub fn render_program(p: &MProgram) -> String {
    let mut s = String::new();
    if p.extras {
        s.push_str(EXTRAS_TEXT);
    }
    for d in &p.defs {
        s.push_str(&render_def(d));
    }
    for i in &p.body {
        match i {
            MInstr::Gate(g) => s.push_str(&render_gate(g)),
            MInstr::Other(k) => s.push_str(OTHER_SNIPPETS[*k]),
        }
        s.push('\n');
    }
    s
}
