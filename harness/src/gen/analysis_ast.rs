//! AST builders and small seeded generators shared by the analysis-group monitors (C27–C31).
//!
//! Everything here only *constructs* quil-rs values through public constructors / public fields;
//! nothing asks quil-rs what the expected answer is.

use crate::core::Rng;
use num_complex::Complex64;
use quil_rs::expression::{
    Expression, ExpressionFunction, FunctionCallExpression, InfixExpression, InfixOperator,
    PrefixExpression, PrefixOperator,
};
use quil_rs::instruction::{
    Declaration, FrameIdentifier, Gate, GateModifier, Instruction, MemoryReference, Qubit,
    ScalarType, Vector,
};

pub fn mref(name: &str, index: u64) -> MemoryReference {
    MemoryReference {
        name: name.to_string(),
        index,
    }
}

pub fn q(i: u64) -> Qubit {
    Qubit::Fixed(i)
}

pub fn frame(name: &str, qubits: &[u64]) -> FrameIdentifier {
    FrameIdentifier {
        name: name.to_string(),
        qubits: qubits.iter().map(|i| q(*i)).collect(),
    }
}

pub fn declare(name: &str, ty: ScalarType, len: u64) -> Instruction {
    Instruction::Declaration(Declaration {
        name: name.to_string(),
        size: Vector {
            data_type: ty,
            length: len,
        },
        sharing: None,
    })
}

/// A gate built through public fields (no validation: names used by the monitors are plain).
pub fn gate(name: &str, params: Vec<Expression>, qubits: &[u64], modifiers: Vec<GateModifier>) -> Instruction {
    Instruction::Gate(Gate {
        name: name.to_string(),
        parameters: params,
        qubits: qubits.iter().map(|i| q(*i)).collect(),
        modifiers,
    })
}

// ---------------------------------------------------------------------------------------------
// Expressions

pub fn num(re: f64) -> Expression {
    Expression::Number(Complex64::new(re, 0.0))
}
pub fn cnum(re: f64, im: f64) -> Expression {
    Expression::Number(Complex64::new(re, im))
}
pub fn addr(name: &str, index: u64) -> Expression {
    Expression::Address(mref(name, index))
}
pub fn var(name: &str) -> Expression {
    Expression::Variable(name.to_string())
}
pub fn pi() -> Expression {
    Expression::PiConstant()
}
pub fn infix(l: Expression, op: InfixOperator, r: Expression) -> Expression {
    Expression::Infix(InfixExpression::new(l.into(), op, r.into()))
}
pub fn prefix(op: PrefixOperator, e: Expression) -> Expression {
    Expression::Prefix(PrefixExpression::new(op, e.into()))
}
pub fn call(f: ExpressionFunction, e: Expression) -> Expression {
    Expression::FunctionCall(FunctionCallExpression::new(f, e.into()))
}

pub const INFIX_OPS: [InfixOperator; 5] = [
    InfixOperator::Plus,
    InfixOperator::Minus,
    InfixOperator::Star,
    InfixOperator::Slash,
    InfixOperator::Caret,
];
pub const PREFIX_OPS: [PrefixOperator; 2] = [PrefixOperator::Plus, PrefixOperator::Minus];
pub const FUNCTIONS: [ExpressionFunction; 5] = [
    ExpressionFunction::Cis,
    ExpressionFunction::Cosine,
    ExpressionFunction::Exponent,
    ExpressionFunction::Sine,
    ExpressionFunction::SquareRoot,
];

/// Own (harness-side) printer for expressions, used for case descriptions and distinctness keys.
/// Fully parenthesised; not meant to be parsed back.
pub fn show_expr(e: &Expression) -> String {
    match e {
        Expression::Address(m) => format!("{}[{}]", m.name, m.index),
        Expression::FunctionCall(f) => {
            let name = match f.function {
                ExpressionFunction::Cis => "cis",
                ExpressionFunction::Cosine => "cos",
                ExpressionFunction::Exponent => "exp",
                ExpressionFunction::Sine => "sin",
                ExpressionFunction::SquareRoot => "sqrt",
            };
            format!("{name}({})", show_expr(&f.expression))
        }
        Expression::Infix(i) => {
            let op = match i.operator {
                InfixOperator::Caret => "^",
                InfixOperator::Plus => "+",
                InfixOperator::Minus => "-",
                InfixOperator::Slash => "/",
                InfixOperator::Star => "*",
            };
            format!("({}{op}{})", show_expr(&i.left), show_expr(&i.right))
        }
        Expression::Number(c) => {
            if c.im == 0.0 {
                format!("{}", c.re)
            } else {
                format!("({}+{}i)", c.re, c.im)
            }
        }
        Expression::PiConstant() => "pi".to_string(),
        Expression::Prefix(p) => {
            let op = match p.operator {
                PrefixOperator::Plus => "+",
                PrefixOperator::Minus => "-",
            };
            format!("{op}({})", show_expr(&p.expression))
        }
        Expression::Variable(v) => format!("%{v}"),
    }
}

/// Depth of an expression tree (a leaf has depth 0).
pub fn expr_depth(e: &Expression) -> usize {
    match e {
        Expression::FunctionCall(f) => 1 + expr_depth(&f.expression),
        Expression::Prefix(p) => 1 + expr_depth(&p.expression),
        Expression::Infix(i) => 1 + expr_depth(&i.left).max(expr_depth(&i.right)),
        _ => 0,
    }
}

/// Memory-region names referenced anywhere in an expression (independent tree walk).
pub fn expr_regions(e: &Expression, out: &mut std::collections::BTreeSet<String>) {
    match e {
        Expression::Address(m) => {
            out.insert(m.name.clone());
        }
        Expression::FunctionCall(f) => expr_regions(&f.expression, out),
        Expression::Prefix(p) => expr_regions(&p.expression, out),
        Expression::Infix(i) => {
            expr_regions(&i.left, out);
            expr_regions(&i.right, out);
        }
        Expression::Number(_) | Expression::PiConstant() | Expression::Variable(_) => {}
    }
}

/// Random expression over a caller-supplied leaf generator.
pub fn random_expr(rng: &mut Rng, depth: usize, leaf: &mut dyn FnMut(&mut Rng) -> Expression) -> Expression {
    if depth == 0 || rng.chance(1, 4) {
        return leaf(rng);
    }
    match rng.below(10) {
        0..=5 => {
            let l = random_expr(rng, depth - 1, leaf);
            let r = random_expr(rng, depth - 1, leaf);
            infix(l, *rng.pick(&INFIX_OPS), r)
        }
        6..=7 => {
            let e = random_expr(rng, depth - 1, leaf);
            prefix(*rng.pick(&PREFIX_OPS), e)
        }
        _ => {
            let e = random_expr(rng, depth - 1, leaf);
            call(*rng.pick(&FUNCTIONS), e)
        }
    }
}

/// Variant name of an instruction (harness-side; used in signatures and coverage counters).
pub fn kind(i: &Instruction) -> &'static str {
    match i {
        Instruction::Arithmetic(_) => "Arithmetic",
        Instruction::BinaryLogic(_) => "BinaryLogic",
        Instruction::CalibrationDefinition(_) => "CalibrationDefinition",
        Instruction::Call(_) => "Call",
        Instruction::Capture(_) => "Capture",
        Instruction::CircuitDefinition(_) => "CircuitDefinition",
        Instruction::Convert(_) => "Convert",
        Instruction::Comparison(_) => "Comparison",
        Instruction::Declaration(_) => "Declaration",
        Instruction::Delay(_) => "Delay",
        Instruction::Exchange(_) => "Exchange",
        Instruction::Fence(_) => "Fence",
        Instruction::FrameDefinition(_) => "FrameDefinition",
        Instruction::Gate(_) => "Gate",
        Instruction::GateDefinition(_) => "GateDefinition",
        Instruction::Halt() => "Halt",
        Instruction::Include(_) => "Include",
        Instruction::Jump(_) => "Jump",
        Instruction::JumpUnless(_) => "JumpUnless",
        Instruction::JumpWhen(_) => "JumpWhen",
        Instruction::Label(_) => "Label",
        Instruction::Load(_) => "Load",
        Instruction::MeasureCalibrationDefinition(_) => "MeasureCalibrationDefinition",
        Instruction::Measurement(_) => "Measurement",
        Instruction::Move(_) => "Move",
        Instruction::Nop() => "Nop",
        Instruction::Pragma(_) => "Pragma",
        Instruction::Pulse(_) => "Pulse",
        Instruction::RawCapture(_) => "RawCapture",
        Instruction::Reset(_) => "Reset",
        Instruction::SetFrequency(_) => "SetFrequency",
        Instruction::SetPhase(_) => "SetPhase",
        Instruction::SetScale(_) => "SetScale",
        Instruction::ShiftFrequency(_) => "ShiftFrequency",
        Instruction::ShiftPhase(_) => "ShiftPhase",
        Instruction::Store(_) => "Store",
        Instruction::SwapPhases(_) => "SwapPhases",
        Instruction::UnaryLogic(_) => "UnaryLogic",
        Instruction::WaveformDefinition(_) => "WaveformDefinition",
        Instruction::Wait() => "Wait",
    }
}

// ---------------------------------------------------------------------------------------------
// Harness-side compact printer for instructions (case descriptions / distinctness keys only; it
// is deliberately independent of quil-rs' own `to_quil`).

pub fn show_mref(m: &MemoryReference) -> String {
    format!("{}[{}]", m.name, m.index)
}

pub fn show_qubit(q: &Qubit) -> String {
    match q {
        Qubit::Fixed(i) => i.to_string(),
        Qubit::Variable(v) => v.clone(),
        Qubit::Placeholder(_) => "{placeholder}".to_string(),
    }
}

pub fn show_frame(f: &FrameIdentifier) -> String {
    let mut s = String::new();
    for q in &f.qubits {
        s.push_str(&show_qubit(q));
        s.push(' ');
    }
    format!("{s}\"{}\"", f.name)
}

fn show_block(body: &[Instruction]) -> String {
    body.iter().map(show_instruction).collect::<Vec<_>>().join(" | ")
}

pub fn show_instruction(i: &Instruction) -> String {
    use quil_rs::instruction::{
        ArithmeticOperand as AO, BinaryOperand as BO, ComparisonOperand as CO, GateSpecification,
        PragmaArgument, Target, UnresolvedCallArgument as UA,
    };
    let ao = |o: &AO| match o {
        AO::LiteralInteger(v) => v.to_string(),
        AO::LiteralReal(v) => format!("{v:?}"),
        AO::MemoryReference(m) => show_mref(m),
    };
    let target = |t: &Target| match t {
        Target::Fixed(s) => format!("@{s}"),
        Target::Placeholder(_) => "@{placeholder}".to_string(),
    };
    let wf = |w: &quil_rs::instruction::WaveformInvocation| {
        let ps: Vec<String> = w.parameters.iter().map(|(k, v)| format!("{k}: {}", show_expr(v))).collect();
        format!("{}({})", w.name, ps.join(", "))
    };
    let qs = |qs: &[Qubit]| qs.iter().map(show_qubit).collect::<Vec<_>>().join(" ");
    let es = |es: &[Expression]| {
        if es.is_empty() {
            String::new()
        } else {
            format!("({})", es.iter().map(show_expr).collect::<Vec<_>>().join(", "))
        }
    };
    match i {
        Instruction::Arithmetic(a) => format!("{:?} {} {}", a.operator, show_mref(&a.destination), ao(&a.source)).to_uppercase_first(),
        Instruction::BinaryLogic(b) => format!(
            "{:?} {} {}",
            b.operator,
            show_mref(&b.destination),
            match &b.source {
                BO::LiteralInteger(v) => v.to_string(),
                BO::MemoryReference(m) => show_mref(m),
            }
        )
        .to_uppercase_first(),
        Instruction::UnaryLogic(u) => format!("{:?} {}", u.operator, show_mref(&u.operand)).to_uppercase_first(),
        Instruction::Move(m) => format!("MOVE {} {}", show_mref(&m.destination), ao(&m.source)),
        Instruction::Exchange(e) => format!("EXCHANGE {} {}", show_mref(&e.left), show_mref(&e.right)),
        Instruction::Convert(c) => format!("CONVERT {} {}", show_mref(&c.destination), show_mref(&c.source)),
        Instruction::Comparison(c) => format!(
            "{:?} {} {} {}",
            c.operator,
            show_mref(&c.destination),
            show_mref(&c.lhs),
            match &c.rhs {
                CO::LiteralInteger(v) => v.to_string(),
                CO::LiteralReal(v) => format!("{v:?}"),
                CO::MemoryReference(m) => show_mref(m),
            }
        )
        .to_uppercase_first(),
        Instruction::Load(l) => format!("LOAD {} {} {}", show_mref(&l.destination), l.source, show_mref(&l.offset)),
        Instruction::Store(s) => format!("STORE {} {} {}", s.destination, show_mref(&s.offset), ao(&s.source)),
        Instruction::SetFrequency(s) => format!("SET-FREQUENCY {} {}", show_frame(&s.frame), show_expr(&s.frequency)),
        Instruction::SetPhase(s) => format!("SET-PHASE {} {}", show_frame(&s.frame), show_expr(&s.phase)),
        Instruction::SetScale(s) => format!("SET-SCALE {} {}", show_frame(&s.frame), show_expr(&s.scale)),
        Instruction::ShiftFrequency(s) => format!("SHIFT-FREQUENCY {} {}", show_frame(&s.frame), show_expr(&s.frequency)),
        Instruction::ShiftPhase(s) => format!("SHIFT-PHASE {} {}", show_frame(&s.frame), show_expr(&s.phase)),
        Instruction::SwapPhases(s) => format!("SWAP-PHASES {} {}", show_frame(&s.frame_1), show_frame(&s.frame_2)),
        Instruction::Gate(g) => {
            let mods: String = g.modifiers.iter().map(|m| format!("{m:?} ").to_uppercase()).collect();
            format!("{mods}{}{} {}", g.name, es(&g.parameters), qs(&g.qubits))
        }
        Instruction::Measurement(m) => match &m.target {
            Some(t) => format!("MEASURE {} {}", show_qubit(&m.qubit), show_mref(t)),
            None => format!("MEASURE {}", show_qubit(&m.qubit)),
        },
        Instruction::Reset(r) => match &r.qubit {
            Some(q) => format!("RESET {}", show_qubit(q)),
            None => "RESET".to_string(),
        },
        Instruction::Delay(d) => format!(
            "DELAY {} {}{}",
            qs(&d.qubits),
            d.frame_names.iter().map(|n| format!("\"{n}\" ")).collect::<String>(),
            show_expr(&d.duration)
        ),
        Instruction::Fence(f) => format!("FENCE {}", qs(&f.qubits)),
        Instruction::Pulse(p) => format!(
            "{}PULSE {} {}",
            if p.blocking { "" } else { "NONBLOCKING " },
            show_frame(&p.frame),
            wf(&p.waveform)
        ),
        Instruction::Capture(c) => format!(
            "{}CAPTURE {} {} {}",
            if c.blocking { "" } else { "NONBLOCKING " },
            show_frame(&c.frame),
            wf(&c.waveform),
            show_mref(&c.memory_reference)
        ),
        Instruction::RawCapture(c) => format!(
            "{}RAW-CAPTURE {} {} {}",
            if c.blocking { "" } else { "NONBLOCKING " },
            show_frame(&c.frame),
            show_expr(&c.duration),
            show_mref(&c.memory_reference)
        ),
        Instruction::Jump(j) => format!("JUMP {}", target(&j.target)),
        Instruction::JumpWhen(j) => format!("JUMP-WHEN {} {}", target(&j.target), show_mref(&j.condition)),
        Instruction::JumpUnless(j) => format!("JUMP-UNLESS {} {}", target(&j.target), show_mref(&j.condition)),
        Instruction::Label(l) => format!("LABEL {}", target(&l.target)),
        Instruction::Halt() => "HALT".to_string(),
        Instruction::Wait() => "WAIT".to_string(),
        Instruction::Nop() => "NOP".to_string(),
        Instruction::Include(inc) => format!("INCLUDE \"{}\"", inc.filename),
        Instruction::Pragma(p) => format!(
            "PRAGMA {}{}{}",
            p.name,
            p.arguments
                .iter()
                .map(|a| match a {
                    PragmaArgument::Identifier(s) => format!(" {s}"),
                    PragmaArgument::Integer(v) => format!(" {v}"),
                })
                .collect::<String>(),
            p.data.as_ref().map(|d| format!(" \"{d}\"")).unwrap_or_default()
        ),
        Instruction::Declaration(d) => format!(
            "DECLARE {} {:?}[{}]{}",
            d.name,
            d.size.data_type,
            d.size.length,
            d.sharing.as_ref().map(|s| format!(" SHARING {}", s.name)).unwrap_or_default()
        ),
        Instruction::Call(c) => format!(
            "CALL {}{}",
            c.name,
            c.arguments
                .iter()
                .map(|a| match a {
                    UA::Identifier(s) => format!(" {s}"),
                    UA::MemoryReference(m) => format!(" {}", show_mref(m)),
                    UA::Immediate(v) => format!(" <{}+{}i>", v.re, v.im),
                })
                .collect::<String>()
        ),
        Instruction::FrameDefinition(f) => format!(
            "DEFFRAME {}: {}",
            show_frame(&f.identifier),
            f.attributes
                .iter()
                .map(|(k, v)| match v {
                    quil_rs::instruction::AttributeValue::String(s) => format!("{k}: \"{s}\""),
                    quil_rs::instruction::AttributeValue::Expression(e) => format!("{k}: {}", show_expr(e)),
                })
                .collect::<Vec<_>>()
                .join(" | ")
        ),
        Instruction::CalibrationDefinition(c) => format!(
            "DEFCAL {}{} {}: {}",
            c.identifier.name,
            es(&c.identifier.parameters),
            qs(&c.identifier.qubits),
            show_block(&c.instructions)
        ),
        Instruction::MeasureCalibrationDefinition(c) => format!(
            "DEFCAL MEASURE {} {}: {}",
            show_qubit(&c.identifier.qubit),
            c.identifier.target.clone().unwrap_or_default(),
            show_block(&c.instructions)
        ),
        Instruction::CircuitDefinition(c) => format!(
            "DEFCIRCUIT {}({}) {}: {}",
            c.name,
            c.parameters.join(", "),
            c.qubit_variables.join(" "),
            show_block(&c.instructions)
        ),
        Instruction::GateDefinition(g) => match &g.specification {
            GateSpecification::Matrix(rows) => format!(
                "DEFGATE {}({}) AS MATRIX: {}",
                g.name,
                g.parameters.join(", "),
                rows.iter()
                    .map(|r| r.iter().map(show_expr).collect::<Vec<_>>().join(", "))
                    .collect::<Vec<_>>()
                    .join(" | ")
            ),
            other => format!("DEFGATE {} {:?}", g.name, other),
        },
        Instruction::WaveformDefinition(w) => format!(
            "DEFWAVEFORM {}({}): {}",
            w.name,
            w.definition.parameters.join(", "),
            w.definition.matrix.iter().map(show_expr).collect::<Vec<_>>().join(", ")
        ),
    }
}

/// `Add a b` -> `ADD a b` (operator names come from `Debug` of the operator enums).
trait UppercaseFirstWord {
    fn to_uppercase_first(self) -> String;
}
impl UppercaseFirstWord for String {
    fn to_uppercase_first(self) -> String {
        // operator enum names -> Quil mnemonics
        let mnemonic = |head: &str| -> String {
            match head {
                "Subtract" => "SUB".into(),
                "Multiply" => "MUL".into(),
                "Divide" => "DIV".into(),
                "Equal" => "EQ".into(),
                "GreaterThanOrEqual" => "GE".into(),
                "GreaterThan" => "GT".into(),
                "LessThanOrEqual" => "LE".into(),
                "LessThan" => "LT".into(),
                other => other.to_uppercase(),
            }
        };
        match self.split_once(' ') {
            Some((head, rest)) => format!("{} {rest}", mnemonic(head)),
            None => mnemonic(&self),
        }
    }
}

/// Pick one of a few string constants.
pub fn pick_str<'a>(rng: &mut Rng, xs: &[&'a str]) -> &'a str {
    xs[rng.below(xs.len())]
}
