//! Case descriptions for C14 / C15: a gate application (name, modifier stack, parameter forms,
//! qubits) that can be turned into (a) a quil-rs `Gate` through the public constructors, (b) Quil
//! text for the witness (formatted here, not by quil-rs), and helpers to read a quil-rs matrix
//! into the model's `Mat`.

use crate::core::Rng;
use crate::model::numeric_gates::{gate_shape, param_count, qubit_count, Mat, Mod};
use num_complex::Complex64;
use quil_rs::expression::Expression;
use quil_rs::instruction::{Gate, GateModifier, Qubit};
use std::f64::consts::PI;

/// How a constant real parameter is presented to the library.
#[derive(Clone, Copy, Debug, PartialEq)]
pub enum ParamForm {
    /// `Expression::Number(x + 0i)`
    Num(f64),
    /// `Expression::PiConstant()`
    Pi,
    /// `pi / d` as an infix expression
    PiDiv(f64),
    /// `-(x)` as a prefix expression applied to a number
    Neg(f64),
}

impl ParamForm {
    /// The real value the form denotes (model side).
    pub fn value(self) -> f64 {
        match self {
            ParamForm::Num(x) => x,
            ParamForm::Pi => PI,
            ParamForm::PiDiv(d) => PI / d,
            ParamForm::Neg(x) => -x,
        }
    }
    pub fn expr(self) -> Expression {
        let num = |x: f64| Expression::Number(Complex64::new(x, 0.0));
        match self {
            ParamForm::Num(x) => num(x),
            ParamForm::Pi => Expression::PiConstant(),
            ParamForm::PiDiv(d) => Expression::PiConstant() / num(d),
            ParamForm::Neg(x) => -num(x),
        }
    }
    pub fn text(self) -> String {
        match self {
            ParamForm::Num(x) => format!("{x:?}"),
            ParamForm::Pi => "pi".to_string(),
            ParamForm::PiDiv(d) => format!("pi/{d:?}"),
            ParamForm::Neg(x) => format!("-({x:?})"),
        }
    }
    pub fn kind(self) -> &'static str {
        match self {
            ParamForm::Num(_) => "number",
            ParamForm::Pi => "pi",
            ParamForm::PiDiv(_) => "pi-div",
            ParamForm::Neg(_) => "prefix-minus",
        }
    }
}

/// One gate application.
#[derive(Clone, Debug, PartialEq)]
pub struct GateCase {
    pub name: &'static str,
    /// outermost first, as written in Quil
    pub mods: Vec<Mod>,
    pub params: Vec<ParamForm>,
    pub qubits: Vec<usize>,
}

fn to_modifier(m: Mod) -> GateModifier {
    match m {
        Mod::Dagger => GateModifier::Dagger,
        Mod::Controlled => GateModifier::Controlled,
        Mod::Forked => GateModifier::Forked,
    }
}

impl GateCase {
    /// Quil text of the application (model-side formatting).
    pub fn text(&self) -> String {
        let mut s = String::new();
        for m in &self.mods {
            s.push_str(m.word());
            s.push(' ');
        }
        s.push_str(self.name);
        if !self.params.is_empty() {
            s.push('(');
            s.push_str(&self.params.iter().map(|p| p.text()).collect::<Vec<_>>().join(", "));
            s.push(')');
        }
        for q in &self.qubits {
            s.push_str(&format!(" {q}"));
        }
        s
    }

    pub fn param_values(&self) -> Vec<f64> {
        self.params.iter().map(|p| p.value()).collect()
    }

    /// Build the gate directly: all modifiers, parameters and qubits handed to `Gate::new`.
    pub fn build_direct(&self) -> Result<Gate, String> {
        Gate::new(
            self.name,
            self.params.iter().map(|p| p.expr()).collect(),
            self.qubits.iter().map(|q| Qubit::Fixed(*q as u64)).collect(),
            self.mods.iter().map(|m| to_modifier(*m)).collect(),
        )
        .map_err(|e| format!("{e:?}"))
    }

    /// Build the same gate with the `dagger` / `controlled` / `forked` builders, innermost
    /// modifier first.  The parameter list of a FORKED gate is `first half ++ second half`, so the
    /// builder for the outermost FORKED receives the second half as the alternate parameters, and
    /// recursively so for inner ones: the base gate is created with the FIRST leaf's parameters
    /// and every FORKED (innermost first) appends the block of alternates that follows.
    pub fn build_with_builders(&self) -> Result<Gate, String> {
        let (base_k, base_p) = gate_shape(self.name).ok_or("unknown gate")?;
        let n_lead = self.qubits.len() - base_k;
        let exprs: Vec<Expression> = self.params.iter().map(|p| p.expr()).collect();
        let mut gate = Gate::new(
            self.name,
            exprs[..base_p].to_vec(),
            self.qubits[n_lead..].iter().map(|q| Qubit::Fixed(*q as u64)).collect(),
            vec![],
        )
        .map_err(|e| format!("{e:?}"))?;
        // leading qubits are consumed outermost-first, so the innermost qubit-taking modifier owns
        // the LAST leading qubit
        let mut lead = n_lead;
        let mut have = base_p;
        for m in self.mods.iter().rev() {
            match m {
                Mod::Dagger => gate = gate.dagger(),
                Mod::Controlled => {
                    lead -= 1;
                    gate = gate.controlled(Qubit::Fixed(self.qubits[lead] as u64));
                }
                Mod::Forked => {
                    lead -= 1;
                    let alt = exprs[have..2 * have].to_vec();
                    have *= 2;
                    gate = gate
                        .forked(Qubit::Fixed(self.qubits[lead] as u64), alt)
                        .map_err(|e| format!("{e:?}"))?;
                }
            }
        }
        Ok(gate)
    }

    pub fn expected_qubits(&self) -> Option<usize> {
        gate_shape(self.name).map(|(k, _)| qubit_count(k, &self.mods))
    }
    pub fn expected_params(&self) -> Option<usize> {
        gate_shape(self.name).map(|(_, p)| param_count(p, &self.mods))
    }
}

/// Copy a quil-rs matrix into the model's matrix type (`None` if it is not square).
pub fn to_mat(a: &ndarray::Array2<Complex64>) -> Option<Mat> {
    let (r, c) = a.dim();
    if r != c {
        return None;
    }
    Some(Mat::from_fn(r, |i, j| a[[i, j]]))
}

/// A random injective placement of `k` qubits into `0..n`.
pub fn random_placement(rng: &mut Rng, k: usize, n: usize) -> Vec<usize> {
    let mut all: Vec<usize> = (0..n).collect();
    rng.shuffle(&mut all);
    all.truncate(k);
    all
}

/// A random real angle: half of the draws in [-2 pi, 2 pi], the rest several turns out
/// ([-8 pi, 8 pi]), exact multiples of pi/2 up to +-8 pi, magnitudes up to 1000, and tiny angles
/// (the statement draws parameters from the reals, not from one turn).
pub fn random_angle(rng: &mut Rng) -> f64 {
    let unit = rng.f64() * 2.0 - 1.0;
    match rng.below(10) {
        0..=4 => unit * 2.0 * PI,
        5..=6 => unit * 8.0 * PI,
        7 => (rng.range(-16, 16) as f64) * PI / 2.0,
        8 => unit * 1000.0,
        _ => unit * 1e-3 * 10f64.powi(-(rng.below(7) as i32)),
    }
}

/// All modifier stacks of depth `0..=max_depth` over {DAGGER, CONTROLLED, FORKED}.
pub fn all_stacks(max_depth: usize) -> Vec<Vec<Mod>> {
    let mut out: Vec<Vec<Mod>> = vec![vec![]];
    let mut frontier: Vec<Vec<Mod>> = vec![vec![]];
    for _ in 0..max_depth {
        let mut next = Vec::new();
        for s in &frontier {
            for m in [Mod::Dagger, Mod::Controlled, Mod::Forked] {
                let mut t = s.clone();
                t.push(m);
                next.push(t);
            }
        }
        out.extend(next.iter().cloned());
        frontier = next;
    }
    out
}

pub fn stack_letters(mods: &[Mod]) -> String {
    if mods.is_empty() {
        "-".to_string()
    } else {
        mods.iter().map(|m| m.letter()).collect()
    }
}
