//! Builders that turn the harness-side extern model (`model::analysis_extern`) into quil-rs values,
//! and seeded generators of signatures / calls (C27, C31).

use crate::core::Rng;
use crate::gen::analysis_ast::{declare, mref};
use crate::model::analysis_extern::{Arg, Param, ParamTy, Regions, Sig, Ty, TYPES};
use num_complex::Complex64;
use quil_rs::instruction::{
    Call, ExternError, ExternParameter, ExternParameterType, ExternSignature, Instruction, Pragma,
    PragmaArgument, ScalarType, UnresolvedCallArgument, Vector, RESERVED_PRAGMA_EXTERN,
};

pub fn scalar(t: Ty) -> ScalarType {
    match t {
        Ty::Bit => ScalarType::Bit,
        Ty::Integer => ScalarType::Integer,
        Ty::Octet => ScalarType::Octet,
        Ty::Real => ScalarType::Real,
    }
}

pub fn param_type(t: ParamTy) -> ExternParameterType {
    match t {
        ParamTy::Scalar(t) => ExternParameterType::Scalar(scalar(t)),
        ParamTy::Fixed(t, n) => ExternParameterType::FixedLengthVector(Vector {
            data_type: scalar(t),
            length: n,
        }),
        ParamTy::Variable(t) => ExternParameterType::VariableLengthVector(scalar(t)),
    }
}

/// Build the quil-rs signature through the public constructors (`ExternParameter::try_new`
/// validates the parameter name; its verdict defines which names are "valid").
pub fn build_signature(sig: &Sig) -> Result<ExternSignature, ExternError> {
    let mut params = Vec::new();
    for p in &sig.params {
        params.push(ExternParameter::try_new(p.name.clone(), p.mutable, param_type(p.ty))?);
    }
    Ok(ExternSignature::new(sig.ret.map(scalar), params))
}

pub fn extern_pragma(name: &str, signature_text: &str) -> Instruction {
    Instruction::Pragma(Pragma {
        name: RESERVED_PRAGMA_EXTERN.to_string(),
        arguments: vec![PragmaArgument::Identifier(name.to_string())],
        data: Some(signature_text.to_string()),
    })
}

pub fn build_arg(a: &Arg) -> UnresolvedCallArgument {
    match a {
        Arg::Ident(n) => UnresolvedCallArgument::Identifier(n.clone()),
        Arg::Ref(n, i) => UnresolvedCallArgument::MemoryReference(mref(n, *i)),
        Arg::Imm(re, im) => UnresolvedCallArgument::Immediate(Complex64::new(*re, *im)),
    }
}

pub fn build_call(name: &str, args: &[Arg]) -> Call {
    Call {
        name: name.to_string(),
        arguments: args.iter().map(build_arg).collect(),
    }
}

pub fn declarations(regions: &Regions) -> Vec<Instruction> {
    regions
        .iter()
        .map(|(name, (ty, len))| declare(name, scalar(*ty), *len))
        .collect()
}

/// All parameter types over the given fixed lengths: 4 scalar + 4*|lengths| fixed + 4 variable.
pub fn all_param_types(lengths: &[u64]) -> Vec<ParamTy> {
    let mut out = Vec::new();
    for t in TYPES {
        out.push(ParamTy::Scalar(t));
    }
    for t in TYPES {
        for l in lengths {
            out.push(ParamTy::Fixed(t, *l));
        }
    }
    for t in TYPES {
        out.push(ParamTy::Variable(t));
    }
    out
}

pub const PARAM_NAMES: [&str; 8] = ["p0", "arg_1", "x-y", "Foo", "_t", "beta", "q9", "A_b-c"];

pub fn random_signature(rng: &mut Rng, max_arity: usize, lengths: &[u64]) -> Sig {
    let types = all_param_types(lengths);
    loop {
        let ret = if rng.chance(1, 2) { Some(*rng.pick(&TYPES)) } else { None };
        let arity = rng.below(max_arity + 1);
        if ret.is_none() && arity == 0 {
            continue;
        }
        let params = (0..arity)
            .map(|i| Param {
                name: format!("{}{}", rng.pick(&PARAM_NAMES), if rng.chance(1, 2) { i.to_string() } else { String::new() }),
                mutable: rng.chance(1, 2),
                ty: *rng.pick(&types),
            })
            .collect();
        return Sig { ret, params };
    }
}
