//! Shared runtime for all monitors: PRNG, per-shard context (event log, coverage counters,
//! distinct-case accounting, violations), panic capture.

use serde_json::{json, Value};
use std::cell::RefCell;
use std::collections::hash_map::DefaultHasher;
use std::collections::{BTreeMap, HashSet};
use std::fs::{File, OpenOptions};
use std::hash::{Hash, Hasher};
use std::io::{Seek, SeekFrom, Write};
use std::panic::{catch_unwind, AssertUnwindSafe};
use std::path::PathBuf;

#[derive(Clone, Copy, Debug, PartialEq, Eq)]
pub enum Tier {
    Quick,
    Thorough,
}

impl Tier {
    pub fn name(self) -> &'static str {
        match self {
            Tier::Quick => "quick",
            Tier::Thorough => "thorough",
        }
    }
    /// Pick a budget by tier.
    pub fn pick<T>(self, quick: T, thorough: T) -> T {
        match self {
            Tier::Quick => quick,
            Tier::Thorough => thorough,
        }
    }
}

// ---------------------------------------------------------------------------------------------
// PRNG (xoshiro256** seeded through splitmix64); no external crates.

#[derive(Clone, Debug)]
pub struct Rng {
    s: [u64; 4],
}

fn splitmix(x: &mut u64) -> u64 {
    *x = x.wrapping_add(0x9E3779B97F4A7C15);
    let mut z = *x;
    z = (z ^ (z >> 30)).wrapping_mul(0xBF58476D1CE4E5B9);
    z = (z ^ (z >> 27)).wrapping_mul(0x94D049BB133111EB);
    z ^ (z >> 31)
}

impl Rng {
    pub fn new(seed: u64) -> Self {
        let mut x = seed;
        let s = [
            splitmix(&mut x),
            splitmix(&mut x),
            splitmix(&mut x),
            splitmix(&mut x),
        ];
        Rng { s }
    }
    pub fn from_parts(parts: &[u64]) -> Self {
        let mut h = 0xcbf29ce484222325u64;
        for p in parts {
            h ^= *p;
            h = h.wrapping_mul(0x100000001b3);
            let mut t = h;
            h = splitmix(&mut t);
        }
        Rng::new(h)
    }
    pub fn next(&mut self) -> u64 {
        let result = self.s[1].wrapping_mul(5).rotate_left(7).wrapping_mul(9);
        let t = self.s[1] << 17;
        self.s[2] ^= self.s[0];
        self.s[3] ^= self.s[1];
        self.s[1] ^= self.s[2];
        self.s[0] ^= self.s[3];
        self.s[2] ^= t;
        self.s[3] = self.s[3].rotate_left(45);
        result
    }
    /// Uniform in `0..n` (n > 0).
    pub fn below(&mut self, n: usize) -> usize {
        debug_assert!(n > 0);
        (self.next() % (n as u64)) as usize
    }
    /// Uniform in `lo..=hi`.
    pub fn range(&mut self, lo: i64, hi: i64) -> i64 {
        lo + (self.next() % ((hi - lo + 1) as u64)) as i64
    }
    pub fn chance(&mut self, num: u32, den: u32) -> bool {
        (self.next() % den as u64) < num as u64
    }
    pub fn f64(&mut self) -> f64 {
        (self.next() >> 11) as f64 / (1u64 << 53) as f64
    }
    pub fn pick<'a, T>(&mut self, xs: &'a [T]) -> &'a T {
        &xs[self.below(xs.len())]
    }
    pub fn shuffle<T>(&mut self, xs: &mut [T]) {
        for i in (1..xs.len()).rev() {
            let j = self.below(i + 1);
            xs.swap(i, j);
        }
    }
}

pub fn hash_of<T: Hash + ?Sized>(t: &T) -> u64 {
    let mut h = DefaultHasher::new();
    t.hash(&mut h);
    h.finish()
}

// ---------------------------------------------------------------------------------------------
// Panic capture

#[derive(Clone, Debug)]
pub struct PanicInfo {
    pub message: String,
    pub file: String,
    pub line: u32,
}

impl PanicInfo {
    /// Signature: message with digits normalised + source file (no line numbers).
    pub fn signature(&self) -> String {
        let mut msg = String::new();
        let mut last_digit = false;
        // Quoted material (`...`, '...') in a panic message is usually a copy of the input: drop it,
        // so that one panic site gives one signature.
        let mut stripped = String::new();
        let mut quote: Option<char> = None;
        for c in self.message.chars() {
            match quote {
                Some(q) if c == q => {
                    quote = None;
                    stripped.push(c);
                }
                Some(_) => {}
                None => {
                    if c == '`' || c == '\'' {
                        quote = Some(c);
                        stripped.push(c);
                        stripped.push('…');
                    } else {
                        stripped.push(c);
                    }
                }
            }
        }
        for c in stripped.chars().take(120) {
            if c.is_ascii_digit() {
                if !last_digit {
                    msg.push('N');
                }
                last_digit = true;
            } else {
                last_digit = false;
                msg.push(if c == '\n' { ' ' } else { c });
            }
        }
        let file = self
            .file
            .rsplit_once("quil-rs/src/")
            .map(|(_, f)| format!("quil-rs/src/{f}"))
            .unwrap_or_else(|| self.file.clone());
        format!("panic:{file}:{msg}")
    }
    pub fn to_json(&self) -> Value {
        json!({"message": self.message, "file": self.file, "line": self.line})
    }
}

thread_local! {
    static LAST_PANIC: RefCell<Option<PanicInfo>> = const { RefCell::new(None) };
}

pub fn install_panic_hook() {
    std::panic::set_hook(Box::new(|info| {
        let message = if let Some(s) = info.payload().downcast_ref::<&str>() {
            s.to_string()
        } else if let Some(s) = info.payload().downcast_ref::<String>() {
            s.clone()
        } else {
            "<non-string panic payload>".to_string()
        };
        let (file, line) = info
            .location()
            .map(|l| (l.file().to_string(), l.line()))
            .unwrap_or_default();
        LAST_PANIC.with(|p| {
            *p.borrow_mut() = Some(PanicInfo {
                message,
                file,
                line,
            })
        });
    }));
}

/// Run `f`, turning a panic into `Err(PanicInfo)`.
pub fn guarded<T>(f: impl FnOnce() -> T) -> Result<T, PanicInfo> {
    match catch_unwind(AssertUnwindSafe(f)) {
        Ok(v) => Ok(v),
        Err(_) => Err(LAST_PANIC
            .with(|p| p.borrow_mut().take())
            .unwrap_or(PanicInfo {
                message: "<unknown>".into(),
                file: String::new(),
                line: 0,
            })),
    }
}

// ---------------------------------------------------------------------------------------------
// Shard context

pub struct ShardArgs {
    pub prop: String,
    pub tier: Tier,
    pub seed: u64,
    pub shard: usize,
    pub nshards: usize,
    pub workdir: PathBuf,
    /// Skip (do not execute) every case with number <= this (resume after a crash).
    pub resume_after: u64,
    /// Log segment number (incremented on every restart).
    pub segment: u32,
    /// Replay mode: execute only this case number.
    pub only_case: Option<u64>,
}

pub struct Ctx {
    pub prop: String,
    pub tier: Tier,
    pub seed: u64,
    pub shard: usize,
    pub nshards: usize,
    resume_after: u64,
    only_case: Option<u64>,
    case_no: u64,
    cur_file: File,
    log: File,
    pub evaluations: u64,
    skipped_before_crash: u64,
    nontrivial: HashSet<u64>,
    counters: BTreeMap<String, u64>,
    samples: Vec<Value>,
    sample_kinds: HashSet<String>,
    violations: BTreeMap<String, u64>,
    inconclusive: BTreeMap<String, u64>,
    cur_input: String,
    pub verbose: bool,
    workdir: PathBuf,
    segment: u32,
    checkpoints: u32,
}

impl Ctx {
    pub fn new(a: &ShardArgs) -> std::io::Result<Self> {
        std::fs::create_dir_all(&a.workdir)?;
        let cur_file = OpenOptions::new()
            .create(true)
            .write(true)
            .truncate(true)
            .open(a.workdir.join(format!("shard-{}.cur", a.shard)))?;
        let log = OpenOptions::new()
            .create(true)
            .write(true)
            .truncate(true)
            .open(a.workdir.join(format!("shard-{}.seg{}.jsonl", a.shard, a.segment)))?;
        Ok(Ctx {
            prop: a.prop.clone(),
            tier: a.tier,
            seed: a.seed,
            shard: a.shard,
            nshards: a.nshards,
            resume_after: a.resume_after,
            only_case: a.only_case,
            case_no: 0,
            cur_file,
            log,
            evaluations: 0,
            skipped_before_crash: 0,
            nontrivial: HashSet::new(),
            counters: BTreeMap::new(),
            samples: Vec::new(),
            sample_kinds: HashSet::new(),
            violations: BTreeMap::new(),
            inconclusive: BTreeMap::new(),
            cur_input: String::new(),
            verbose: a.only_case.is_some(),
            workdir: a.workdir.clone(),
            segment: a.segment,
            checkpoints: 0,
        })
    }

    /// A PRNG for this (property, seed, shard, stream).
    pub fn rng(&self, stream: u64) -> Rng {
        Rng::from_parts(&[hash_of(&self.prop), self.seed, self.shard as u64, stream])
    }

    /// A PRNG shared by all shards (for workloads partitioned by index).
    pub fn global_rng(&self, stream: u64) -> Rng {
        Rng::from_parts(&[hash_of(&self.prop), self.seed, 0xFFFF, stream])
    }

    /// Whether index `i` of an enumerated space belongs to this shard.
    pub fn mine(&self, i: u64) -> bool {
        (i % self.nshards as u64) as usize == self.shard
    }

    /// Per-shard share of a total budget.
    pub fn share(&self, total: u64) -> u64 {
        total.div_ceil(self.nshards as u64)
    }

    /// Announce the next case (already generated).  Returns `false` if the case must not be
    /// executed (already executed before a crash, or not the one being replayed).
    pub fn begin(&mut self, input: &str) -> bool {
        self.case_no += 1;
        if let Some(only) = self.only_case {
            if self.case_no != only {
                return false;
            }
        } else if self.case_no <= self.resume_after {
            self.skipped_before_crash += 1;
            return false;
        }
        self.cur_input.clear();
        self.cur_input.push_str(input);
        // Record which case is in flight, so the supervisor can attribute a process death.
        let rec = format!("{}\n{}", self.case_no, input);
        let _ = self.cur_file.seek(SeekFrom::Start(0));
        let _ = self.cur_file.write_all(rec.as_bytes());
        let _ = self.cur_file.set_len(rec.len() as u64);
        self.evaluations += 1;
        if self.verbose {
            println!("case {} input: {}", self.case_no, input);
        }
        true
    }

    pub fn done(&self) -> bool {
        matches!(self.only_case, Some(only) if self.case_no >= only)
    }

    pub fn has_violations(&self) -> bool {
        !self.violations.is_empty()
    }

    pub fn case_no(&self) -> u64 {
        self.case_no
    }

    pub fn count(&mut self, key: &str) {
        *self.counters.entry(key.to_string()).or_insert(0) += 1;
    }

    pub fn count_n(&mut self, key: &str, n: u64) {
        *self.counters.entry(key.to_string()).or_insert(0) += n;
    }

    pub fn max(&mut self, key: &str, v: u64) {
        let e = self.counters.entry(format!("max:{key}")).or_insert(0);
        *e = (*e).max(v);
    }

    /// Mark the current case as non-trivial; `key` identifies it for distinctness.
    pub fn nontrivial<K: Hash + ?Sized>(&mut self, key: &K) {
        self.nontrivial.insert(hash_of(key));
    }

    /// Mark the current case (by its announced input) as non-trivial.
    pub fn nontrivial_input(&mut self) {
        let h = hash_of(&self.cur_input);
        self.nontrivial.insert(h);
    }

    pub fn inconclusive(&mut self, reason: &str) {
        *self.inconclusive.entry(reason.to_string()).or_insert(0) += 1;
        if self.verbose {
            println!("  inconclusive: {reason}");
        }
    }

    /// Keep at most a handful of samples, at most two per kind.
    pub fn sample(&mut self, kind: &str, v: Value) {
        if self.samples.len() >= 8 {
            return;
        }
        let n = self
            .sample_kinds
            .iter()
            .filter(|k| k.starts_with(&format!("{kind}#")))
            .count();
        if n >= 2 {
            return;
        }
        self.sample_kinds.insert(format!("{kind}#{n}"));
        self.samples.push(json!({"kind": kind, "case": v}));
    }

    /// Report a violation of the property on the current case.
    pub fn violation(&mut self, signature: &str, detail: Value) {
        let n = self.violations.entry(signature.to_string()).or_insert(0);
        *n += 1;
        if self.verbose {
            println!("  VIOLATED signature={signature}\n  detail: {detail}");
        }
        // Only the first few witnesses per signature are logged in full.
        if *n <= 3 {
            let rec = json!({
                "type": "violation",
                "signature": signature,
                "case_no": self.case_no,
                "shard": self.shard,
                "input": self.cur_input,
                "detail": detail,
            });
            let _ = writeln!(self.log, "{rec}");
            let _ = self.log.flush();
        }
    }

    /// Flush everything observed so far as a partial summary and start counting afresh.  Call it
    /// before a phase whose cases may kill the process, so that a death loses only that phase's
    /// counters (violations are logged immediately in any case).
    pub fn checkpoint(&mut self) {
        if self.only_case.is_some() {
            return;
        }
        self.checkpoints += 1;
        let mut hashes: Vec<u64> = self.nontrivial.drain().collect();
        hashes.sort_unstable();
        let mut bytes = Vec::with_capacity(hashes.len() * 8);
        for h in &hashes {
            bytes.extend_from_slice(&h.to_le_bytes());
        }
        let _ = std::fs::write(
            self.workdir.join(format!(
                "shard-{}.seg{}.ck{}.hashes",
                self.shard, self.segment, self.checkpoints
            )),
            bytes,
        );
        let rec = json!({
            "type": "summary",
            "partial": true,
            "shard": self.shard,
            "evaluations": self.evaluations,
            "skipped_before_crash": self.skipped_before_crash,
            "cases_generated": self.case_no,
            "counters": self.counters,
            "samples": self.samples,
            "violation_counts": self.violations,
            "inconclusive": self.inconclusive,
        });
        let _ = writeln!(self.log, "{rec}");
        let _ = self.log.flush();
        self.evaluations = 0;
        self.skipped_before_crash = 0;
        self.counters.clear();
        self.samples.clear();
        self.violations.clear();
        self.inconclusive.clear();
    }

    /// Write the end-of-shard summary.
    pub fn finish(mut self) -> std::io::Result<()> {
        // distinct non-trivial hashes go to a binary side file for cross-shard union
        let mut hashes: Vec<u64> = self.nontrivial.iter().copied().collect();
        hashes.sort_unstable();
        let mut bytes = Vec::with_capacity(hashes.len() * 8);
        for h in &hashes {
            bytes.extend_from_slice(&h.to_le_bytes());
        }
        std::fs::write(
            self.workdir
                .join(format!("shard-{}.seg{}.hashes", self.shard, self.segment)),
            bytes,
        )?;
        let rec = json!({
            "type": "summary",
            "shard": self.shard,
            "evaluations": self.evaluations,
            "skipped_before_crash": self.skipped_before_crash,
            "cases_generated": self.case_no,
            "counters": self.counters,
            "samples": self.samples,
            "violation_counts": self.violations,
            "inconclusive": self.inconclusive,
        });
        writeln!(self.log, "{rec}")?;
        self.log.flush()
    }
}

/// Truncate a string for logs.
pub fn clip(s: &str, n: usize) -> String {
    if s.len() <= n {
        s.to_string()
    } else {
        let mut end = n;
        while !s.is_char_boundary(end) {
            end -= 1;
        }
        format!("{}…[{} bytes]", &s[..end], s.len())
    }
}
