//! `monitor` — runtime-monitoring harness for quil-rs.
//!
//!   monitor run <Cxx> [--tier quick|thorough] [--shards N] [--replay <file>]
//!   monitor shard <Cxx> --tier .. --seed .. --shard i --nshards n --workdir d [--resume-after k] [--segment g] [--only-case k]

mod core;
mod gen;
mod model;
mod props;
mod sup;

use crate::core::{Ctx, ShardArgs, Tier};
use std::path::PathBuf;

fn arg_value(args: &[String], name: &str) -> Option<String> {
    args.iter()
        .position(|a| a == name)
        .and_then(|i| args.get(i + 1).cloned())
}

fn parse_tier(s: &str) -> Tier {
    match s {
        "thorough" => Tier::Thorough,
        _ => Tier::Quick,
    }
}

fn main() {
    let args: Vec<String> = std::env::args().collect();
    if args.len() < 3 {
        eprintln!("usage: monitor run|shard <property> ...");
        std::process::exit(2);
    }
    let prop = args[2].clone();
    match args[1].as_str() {
        "run" => {
            let verif_root = std::env::var("VERIF_ROOT")
                .map(PathBuf::from)
                .unwrap_or_else(|_| PathBuf::from("/verif"));
            if let Some(file) = arg_value(&args, "--replay") {
                std::process::exit(sup::replay(&verif_root, &PathBuf::from(file)));
            }
            let tier = arg_value(&args, "--tier")
                .or_else(|| std::env::var("VERIF_TIER").ok())
                .map(|t| parse_tier(&t))
                .unwrap_or(Tier::Quick);
            let seed = std::env::var("VERIF_SEED")
                .ok()
                .and_then(|s| s.trim().parse::<i64>().ok())
                .map(|s| s as u64)
                .unwrap_or(0);
            let nshards = arg_value(&args, "--shards")
                .and_then(|s| s.parse().ok())
                .unwrap_or_else(|| {
                    std::thread::available_parallelism()
                        .map(|n| n.get())
                        .unwrap_or(8)
                        .clamp(1, 16)
                });
            let code = sup::run(sup::RunArgs {
                prop,
                tier,
                seed,
                nshards,
                verif_root,
            });
            std::process::exit(code);
        }
        "shard" => {
            let Some(info) = props::lookup(&prop) else {
                eprintln!("unknown property {prop}");
                std::process::exit(2);
            };
            let a = ShardArgs {
                prop: prop.clone(),
                tier: parse_tier(&arg_value(&args, "--tier").unwrap_or_default()),
                seed: arg_value(&args, "--seed")
                    .and_then(|s| s.parse().ok())
                    .unwrap_or(0),
                shard: arg_value(&args, "--shard")
                    .and_then(|s| s.parse().ok())
                    .unwrap_or(0),
                nshards: arg_value(&args, "--nshards")
                    .and_then(|s| s.parse().ok())
                    .unwrap_or(1),
                workdir: PathBuf::from(
                    arg_value(&args, "--workdir").unwrap_or_else(|| "/verif/.work/adhoc".into()),
                ),
                resume_after: arg_value(&args, "--resume-after")
                    .and_then(|s| s.parse().ok())
                    .unwrap_or(0),
                segment: arg_value(&args, "--segment")
                    .and_then(|s| s.parse().ok())
                    .unwrap_or(0),
                only_case: arg_value(&args, "--only-case").and_then(|s| s.parse().ok()),
            };
            core::install_panic_hook();
            let mut ctx = match Ctx::new(&a) {
                Ok(c) => c,
                Err(e) => {
                    eprintln!("cannot open shard files: {e}");
                    std::process::exit(2);
                }
            };
            (info.run)(&mut ctx);
            let violated = ctx.has_violations();
            let replaying = a.only_case.is_some();
            if let Err(e) = ctx.finish() {
                eprintln!("cannot write summary: {e}");
                std::process::exit(2);
            }
            std::process::exit(if replaying && violated { 1 } else { 0 });
        }
        other => {
            eprintln!("unknown subcommand {other}");
            std::process::exit(2);
        }
    }
}
