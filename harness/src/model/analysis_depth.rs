//! Reference model for C29: gate depth = the largest number of qualifying gates along any chain.
//!
//! A chain is a sequence of instructions in program order in which consecutive members share a
//! qubit and no instruction on that qubit lies between them.  The predecessor of instruction `i`
//! on qubit `q` is therefore the latest earlier instruction acting on `q`, and the best chain
//! ending in `i` satisfies  d(i) = w(i) + max over q in qubits(i) of d(prev_q(i))  (0 when there is
//! no predecessor), with w(i) = 1 iff `i` is a gate on at least `k` qubits.  Depth = max d(i).

use std::collections::HashMap;

/// One instruction, abstractly.
#[derive(Clone, Debug)]
pub struct Op {
    /// Qubits the instruction acts on (distinct).
    pub qubits: Vec<u64>,
    /// Whether it is a gate application (only gates can count towards the depth).
    pub is_gate: bool,
}

pub fn gate_depth(ops: &[Op], k: usize) -> usize {
    let mut last_on_qubit: HashMap<u64, usize> = HashMap::new(); // qubit -> d(latest instruction on it)
    let mut best = 0usize;
    for op in ops {
        let w = usize::from(op.is_gate && op.qubits.len() >= k);
        let before = op
            .qubits
            .iter()
            .filter_map(|q| last_on_qubit.get(q).copied())
            .max()
            .unwrap_or(0);
        let d = w + before;
        for q in &op.qubits {
            last_on_qubit.insert(*q, d);
        }
        best = best.max(d);
    }
    best
}

/// Whether two gates of the block share a qubit (non-triviality rule of C29).
pub fn has_two_gates_sharing_a_qubit(ops: &[Op]) -> bool {
    let gates: Vec<&Op> = ops.iter().filter(|o| o.is_gate).collect();
    for (i, a) in gates.iter().enumerate() {
        for b in &gates[i + 1..] {
            if a.qubits.iter().any(|q| b.qubits.contains(q)) {
                return true;
            }
        }
    }
    false
}
