//! Independent reference evaluator for Quil expressions + the numeric conditioning filter of
//! DESIGN §3.3 (group `expr`: C03, C12, C13; usable by C04/C14/C15 as well).
//!
//! Nothing here calls quil-rs.  Complex arithmetic is written out by hand on (re, im) pairs
//! (`num_complex::Complex64` is used only as a container and for `+`, `-`, unary `-`).  The
//! functions follow the mathematical definitions with principal branches:
//!   x^y = exp(y ln x) (1 when y = 0; 0 when x = 0 and Re y > 0),  cis z = cos z + i sin z.
//!
//! The filter answers one question for a pair (tree, assignment): *is it meaningful to compare two
//! floating-point evaluations of this expression with a tolerance?*  It is not when
//!  * the assignment leaves a name unbound (`Unbound`),
//!  * the reference value or any intermediate node value is not finite, any intermediate has a
//!    huge magnitude (reassociation may overflow), or - when a zero band is configured, for the
//!    simplifier which treats |z| < 1e-10 as zero by design - any intermediate lies in the open band
//!    (0, band) (`IllDefined`),
//!  * K = 16 re-evaluations with a small relative and absolute complex perturbation injected at
//!    every node spread by more than tol/10 (`IllConditioned`): this is what removes signed-zero
//!    branch-cut artefacts (sqrt(-1+0i) = i, sqrt(-1-0i) = -i), division by cos(pi/2), catastrophic
//!    cancellation.  Operands of `sqrt` / bases of `^` that lie on the negative real axis are
//!    detected directly (`cut_check`), because sign-of-zero effects are discrete.
//! Only `Good` points may be asserted.

use crate::core::Rng;
use crate::gen::expr_gen::{Func, InOp, PreOp, Tree};
use num_complex::Complex64;
use std::collections::HashMap;

pub type C = Complex64;

#[inline]
pub fn c(re: f64, im: f64) -> C {
    Complex64::new(re, im)
}

#[inline]
fn finite(z: C) -> bool {
    z.re.is_finite() && z.im.is_finite()
}

#[inline]
pub fn abs(z: C) -> f64 {
    z.re.hypot(z.im)
}

fn mul(a: C, b: C) -> C {
    c(a.re * b.re - a.im * b.im, a.re * b.im + a.im * b.re)
}

fn div(a: C, b: C) -> C {
    let d = b.re * b.re + b.im * b.im;
    c((a.re * b.re + a.im * b.im) / d, (a.im * b.re - a.re * b.im) / d)
}

fn exp(z: C) -> C {
    let m = z.re.exp();
    if z.im == 0.0 {
        return c(m, 0.0);
    }
    c(m * z.im.cos(), m * z.im.sin())
}

fn ln(z: C) -> C {
    c(abs(z).ln(), z.im.atan2(z.re))
}

fn pow(x: C, y: C) -> C {
    if y.re == 0.0 && y.im == 0.0 {
        return c(1.0, 0.0);
    }
    if x.re == 0.0 && x.im == 0.0 {
        return if y.re > 0.0 {
            c(0.0, 0.0)
        } else {
            c(f64::NAN, f64::NAN)
        };
    }
    exp(mul(y, ln(x)))
}

fn sqrt(z: C) -> C {
    if z.re == 0.0 && z.im == 0.0 {
        return c(0.0, z.im);
    }
    let t = ((abs(z) + z.re.abs()) / 2.0).sqrt();
    if z.re >= 0.0 {
        c(t, z.im / (2.0 * t))
    } else {
        c(z.im.abs() / (2.0 * t), t.copysign(z.im))
    }
}

fn sin(z: C) -> C {
    c(z.re.sin() * z.im.cosh(), z.re.cos() * z.im.sinh())
}

fn cos(z: C) -> C {
    c(z.re.cos() * z.im.cosh(), -(z.re.sin() * z.im.sinh()))
}

fn apply_fun(f: Func, z: C) -> C {
    match f {
        Func::Sin => sin(z),
        Func::Cos => cos(z),
        Func::Exp => exp(z),
        Func::Sqrt => sqrt(z),
        // cos z + i sin z  (written in this form, not exp(iz), so that its floating-point noise
        // for large |Im z| is visible to the perturbation analysis)
        Func::Cis => {
            let (s, k) = (sin(z), cos(z));
            c(k.re - s.im, k.im + s.re)
        }
    }
}

fn apply_infix(a: C, o: InOp, b: C) -> C {
    match o {
        InOp::Plus => a + b,
        InOp::Minus => a - b,
        InOp::Star => mul(a, b),
        InOp::Slash => div(a, b),
        InOp::Caret => pow(a, b),
    }
}

/// An assignment of variables (complex) and memory regions (vectors of reals).
#[derive(Clone, Debug, Default)]
pub struct Env {
    pub vars: Vec<(String, C)>,
    pub mem: Vec<(String, Vec<f64>)>,
}

impl Env {
    pub fn var(&self, n: &str) -> Option<C> {
        self.vars.iter().find(|(k, _)| k == n).map(|(_, v)| *v)
    }
    pub fn cell(&self, n: &str, i: u64) -> Option<f64> {
        self.mem
            .iter()
            .find(|(k, _)| k == n)
            .and_then(|(_, v)| v.get(usize::try_from(i).ok()?).copied())
    }
    /// The maps `Expression::evaluate` takes.
    pub fn var_map(&self) -> HashMap<String, Complex64> {
        self.vars.iter().cloned().collect()
    }
    pub fn mem_map(&self) -> HashMap<String, Vec<f64>> {
        self.mem.iter().cloned().collect()
    }
    pub fn to_json(&self) -> serde_json::Value {
        serde_json::json!({
            "variables": self.vars.iter().map(|(k, v)| (k.clone(), serde_json::json!([v.re, v.im]))).collect::<serde_json::Map<_, _>>(),
            "memory": self.mem.iter().map(|(k, v)| (k.clone(), serde_json::json!(v))).collect::<serde_json::Map<_, _>>(),
        })
    }
}

/// Generic evaluation: `post` sees (and may replace) the value of every node.
fn eval_with(t: &Tree, env: &Env, post: &mut dyn FnMut(C) -> C) -> Option<C> {
    let v = match t {
        Tree::Num(re, im) => c(*re, *im),
        Tree::Pi => c(std::f64::consts::PI, 0.0),
        Tree::Var(n) => env.var(n)?,
        Tree::Mem(n, i) => c(env.cell(n, *i)?, 0.0),
        Tree::Fun(f, a) => apply_fun(*f, eval_with(a, env, post)?),
        Tree::Pre(o, a) => {
            let v = eval_with(a, env, post)?;
            if *o == PreOp::Minus {
                -v
            } else {
                v
            }
        }
        Tree::Inf(l, o, r) => {
            let a = eval_with(l, env, post)?;
            let b = eval_with(r, env, post)?;
            apply_infix(a, *o, b)
        }
    };
    Some(post(v))
}

/// Does the exact evaluation feed `sqrt` or the base of `^` (non-integer exponent) a value that
/// sits on the branch cut of those functions - the negative real axis, up to the size of the
/// injected perturbations?  There the result depends on the *sign of a zero* imaginary part
/// (sqrt(-1+0i) = i, sqrt(-1-0i) = -i), a discrete effect: with several such operands in one
/// expression the result depends on the parity of the signs, which few random perturbations can
/// miss.  So it is detected directly, together with underflow to an exact zero.
fn cut_check(t: &Tree, env: &Env, f: &Filter) -> Option<(C, Hazards)> {
    let on_cut = |z: C| -> bool {
        let m = abs(z);
        z.re <= 0.0 && z.im.abs() <= 100.0 * (f.eta + f.rel * m) && m.is_finite()
    };
    let zero = |z: C| z.re == 0.0 && z.im == 0.0;
    let none = Hazards::default();
    Some(match t {
        Tree::Num(re, im) => (c(*re, *im), none),
        Tree::Pi => (c(std::f64::consts::PI, 0.0), none),
        Tree::Var(n) => (env.var(n)?, none),
        Tree::Mem(n, i) => (c(env.cell(n, *i)?, 0.0), none),
        Tree::Fun(fu, a) => {
            let (v, mut h) = cut_check(a, env, f)?;
            let r = apply_fun(*fu, v);
            h.cut |= *fu == Func::Sqrt && on_cut(v);
            // exp and cis have no zeros: an exact 0 is an underflow
            h.underflow |= matches!(fu, Func::Exp | Func::Cis) && zero(r) && finite(v);
            (r, h)
        }
        Tree::Pre(o, a) => {
            let (v, h) = cut_check(a, env, f)?;
            (if *o == PreOp::Minus { -v } else { v }, h)
        }
        Tree::Inf(l, o, r) => {
            let (a, ha) = cut_check(l, env, f)?;
            let (b, hb) = cut_check(r, env, f)?;
            let v = apply_infix(a, *o, b);
            let integer_exponent = b.im == 0.0 && b.re.fract() == 0.0 && b.re.abs() < 1e6;
            let mut h = Hazards { cut: ha.cut || hb.cut, underflow: ha.underflow || hb.underflow };
            h.cut |= *o == InOp::Caret && !integer_exponent && on_cut(a);
            // a product / quotient / power of non-zero finite operands is never exactly 0
            h.underflow |= matches!(o, InOp::Star | InOp::Slash | InOp::Caret) && zero(v) && !zero(a) && finite(a) && finite(b) && (*o != InOp::Star || !zero(b));
            (v, h)
        }
    })
}

#[derive(Clone, Copy, Debug, Default)]
struct Hazards {
    /// an operand of sqrt / a base of ^ on the negative real axis
    cut: bool,
    /// an intermediate that is exactly 0 although mathematically it cannot be (exp(-800), 1e-200*1e-200):
    /// `evaluate` then takes 0-specific paths (0^0 = 1) that the exact value would not take
    underflow: bool,
}

#[allow(dead_code)]
/// Plain reference value (`None`: a name is unbound / a memory index is out of range).
pub fn eval(t: &Tree, env: &Env) -> Option<C> {
    eval_with(t, env, &mut |v| v)
}

/// Parameters of the conditioning filter.
#[derive(Clone, Copy, Debug)]
pub struct Filter {
    /// Maximal relative perturbation injected at every node.
    pub rel: f64,
    /// Maximal absolute (complex) perturbation injected at every node.
    pub eta: f64,
    /// Relative tolerance of the assertion the caller wants to make; spread must stay <= tol/10.
    pub tol: f64,
    /// Open band (0, band) of intermediate magnitudes that makes a point ill-defined.
    pub zero_band: Option<f64>,
    /// Intermediate magnitudes above this make a point ill-defined (overflow under reassociation).
    pub huge: f64,
}

impl Filter {
    /// C03 / C04: exact literals, differences are signed zeros and O(1) rounding steps.
    pub const ROUNDTRIP: Filter = Filter {
        rel: 1e-13,
        eta: 1e-13,
        tol: 1e-9,
        zero_band: None,
        huge: 1e150,
    };
    /// C12: the simplifier treats |z| < 1e-10 as zero (`is_zero`), eta matches that threshold.
    pub const SIMPLIFY: Filter = Filter {
        rel: 1e-11,
        eta: 1e-10,
        tol: 1e-6,
        zero_band: Some(1e-9),
        huge: 1e100,
    };
}

#[derive(Clone, Debug, PartialEq)]
pub enum Verdict {
    Unbound,
    IllDefined(&'static str),
    IllConditioned { spread: f64 },
    Good { value: C, spread: f64 },
}

impl Verdict {
    pub fn reason(&self) -> &'static str {
        match self {
            Verdict::Unbound => "unbound-name",
            Verdict::IllDefined(r) => r,
            Verdict::IllConditioned { .. } => "ill-conditioned:perturbation-spread",
            Verdict::Good { .. } => "good",
        }
    }
}

/// DESIGN §3.3 asks for K = 8; 16 are used (8 in antithetic pairs + 8 independent) because sign-of-zero
/// sensitivity is a discrete effect that few random draws can miss.
pub const K_PERTURBATIONS: usize = 16;

/// `|a - b| <= tol * max(1, |a|)`, false when either side is not finite.
pub fn close(a: C, b: C, tol: f64) -> bool {
    finite(a) && finite(b) && abs(a - b) <= tol * abs(a).max(1.0)
}

/// Equality of two evaluation results as *values*: numerically equal components, NaN = NaN.
pub fn same_value(a: C, b: C) -> bool {
    let eq = |x: f64, y: f64| x == y || (x.is_nan() && y.is_nan());
    eq(a.re, b.re) && eq(a.im, b.im)
}

/// Run the filter on (tree, assignment).
pub fn assess(t: &Tree, env: &Env, f: &Filter, rng: &mut Rng) -> Verdict {
    let mut nonfinite = false;
    let mut in_band = false;
    let mut too_big = false;
    let exact = eval_with(t, env, &mut |v| {
        if !finite(v) {
            nonfinite = true;
        } else {
            let m = abs(v);
            if let Some(band) = f.zero_band {
                if m > 0.0 && m < band {
                    in_band = true;
                }
            }
            if m > f.huge {
                too_big = true;
            }
        }
        v
    });
    let Some(v0) = exact else {
        return Verdict::Unbound;
    };
    if nonfinite || !finite(v0) {
        return Verdict::IllDefined("ill-defined:non-finite-intermediate");
    }
    if in_band {
        return Verdict::IllDefined("ill-defined:intermediate-in-zero-band");
    }
    if too_big {
        return Verdict::IllDefined("ill-defined:huge-intermediate");
    }
    // K perturbed re-evaluations.  The first half come in antithetic pairs: run 2j uses the
    // perturbations (rho, delta) drawn from a stream, run 2j+1 uses (-rho, -delta) from the same
    // stream, so both signs of every node's imaginary perturbation are always exercised (purely
    // random signs would let a point that is sensitive to the sign of one zero imaginary part -
    // sqrt / ^ on the negative real axis - slip through with probability 2^-K).  The second half
    // are independent draws, which also flip the *parity* of sign combinations that a pair
    // preserves (e.g. a ^ b with a and b both on a branch cut).
    if let Some((_, h)) = cut_check(t, env, f) {
        if h.underflow {
            return Verdict::IllDefined("ill-defined:intermediate-underflows-to-zero");
        }
        if h.cut {
            return Verdict::IllDefined("ill-conditioned:operand-on-branch-cut");
        }
    }
    let mut spread = 0.0f64;
    for k in 0..K_PERTURBATIONS {
        let paired = k < K_PERTURBATIONS / 2;
        let sign = if paired && k % 2 == 1 { -1.0 } else { 1.0 };
        let mut stream = rng.clone();
        let vk = eval_with(t, env, &mut |v| {
            let u = |r: &mut Rng| (r.f64() * 2.0 - 1.0) * std::f64::consts::FRAC_1_SQRT_2 * sign;
            let rho = c(u(&mut stream) * f.rel, u(&mut stream) * f.rel);
            let delta = c(u(&mut stream) * f.eta, u(&mut stream) * f.eta);
            v + mul(v, rho) + delta
        });
        if !paired || k % 2 == 1 {
            *rng = stream; // advance to a fresh stream
        }
        let Some(vk) = vk else {
            return Verdict::Unbound;
        };
        if !finite(vk) {
            return Verdict::IllConditioned { spread: f64::INFINITY };
        }
        spread = spread.max(abs(vk - v0));
    }
    if spread > f.tol / 10.0 * abs(v0).max(1.0) {
        Verdict::IllConditioned { spread }
    } else {
        Verdict::Good { value: v0, spread }
    }
}

// ---------------------------------------------------------------------------------------------
// Generic assignments

const GENERIC: [f64; 24] = [
    0.7390851332, 1.6180339887, 2.2360679775, 0.5772156649, 1.2020569032, 2.6651441427, 0.9159655942,
    1.3247179572, 2.5029078751, 0.3183098862, 1.7724538509, 2.0943951024, 0.6931471806, 1.4142135624,
    2.7182818285, 0.4342944819, 1.1447298858, 2.9955822368, 0.8346268417, 1.9021130326, 2.3025850930,
    0.3678794412, 1.0986122887, 2.4494897428,
];

/// The names every generator of this group uses, bound to generic values in 0.3 .. 3.
/// `which` selects one of several fixed assignments; odd ones give the variables an imaginary part.
pub fn generic_env(which: usize) -> Env {
    let g = |k: usize| GENERIC[(k + 7 * which) % GENERIC.len()];
    let cv = |k: usize| {
        if which % 2 == 1 {
            c(g(k), g(k + 11) - 1.5)
        } else {
            c(g(k), 0.0)
        }
    };
    Env {
        vars: vec![
            ("x".into(), cv(0)),
            ("y".into(), cv(1)),
            ("z".into(), cv(2)),
            ("a-b".into(), cv(3)),
        ],
        mem: vec![
            ("m".into(), vec![g(4), g(5)]),
            ("q".into(), vec![g(6)]),
            ("theta".into(), vec![g(7), g(8), g(9), g(10)]),
            ("ro_1".into(), vec![g(11), g(12), g(13)]),
        ],
    }
}

/// A random assignment of the same names (values in 0.3 .. 3, variables complex half the time).
pub fn random_env(rng: &mut Rng) -> Env {
    let r = |rng: &mut Rng| 0.3 + 2.7 * rng.f64();
    let complex = rng.chance(1, 2);
    let cv = |rng: &mut Rng| {
        if complex {
            c(r(rng), r(rng) - 1.5)
        } else {
            c(r(rng), 0.0)
        }
    };
    Env {
        vars: vec![
            ("x".into(), cv(rng)),
            ("y".into(), cv(rng)),
            ("z".into(), cv(rng)),
            ("a-b".into(), cv(rng)),
        ],
        mem: vec![
            ("m".into(), vec![r(rng), r(rng)]),
            ("q".into(), vec![r(rng)]),
            ("theta".into(), vec![r(rng), r(rng), r(rng), r(rng)]),
            ("ro_1".into(), vec![r(rng), r(rng), r(rng)]),
        ],
    }
}

#[cfg(test)]
mod tests {
    use super::*;
    use crate::gen::expr_gen::{fun, inf, num};

    #[test]
    fn sqrt_of_minus_one_is_ill_conditioned() {
        let t = fun(Func::Sqrt, num(-1.0, 0.0));
        let mut rng = Rng::new(1);
        let v = assess(&t, &generic_env(0), &Filter::ROUNDTRIP, &mut rng);
        println!("{v:?}");
        assert!(!matches!(v, Verdict::Good { .. }));
    }

    #[test]
    fn sqrt_in_sum_with_monitor_seeds() {
        use crate::gen::expr_gen::Tree;
        let t = inf(fun(Func::Sqrt, num(-1.0, 0.0)), InOp::Plus, inf(num(0.0, 2.0), InOp::Star, num(1.0, 0.0)));
        let seed = crate::core::hash_of(&Tree::describe(&t));
        for k in 0..4u64 {
            let mut rng = Rng::from_parts(&[seed, k, 0xC03]);
            let xs: Vec<f64> = (0..6).map(|_| rng.f64()).collect();
            println!("first draws {xs:?}");
            let mut rng = Rng::from_parts(&[seed, k, 0xC03]);
            let v = assess(&t, &generic_env(k as usize), &Filter::ROUNDTRIP, &mut rng);
            println!("{k}: {v:?}");
            assert!(!matches!(v, Verdict::Good { .. }));
        }
    }

    #[test]
    fn nested_power_sign_artefact() {
        use crate::gen::expr_gen::Tree;
        let t = inf(fun(Func::Cis, Tree::Pi), InOp::Caret, inf(num(-1.0, 0.0), InOp::Caret, num(2.5, 0.0)));
        let seed = crate::core::hash_of(&Tree::describe(&t));
        for k in 0..4u64 {
            let mut rng = Rng::from_parts(&[seed, k, 0xC03]);
            let v = assess(&t, &generic_env(k as usize), &Filter::ROUNDTRIP, &mut rng);
            println!("{k}: {v:?}");
            assert!(!matches!(v, Verdict::Good { .. }));
        }
    }

    #[test]
    fn complex_power_is_good() {
        let t = inf(num(1e-7, 0.0), InOp::Caret, num(-1.0, -2.0));
        let mut rng = Rng::new(1);
        let v = assess(&t, &generic_env(0), &Filter::ROUNDTRIP, &mut rng);
        println!("{v:?}");
        // the absolute perturbation 1e-13 is a relative 1e-6 on the leaf 1e-7
        assert!(!matches!(v, Verdict::Good { .. }));
    }
}
