//! Structural walkers over `quil_rs::instruction::Instruction` written from the public type
//! definitions (NOT from the crate's own `get_qubits` / `apply_to_expressions`, which several
//! properties put under test).  Each walker states where qubits / jump targets / expressions /
//! strings live in an instruction, including instructions nested in DEFCAL / DEFCIRCUIT bodies.
//!
//! Used by C04 (placeholder presence, expression blanking), C07 (string positions), C33
//! (interpreter), C34 (placeholder post-conditions).

use quil_rs::expression::Expression;
use quil_rs::instruction::{
    AttributeValue, FrameIdentifier, GateSpecification, Instruction, Qubit, Target,
    WaveformInvocation,
};

/// Variant name of an instruction (stable, used in coverage counters and signatures).
pub fn kind_name(i: &Instruction) -> &'static str {
    match i {
        Instruction::Arithmetic(_) => "Arithmetic",
        Instruction::BinaryLogic(_) => "BinaryLogic",
        Instruction::CalibrationDefinition(_) => "CalibrationDefinition",
        Instruction::Call(_) => "Call",
        Instruction::Capture(_) => "Capture",
        Instruction::CircuitDefinition(_) => "CircuitDefinition",
        Instruction::Convert(_) => "Convert",
        Instruction::Comparison(_) => "Comparison",
        Instruction::Declaration(_) => "Declaration",
        Instruction::Delay(_) => "Delay",
        Instruction::Exchange(_) => "Exchange",
        Instruction::Fence(_) => "Fence",
        Instruction::FrameDefinition(_) => "FrameDefinition",
        Instruction::Gate(_) => "Gate",
        Instruction::GateDefinition(_) => "GateDefinition",
        Instruction::Halt() => "Halt",
        Instruction::Include(_) => "Include",
        Instruction::Jump(_) => "Jump",
        Instruction::JumpUnless(_) => "JumpUnless",
        Instruction::JumpWhen(_) => "JumpWhen",
        Instruction::Label(_) => "Label",
        Instruction::Load(_) => "Load",
        Instruction::MeasureCalibrationDefinition(_) => "MeasureCalibrationDefinition",
        Instruction::Measurement(_) => "Measurement",
        Instruction::Move(_) => "Move",
        Instruction::Nop() => "Nop",
        Instruction::Pragma(_) => "Pragma",
        Instruction::Pulse(_) => "Pulse",
        Instruction::RawCapture(_) => "RawCapture",
        Instruction::Reset(_) => "Reset",
        Instruction::SetFrequency(_) => "SetFrequency",
        Instruction::SetPhase(_) => "SetPhase",
        Instruction::SetScale(_) => "SetScale",
        Instruction::ShiftFrequency(_) => "ShiftFrequency",
        Instruction::ShiftPhase(_) => "ShiftPhase",
        Instruction::Store(_) => "Store",
        Instruction::SwapPhases(_) => "SwapPhases",
        Instruction::UnaryLogic(_) => "UnaryLogic",
        Instruction::WaveformDefinition(_) => "WaveformDefinition",
        Instruction::Wait() => "Wait",
    }
}

/// Instructions nested in the body of a definition (empty slice for everything else).
pub fn nested(i: &Instruction) -> &[Instruction] {
    match i {
        Instruction::CalibrationDefinition(c) => &c.instructions,
        Instruction::MeasureCalibrationDefinition(c) => &c.instructions,
        Instruction::CircuitDefinition(c) => &c.instructions,
        _ => &[],
    }
}

// ---------------------------------------------------------------------------------------------
// Qubits

/// Where a qubit slot sits; lets C34 tell "frame of a SET-*/SHIFT-*/SWAP-PHASES" apart.
#[derive(Clone, Copy, Debug, PartialEq, Eq)]
pub enum QubitPos {
    /// Operand list of Gate / Measurement / Reset / Delay / Fence, or a DEFCAL header.
    Operand,
    /// Frame identifier of PULSE / CAPTURE / RAW-CAPTURE / DEFFRAME.
    PlayFrame,
    /// Frame identifier of SET-FREQUENCY / SET-PHASE / SET-SCALE / SHIFT-FREQUENCY /
    /// SHIFT-PHASE / SWAP-PHASES.
    MutationFrame,
}

/// Visit every qubit slot (mutably), in a fixed documented order (operands left to right,
/// header before body, body instructions in order).
pub fn for_each_qubit_mut(i: &mut Instruction, f: &mut dyn FnMut(&mut Qubit, QubitPos)) {
    fn frame(fr: &mut FrameIdentifier, pos: QubitPos, f: &mut dyn FnMut(&mut Qubit, QubitPos)) {
        for q in fr.qubits.iter_mut() {
            f(q, pos);
        }
    }
    match i {
        Instruction::Gate(g) => g.qubits.iter_mut().for_each(|q| f(q, QubitPos::Operand)),
        Instruction::Measurement(m) => f(&mut m.qubit, QubitPos::Operand),
        Instruction::Reset(r) => {
            if let Some(q) = r.qubit.as_mut() {
                f(q, QubitPos::Operand)
            }
        }
        Instruction::Delay(d) => d.qubits.iter_mut().for_each(|q| f(q, QubitPos::Operand)),
        Instruction::Fence(d) => d.qubits.iter_mut().for_each(|q| f(q, QubitPos::Operand)),
        Instruction::Capture(c) => frame(&mut c.frame, QubitPos::PlayFrame, f),
        Instruction::Pulse(c) => frame(&mut c.frame, QubitPos::PlayFrame, f),
        Instruction::RawCapture(c) => frame(&mut c.frame, QubitPos::PlayFrame, f),
        Instruction::FrameDefinition(c) => frame(&mut c.identifier, QubitPos::PlayFrame, f),
        Instruction::SetFrequency(c) => frame(&mut c.frame, QubitPos::MutationFrame, f),
        Instruction::SetPhase(c) => frame(&mut c.frame, QubitPos::MutationFrame, f),
        Instruction::SetScale(c) => frame(&mut c.frame, QubitPos::MutationFrame, f),
        Instruction::ShiftFrequency(c) => frame(&mut c.frame, QubitPos::MutationFrame, f),
        Instruction::ShiftPhase(c) => frame(&mut c.frame, QubitPos::MutationFrame, f),
        Instruction::SwapPhases(c) => {
            frame(&mut c.frame_1, QubitPos::MutationFrame, f);
            frame(&mut c.frame_2, QubitPos::MutationFrame, f);
        }
        Instruction::CalibrationDefinition(c) => {
            c.identifier.qubits.iter_mut().for_each(|q| f(q, QubitPos::Operand));
            for n in c.instructions.iter_mut() {
                for_each_qubit_mut(n, f);
            }
        }
        Instruction::MeasureCalibrationDefinition(c) => {
            f(&mut c.identifier.qubit, QubitPos::Operand);
            for n in c.instructions.iter_mut() {
                for_each_qubit_mut(n, f);
            }
        }
        Instruction::CircuitDefinition(c) => {
            for n in c.instructions.iter_mut() {
                for_each_qubit_mut(n, f);
            }
        }
        // GateDefinition AS SEQUENCE holds gates whose qubits are validated to be variables and
        // whose fields are not publicly reachable; nothing to visit.
        _ => {}
    }
}

/// Immutable variant (clones the instruction; instructions are small).
pub fn qubits_of(i: &Instruction) -> Vec<(Qubit, QubitPos)> {
    let mut c = i.clone();
    let mut out = Vec::new();
    for_each_qubit_mut(&mut c, &mut |q, p| out.push((q.clone(), p)));
    out
}

// ---------------------------------------------------------------------------------------------
// Targets

pub fn for_each_target_mut(i: &mut Instruction, f: &mut dyn FnMut(&mut Target)) {
    match i {
        Instruction::Label(l) => f(&mut l.target),
        Instruction::Jump(j) => f(&mut j.target),
        Instruction::JumpWhen(j) => f(&mut j.target),
        Instruction::JumpUnless(j) => f(&mut j.target),
        Instruction::CalibrationDefinition(c) => {
            c.instructions.iter_mut().for_each(|n| for_each_target_mut(n, f))
        }
        Instruction::MeasureCalibrationDefinition(c) => {
            c.instructions.iter_mut().for_each(|n| for_each_target_mut(n, f))
        }
        Instruction::CircuitDefinition(c) => {
            c.instructions.iter_mut().for_each(|n| for_each_target_mut(n, f))
        }
        _ => {}
    }
}

pub fn targets_of(i: &Instruction) -> Vec<Target> {
    let mut c = i.clone();
    let mut out = Vec::new();
    for_each_target_mut(&mut c, &mut |t| out.push(t.clone()));
    out
}

/// Does the instruction contain a qubit or label placeholder anywhere?
pub fn has_placeholder(i: &Instruction) -> (bool, bool) {
    let q = qubits_of(i).iter().any(|(q, _)| matches!(q, Qubit::Placeholder(_)));
    let t = targets_of(i).iter().any(|t| matches!(t, Target::Placeholder(_)));
    (q, t)
}

// ---------------------------------------------------------------------------------------------
// Expressions

fn waveform_exprs(w: &mut WaveformInvocation, f: &mut dyn FnMut(&mut Expression)) {
    // IndexMap equality ignores order and the writer sorts by key: visit in key order.
    let mut keys: Vec<String> = w.parameters.keys().cloned().collect();
    keys.sort();
    for k in keys {
        if let Some(e) = w.parameters.get_mut(&k) {
            f(e);
        }
    }
}

/// Visit every expression slot that is reachable through public fields, in a fixed order.
/// (Gate parameters inside `DEFGATE ... AS SEQUENCE` are not publicly reachable.)
pub fn for_each_expr_mut(i: &mut Instruction, f: &mut dyn FnMut(&mut Expression)) {
    match i {
        Instruction::Gate(g) => g.parameters.iter_mut().for_each(f),
        Instruction::CalibrationDefinition(c) => {
            c.identifier.parameters.iter_mut().for_each(&mut *f);
            for n in c.instructions.iter_mut() {
                for_each_expr_mut(n, f);
            }
        }
        Instruction::MeasureCalibrationDefinition(c) => {
            for n in c.instructions.iter_mut() {
                for_each_expr_mut(n, f);
            }
        }
        Instruction::CircuitDefinition(c) => {
            for n in c.instructions.iter_mut() {
                for_each_expr_mut(n, f);
            }
        }
        Instruction::Capture(c) => waveform_exprs(&mut c.waveform, f),
        Instruction::Pulse(c) => waveform_exprs(&mut c.waveform, f),
        Instruction::Delay(d) => f(&mut d.duration),
        Instruction::RawCapture(c) => f(&mut c.duration),
        Instruction::FrameDefinition(d) => {
            let mut keys: Vec<String> = d.attributes.keys().cloned().collect();
            keys.sort();
            for k in keys {
                if let Some(AttributeValue::Expression(e)) = d.attributes.get_mut(&k) {
                    f(e);
                }
            }
        }
        Instruction::SetFrequency(c) => f(&mut c.frequency),
        Instruction::SetPhase(c) => f(&mut c.phase),
        Instruction::SetScale(c) => f(&mut c.scale),
        Instruction::ShiftFrequency(c) => f(&mut c.frequency),
        Instruction::ShiftPhase(c) => f(&mut c.phase),
        Instruction::WaveformDefinition(w) => w.definition.matrix.iter_mut().for_each(f),
        Instruction::GateDefinition(g) => match &mut g.specification {
            GateSpecification::Matrix(rows) => {
                for row in rows.iter_mut() {
                    row.iter_mut().for_each(&mut *f);
                }
            }
            GateSpecification::PauliSum(sum) => {
                for t in sum.terms.iter_mut() {
                    f(&mut t.expression);
                }
            }
            GateSpecification::Permutation(_) | GateSpecification::Sequence(_) => {}
        },
        _ => {}
    }
}

pub fn exprs_of(i: &Instruction) -> Vec<Expression> {
    let mut c = i.clone();
    let mut out = Vec::new();
    for_each_expr_mut(&mut c, &mut |e| out.push(e.clone()));
    out
}

// ---------------------------------------------------------------------------------------------
// Strings (values the writer puts between double quotes)

/// Every quoted-string value held by the instruction with a position tag, in a fixed order.
pub fn strings_of(i: &Instruction) -> Vec<(String, String)> {
    fn go(i: &Instruction, prefix: &str, out: &mut Vec<(String, String)>) {
        let k = kind_name(i);
        let mut push = |pos: &str, v: &str| out.push((format!("{prefix}{k}.{pos}"), v.to_string()));
        match i {
            Instruction::Pragma(p) => {
                if let Some(d) = &p.data {
                    push("data", d)
                }
            }
            Instruction::Include(inc) => push("filename", &inc.filename),
            Instruction::Delay(d) => d.frame_names.iter().for_each(|n| push("frame_name", n)),
            Instruction::Capture(c) => push("frame", &c.frame.name),
            Instruction::Pulse(c) => push("frame", &c.frame.name),
            Instruction::RawCapture(c) => push("frame", &c.frame.name),
            Instruction::SetFrequency(c) => push("frame", &c.frame.name),
            Instruction::SetPhase(c) => push("frame", &c.frame.name),
            Instruction::SetScale(c) => push("frame", &c.frame.name),
            Instruction::ShiftFrequency(c) => push("frame", &c.frame.name),
            Instruction::ShiftPhase(c) => push("frame", &c.frame.name),
            Instruction::SwapPhases(c) => {
                push("frame_1", &c.frame_1.name);
                push("frame_2", &c.frame_2.name);
            }
            Instruction::FrameDefinition(d) => {
                push("identifier", &d.identifier.name);
                let mut keys: Vec<&String> = d.attributes.keys().collect();
                keys.sort();
                for key in keys {
                    if let Some(AttributeValue::String(s)) = d.attributes.get(key) {
                        push("attribute", s);
                    }
                }
            }
            _ => {}
        }
        let inner = nested(i);
        if !inner.is_empty() {
            let p = format!("{prefix}{k}/");
            for n in inner {
                go(n, &p, out);
            }
        }
    }
    let mut out = Vec::new();
    go(i, "", &mut out);
    out
}

// ---------------------------------------------------------------------------------------------
// Canonical text of a case (for distinct-case accounting)

/// `{:?}` with qubit-placeholder addresses replaced by their order of first appearance, so that the
/// same generated case has the same text in every run.
pub fn canonical_debug<T: std::fmt::Debug>(t: &T) -> String {
    let s = format!("{t:?}");
    let pat = "QubitPlaceholder(0x";
    let mut out = String::with_capacity(s.len());
    let mut seen: Vec<String> = Vec::new();
    let mut rest = s.as_str();
    while let Some(pos) = rest.find(pat) {
        out.push_str(&rest[..pos]);
        let after = &rest[pos + pat.len()..];
        let end = after.find(')').unwrap_or(after.len());
        let addr = &after[..end];
        let id = match seen.iter().position(|a| a == addr) {
            Some(k) => k,
            None => {
                seen.push(addr.to_string());
                seen.len() - 1
            }
        };
        out.push_str(&format!("QubitPlaceholder(#{id}"));
        rest = &after[end..];
    }
    out.push_str(rest);
    out
}
