//! Reference partitioner for C28, written from the property statement:
//!
//!   a block is `[LABEL l]? ++ plain instructions ++ [terminator]?`; a LABEL opens a new block, a
//!   JUMP / JUMP-WHEN / JUMP-UNLESS / HALT closes the current one, INCLUDE belongs to no block,
//!   and the blocks written out in order give back the body.
//!
//! The model works on an abstract classification of the body (it never looks at quil-rs' answer).

/// What a body element is, as far as control flow is concerned.
#[derive(Clone, Copy, Debug, PartialEq, Eq)]
pub enum Elem {
    Plain,
    Label,
    Jump,
    JumpWhen,
    JumpUnless,
    Halt,
    Include,
}

/// One block of the reference partition, as index ranges into the body.
#[derive(Clone, Debug, PartialEq, Eq)]
pub struct ModelBlock {
    /// Body index of the block's LABEL, if any.
    pub label: Option<usize>,
    /// Body indices of the plain instructions.
    pub instructions: Vec<usize>,
    /// Body index of the terminator instruction, if any (None = fall through).
    pub terminator: Option<usize>,
}

/// Maximal basic blocks of a body.
pub fn partition(body: &[Elem]) -> Vec<ModelBlock> {
    let mut blocks = Vec::new();
    let mut cur = ModelBlock {
        label: None,
        instructions: vec![],
        terminator: None,
    };
    let fresh = || ModelBlock {
        label: None,
        instructions: vec![],
        terminator: None,
    };
    for (i, e) in body.iter().enumerate() {
        match e {
            Elem::Include => {}
            Elem::Plain => cur.instructions.push(i),
            Elem::Label => {
                if cur.label.is_some() || !cur.instructions.is_empty() {
                    blocks.push(std::mem::replace(&mut cur, fresh()));
                }
                cur.label = Some(i);
            }
            Elem::Jump | Elem::JumpWhen | Elem::JumpUnless | Elem::Halt => {
                cur.terminator = Some(i);
                blocks.push(std::mem::replace(&mut cur, fresh()));
            }
        }
    }
    if cur.label.is_some() || !cur.instructions.is_empty() {
        blocks.push(cur);
    }
    blocks
}

/// `has_dynamic_control_flow` per the statement: iff there is a conditional jump.
pub fn has_conditional_jump(body: &[Elem]) -> bool {
    body.iter()
        .any(|e| matches!(e, Elem::JumpWhen | Elem::JumpUnless))
}
