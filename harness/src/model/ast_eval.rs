//! Reference evaluator for `Expression` trees under a fixed assignment, with the conditioning
//! filter of DESIGN §3.3, and "equal with expressions compared by value" for instructions (C04).
//!
//! The evaluator pattern-matches on the public `Expression` enum; it never calls
//! `Expression::evaluate`, `simplify` or the parser.

use crate::core::{hash_of, Rng};
use crate::model::ast_walk::for_each_expr_mut;
use num_complex::Complex64;
use quil_rs::expression::{
    Expression, ExpressionFunction, InfixOperator, PrefixOperator,
};
use quil_rs::instruction::Instruction;

/// Fixed assignment: generic irrational-looking values in 0.3..3 (variables get a small imaginary
/// part so that conjugation-type mistakes are visible).
pub fn var_value(name: &str) -> Complex64 {
    let h = hash_of(&("var", name));
    let re = 0.3 + 2.7 * ((h >> 11) as f64 / (1u64 << 53) as f64);
    let im = 0.05 + 0.4 * (((h.rotate_left(23)) >> 11) as f64 / (1u64 << 53) as f64);
    Complex64::new(re, im)
}

pub fn mem_value(name: &str, index: u64) -> f64 {
    let h = hash_of(&("mem", name, index));
    0.3 + 2.7 * ((h >> 11) as f64 / (1u64 << 53) as f64)
}

/// Evaluate; `None` = some intermediate value is non-finite (ill-defined point).
/// With `pert = Some(rng)` every node result is perturbed by a relative 1e-11 and an absolute
/// 1e-13 complex perturbation.
pub fn eval(e: &Expression, pert: &mut Option<Rng>) -> Option<Complex64> {
    let v = match e {
        Expression::Number(n) => *n,
        Expression::PiConstant() => Complex64::new(std::f64::consts::PI, 0.0),
        Expression::Variable(name) => var_value(name),
        Expression::Address(m) => Complex64::new(mem_value(&m.name, m.index), 0.0),
        Expression::Prefix(p) => {
            let x = eval(&p.expression, pert)?;
            match p.operator {
                PrefixOperator::Minus => -x,
                PrefixOperator::Plus => x,
            }
        }
        Expression::FunctionCall(fc) => {
            let x = eval(&fc.expression, pert)?;
            match fc.function {
                ExpressionFunction::Sine => x.sin(),
                ExpressionFunction::Cosine => x.cos(),
                ExpressionFunction::Exponent => x.exp(),
                ExpressionFunction::SquareRoot => x.sqrt(),
                ExpressionFunction::Cis => x.cos() + Complex64::new(0.0, 1.0) * x.sin(),
            }
        }
        Expression::Infix(inf) => {
            let a = eval(&inf.left, pert)?;
            let b = eval(&inf.right, pert)?;
            match inf.operator {
                InfixOperator::Plus => a + b,
                InfixOperator::Minus => a - b,
                InfixOperator::Star => a * b,
                InfixOperator::Slash => a / b,
                InfixOperator::Caret => a.powc(b),
            }
        }
    };
    if !(v.re.is_finite() && v.im.is_finite()) {
        return None;
    }
    let v = match pert {
        None => v,
        Some(rng) => {
            let rel = (rng.f64() * 2.0 - 1.0) * 1e-11;
            let abs = Complex64::new(
                (rng.f64() * 2.0 - 1.0) * 0.7e-13,
                (rng.f64() * 2.0 - 1.0) * 0.7e-13,
            );
            v * (1.0 + rel) + abs
        }
    };
    Some(v)
}

#[derive(Debug, Clone, PartialEq)]
pub enum ValueCmp {
    Equal,
    /// Not asserted: ill-defined (non-finite intermediate) or ill-conditioned (perturbation spread).
    Inconclusive(&'static str),
    Different { a: Complex64, b: Complex64 },
}

/// Spread of the value under K = 8 perturbed re-evaluations; `None` if any is non-finite.
fn spread(e: &Expression, v: Complex64, salt: u64) -> Option<f64> {
    let mut worst = 0.0f64;
    for k in 0..8u64 {
        let mut p = Some(Rng::from_parts(&[0xC0FFEE, salt, k]));
        let w = eval(e, &mut p)?;
        worst = worst.max((w - v).norm());
    }
    Some(worst)
}

/// Compare two expressions by value under the fixed assignment (tolerance 1e-9·max(1,|a|),
/// conditioning filter tol/10).
pub fn compare_by_value(a: &Expression, b: &Expression) -> ValueCmp {
    let (va, vb) = match (eval(a, &mut None), eval(b, &mut None)) {
        (Some(x), Some(y)) => (x, y),
        _ => return ValueCmp::Inconclusive("ill-defined"),
    };
    let tol = 1e-9 * va.norm().max(1.0);
    match (spread(a, va, 1), spread(b, vb, 2)) {
        (Some(sa), Some(sb)) => {
            if sa > tol / 10.0 || sb > tol / 10.0 {
                return ValueCmp::Inconclusive("ill-conditioned");
            }
        }
        _ => return ValueCmp::Inconclusive("ill-defined"),
    }
    if (va - vb).norm() <= tol {
        ValueCmp::Equal
    } else {
        ValueCmp::Different { a: va, b: vb }
    }
}

// ---------------------------------------------------------------------------------------------
// Instruction equivalence

#[derive(Debug, Clone, PartialEq)]
pub enum Equiv {
    Same,
    Inconclusive(&'static str),
    /// `field`: innermost field name at the first structural difference (from the Debug forms),
    /// or "expression-value".
    Diff { field: String, detail: String },
}

fn blank(i: &Instruction) -> (Instruction, Vec<Expression>) {
    let mut c = i.clone();
    let mut exprs = Vec::new();
    for_each_expr_mut(&mut c, &mut |e| {
        exprs.push(std::mem::replace(e, Expression::Number(Complex64::new(0.0, 0.0))));
    });
    (c, exprs)
}

/// Name of the innermost `field:` preceding the first differing byte of the two Debug forms.
pub fn first_diff_field(a: &str, b: &str) -> (String, String) {
    let ab = a.as_bytes();
    let bb = b.as_bytes();
    let mut i = 0;
    while i < ab.len() && i < bb.len() && ab[i] == bb[i] {
        i += 1;
    }
    // scan backwards for `ident: `
    let mut field = "root".to_string();
    let mut j = i.min(ab.len());
    while j > 1 {
        if ab[j - 1] == b' ' && ab[j - 2] == b':' {
            let end = j - 2;
            let mut start = end;
            while start > 0 && (ab[start - 1].is_ascii_alphanumeric() || ab[start - 1] == b'_') {
                start -= 1;
            }
            if start < end {
                field = String::from_utf8_lossy(&ab[start..end]).to_string();
                break;
            }
        }
        j -= 1;
    }
    let lo = i.saturating_sub(30);
    let mut lo_a = lo.min(a.len());
    while !a.is_char_boundary(lo_a) {
        lo_a -= 1;
    }
    let mut lo_b = lo.min(b.len());
    while !b.is_char_boundary(lo_b) {
        lo_b -= 1;
    }
    let clip = |s: &str, from: usize| -> String { s[from..].chars().take(90).collect() };
    (field, format!("built …{} | reparsed …{}", clip(a, lo_a), clip(b, lo_b)))
}

/// "Equal, with expressions compared by value": the two instructions must be `==` once every
/// (publicly reachable) expression is replaced by a constant, and corresponding expressions must
/// have the same value under the fixed assignment (conditioning filter applied).
pub fn instr_equiv(a: &Instruction, b: &Instruction) -> Equiv {
    let (ba, ea) = blank(a);
    let (bb, eb) = blank(b);
    if ba != bb || ea.len() != eb.len() {
        let (field, detail) = first_diff_field(&format!("{ba:?}"), &format!("{bb:?}"));
        return Equiv::Diff { field, detail };
    }
    let mut inconclusive = None;
    for (x, y) in ea.iter().zip(eb.iter()) {
        if x == y {
            continue;
        }
        match compare_by_value(x, y) {
            ValueCmp::Equal => {}
            ValueCmp::Inconclusive(r) => inconclusive = Some(r),
            ValueCmp::Different { a, b } => {
                return Equiv::Diff {
                    field: "expression-value".into(),
                    detail: format!("built {x:?} = {a}; reparsed {y:?} = {b}"),
                }
            }
        }
    }
    match inconclusive {
        Some(r) => Equiv::Inconclusive(r),
        None => Equiv::Same,
    }
}
