//! Ordered-map reference model of `quil_rs::Program` as a *container* (C08, C09, C11).
//!
//! Written from the property texts, not from the code:
//!
//! * one insertion-ordered map per definition kind (declarations by name, frames by identifier,
//!   waveforms by name, calibrations and measure calibrations by signature, gate definitions and
//!   circuits by name, extern pragmas by name);
//! * adding a definition whose key is already present replaces the value **in place** (the key
//!   keeps the position of its first insertion);
//! * everything else is appended to the body, whose order is the order of addition;
//! * concatenation `A + B`: body(A)·body(B); per kind, B's value wins on equal keys (position of
//!   A's entry kept), B's new keys follow in B's order.
//!
//! The model never calls quil-rs.  It works on *item indices* into an arena of generated items
//! (`gen::container_gen::Item`), whose `kind` and `key` were fixed by the generator.

use crate::gen::container_gen::{Item, Kind, DEF_KINDS};

#[derive(Clone, Debug, Default, PartialEq)]
pub struct OrderedMap {
    /// (key, item index), in first-insertion order
    pub entries: Vec<(String, usize)>,
}

impl OrderedMap {
    pub fn insert(&mut self, key: &str, item: usize) {
        if let Some(e) = self.entries.iter_mut().find(|(k, _)| k == key) {
            e.1 = item;
        } else {
            self.entries.push((key.to_string(), item));
        }
    }
    pub fn distinct_keys(&self) -> usize {
        self.entries.len()
    }
}

#[derive(Clone, Debug, Default, PartialEq)]
pub struct ProgramModel {
    pub maps: [OrderedMap; 8],
    pub body: Vec<usize>,
}

impl ProgramModel {
    pub fn new() -> Self {
        Self::default()
    }

    /// `add_instruction(arena[item])`
    pub fn add(&mut self, arena: &[Item], item: usize) {
        let it = &arena[item];
        match it.kind {
            Kind::Body => self.body.push(item),
            k => self.maps[k.index()].insert(&it.key, item),
        }
    }

    pub fn from_items(arena: &[Item], range: std::ops::Range<usize>) -> Self {
        let mut m = Self::new();
        for i in range {
            m.add(arena, i);
        }
        m
    }

    /// `self += other` (both over the same arena)
    pub fn concat(&mut self, arena: &[Item], other: &ProgramModel) {
        for kind in DEF_KINDS {
            for (_, item) in &other.maps[kind.index()].entries {
                self.maps[kind.index()].insert(&arena[*item].key, *item);
            }
        }
        self.body.extend(other.body.iter().copied());
    }

    /// Expected item indices of one kind, in listing order.
    pub fn listing(&self, kind: Kind) -> Vec<usize> {
        match kind {
            Kind::Body => self.body.clone(),
            k => self.maps[k.index()].entries.iter().map(|(_, i)| *i).collect(),
        }
    }

    pub fn max_distinct_keys(&self) -> usize {
        self.maps.iter().map(|m| m.distinct_keys()).max().unwrap_or(0)
    }

    pub fn definitions(&self) -> usize {
        self.maps.iter().map(|m| m.distinct_keys()).sum()
    }
}
