//! `sched` group — reference models written from the property statements (no quil-rs calls):
//!
//! * sequential-consistency model of one dependency queue (C23 a, C24 queue level);
//! * the guarantee such a queue must give, checked on whatever dependency sets were reported;
//! * the Quil-T frame matcher (C26);
//! * as-soon-as-possible scheduling over a conflict relation (C25);
//! * small graph helpers (reachability over a filtered edge set, topological check).

use std::collections::BTreeSet;

// ---------------------------------------------------------------------------------------------
// Dependency queue

/// Generic access: `write == true` for Write/Capture/Using, `false` for Read/Blocking.
/// `tag` distinguishes Write (1) from Capture (2); reads and frame interactions use 0.
#[derive(Clone, Copy, Debug, PartialEq, Eq, PartialOrd, Ord, Hash)]
pub struct Access {
    pub node: i64,
    pub write: bool,
    pub tag: u8,
}

/// A reported dependency: which node, and as what (for memory: 0 = read, 1 = write, 2 = capture;
/// for frames always 0).
pub type Dep = (u8, i64);

/// The model queue: the last writer (if any) and the readers since it.
///
/// * every access depends on the last writer;
/// * a write additionally depends on all readers since that writer, becomes the last writer and
///   clears the readers;
/// * a read joins the readers.
///
/// `initial_writer` is the implicit first writer (frames: the block start), reported with tag 0.
pub fn queue_model(
    initial_writer: Option<i64>,
    accesses: &[Access],
    frame_mode: bool,
) -> (Vec<BTreeSet<Dep>>, BTreeSet<Dep>) {
    let mut writer: Option<Dep> = initial_writer.map(|n| (0u8, n));
    let mut readers: BTreeSet<i64> = BTreeSet::new();
    let mut steps = Vec::with_capacity(accesses.len());
    for a in accesses {
        let mut deps: BTreeSet<Dep> = BTreeSet::new();
        if let Some(w) = writer {
            deps.insert(w);
        }
        if a.write {
            for r in &readers {
                deps.insert((0, *r));
            }
            readers.clear();
            writer = Some((if frame_mode { 0 } else { a.tag }, a.node));
        } else {
            readers.insert(a.node);
        }
        steps.push(deps);
    }
    let mut pending: BTreeSet<Dep> = readers.iter().map(|r| (0u8, *r)).collect();
    if let Some(w) = writer {
        pending.insert(w);
    }
    (steps, pending)
}

/// The guarantee a dependency queue owes its caller, stated on the *reported* dependency sets
/// (independent of how the queue is implemented).  `accesses[k]` is performed by
/// `accesses[k].node`; `reported[k]` is the set of nodes that access must wait for.  Distinct
/// accesses by the same node are simultaneous (a node never waits for itself).
///
/// 1. every reported dependency is the implicit initial writer or a node that accessed earlier;
/// 2. for every pair of accesses a < b by different nodes with at least one write, node(b) is
///    reachable from node(a) through reported dependencies (sequential consistency);
/// 3. a read never reports a node that, up to then, has only read (no read-read ordering).
///
/// Returns the name of the first clause that fails.
pub fn queue_guarantee(
    initial_writer: Option<i64>,
    accesses: &[Access],
    reported: &[BTreeSet<i64>],
) -> Result<(), &'static str> {
    let n = accesses.len();
    // 1
    for k in 0..n {
        for d in &reported[k] {
            let earlier = accesses[..k].iter().any(|a| a.node == *d);
            if !(earlier || Some(*d) == initial_writer) {
                return Err("dependency-on-node-that-never-accessed");
            }
        }
    }
    // 3
    for k in 0..n {
        if accesses[k].write {
            continue;
        }
        for d in &reported[k] {
            if Some(*d) == initial_writer {
                continue;
            }
            let wrote_before = accesses[..k].iter().any(|a| a.node == *d && a.write);
            if !wrote_before && *d != accesses[k].node {
                return Err("read-depends-on-pure-reader");
            }
        }
    }
    // 2: edges dep -> node(k); reachability between nodes.  Only meaningful when node ids along
    // the sequence are non-decreasing (each node's accesses are contiguous), which the drivers
    // guarantee.
    let mut nodes: Vec<i64> = accesses.iter().map(|a| a.node).collect();
    nodes.dedup();
    let idx = |x: i64| nodes.iter().position(|n| *n == x);
    let m = nodes.len();
    let mut reach = vec![vec![false; m]; m];
    for k in 0..n {
        let Some(to) = idx(accesses[k].node) else { continue };
        for d in &reported[k] {
            if let Some(from) = idx(*d) {
                if from != to {
                    reach[from][to] = true;
                }
            }
        }
    }
    for k in 0..m {
        for i in 0..m {
            for j in 0..m {
                if reach[i][k] && reach[k][j] {
                    reach[i][j] = true;
                }
            }
        }
    }
    for a in 0..n {
        for b in (a + 1)..n {
            if accesses[a].node == accesses[b].node {
                continue;
            }
            if !(accesses[a].write || accesses[b].write) {
                continue;
            }
            let (Some(i), Some(j)) = (idx(accesses[a].node), idx(accesses[b].node)) else {
                continue;
            };
            if !reach[i][j] {
                return Err("conflicting-accesses-not-ordered");
            }
        }
    }
    Ok(())
}

// ---------------------------------------------------------------------------------------------
// Frame matching (C26), from the statement:
//   PULSE / CAPTURE / RAW-CAPTURE use exactly their own frame and, if blocking, block every other
//   frame sharing a qubit with it; SET-*/SHIFT-* and SWAP-PHASES use exactly their frames; FENCE
//   uses all frames, or those on (= intersecting) its qubits; DELAY uses the frames on exactly its
//   qubits, restricted to its frame names if given; RESET q uses the frames on exactly {q} and
//   blocks the others touching q.  Only defined frames are ever reported; blocked excludes used.

pub type MFrame = (Vec<u64>, String);

#[derive(Clone, Debug)]
pub enum FrameInstr {
    /// PULSE, CAPTURE, RAW-CAPTURE
    Play { frame: MFrame, blocking: bool },
    /// SET-FREQUENCY/-PHASE/-SCALE, SHIFT-FREQUENCY/-PHASE
    Update { frame: MFrame },
    SwapPhases { a: MFrame, b: MFrame },
    Fence { qubits: Vec<u64> },
    Delay { qubits: Vec<u64>, names: Vec<String> },
    ResetQubit { qubit: u64 },
    /// Bare RESET: the statement fixes nothing beyond the general clauses.
    ResetAll,
}

fn qset(q: &[u64]) -> BTreeSet<u64> {
    q.iter().copied().collect()
}

fn shares_qubit(f: &MFrame, qs: &BTreeSet<u64>) -> bool {
    f.0.iter().any(|q| qs.contains(q))
}

/// Expected (used, blocked) for `instr` among `defined`; `None` when the statement leaves the
/// answer open (bare RESET).
pub fn match_frames(
    defined: &BTreeSet<MFrame>,
    instr: &FrameInstr,
) -> Option<(BTreeSet<MFrame>, BTreeSet<MFrame>)> {
    let mut used: BTreeSet<MFrame> = BTreeSet::new();
    let mut blocked: BTreeSet<MFrame> = BTreeSet::new();
    match instr {
        FrameInstr::Play { frame, blocking } => {
            if defined.contains(frame) {
                used.insert(frame.clone());
            }
            if *blocking {
                let qs = qset(&frame.0);
                for f in defined {
                    if f != frame && shares_qubit(f, &qs) {
                        blocked.insert(f.clone());
                    }
                }
            }
        }
        FrameInstr::Update { frame } => {
            if defined.contains(frame) {
                used.insert(frame.clone());
            }
        }
        FrameInstr::SwapPhases { a, b } => {
            for f in [a, b] {
                if defined.contains(f) {
                    used.insert(f.clone());
                }
            }
        }
        FrameInstr::Fence { qubits } => {
            let qs = qset(qubits);
            for f in defined {
                if qubits.is_empty() || shares_qubit(f, &qs) {
                    used.insert(f.clone());
                }
            }
        }
        FrameInstr::Delay { qubits, names } => {
            let qs = qset(qubits);
            for f in defined {
                if qset(&f.0) == qs && (names.is_empty() || names.contains(&f.1)) {
                    used.insert(f.clone());
                }
            }
        }
        FrameInstr::ResetQubit { qubit } => {
            let qs = qset(&[*qubit]);
            for f in defined {
                if qset(&f.0) == qs {
                    used.insert(f.clone());
                } else if shares_qubit(f, &qs) {
                    blocked.insert(f.clone());
                }
            }
        }
        FrameInstr::ResetAll => return None,
    }
    Some((used, blocked))
}

// ---------------------------------------------------------------------------------------------
// Graph helpers.  Nodes are positions 0..n (0 = block start, n-1 = block end).

/// `reach[i][j]`: j reachable from i through `edges` (i != j unless on a cycle).
pub fn reachability(n: usize, edges: &[(usize, usize)]) -> Vec<Vec<bool>> {
    let mut adj = vec![Vec::new(); n];
    for &(u, v) in edges {
        if u < n && v < n {
            adj[u].push(v);
        }
    }
    let mut reach = vec![vec![false; n]; n];
    for s in 0..n {
        let mut stack = adj[s].clone();
        while let Some(v) = stack.pop() {
            if !reach[s][v] {
                reach[s][v] = true;
                stack.extend(adj[v].iter().copied());
            }
        }
    }
    reach
}

/// Kahn's algorithm: true iff the edge set is acyclic.
pub fn is_acyclic(n: usize, edges: &[(usize, usize)]) -> bool {
    let mut indeg = vec![0usize; n];
    let mut adj = vec![Vec::new(); n];
    for &(u, v) in edges {
        if u < n && v < n {
            adj[u].push(v);
            indeg[v] += 1;
        }
    }
    let mut ready: Vec<usize> = (0..n).filter(|&i| indeg[i] == 0).collect();
    let mut seen = 0;
    while let Some(u) = ready.pop() {
        seen += 1;
        for &v in &adj[u] {
            indeg[v] -= 1;
            if indeg[v] == 0 {
                ready.push(v);
            }
        }
    }
    seen == n
}

// ---------------------------------------------------------------------------------------------
// ASAP scheduling (C25): start(i) = max(0, end(j) for j < i conflicting with i).

pub fn asap_starts(durations: &[f64], conflict: &dyn Fn(usize, usize) -> bool) -> Vec<f64> {
    let n = durations.len();
    let mut start = vec![0.0f64; n];
    for i in 0..n {
        let mut s = 0.0f64;
        for j in 0..i {
            if conflict(j, i) {
                let e = start[j] + durations[j];
                if e > s {
                    s = e;
                }
            }
        }
        start[i] = s;
    }
    start
}
