//! Per-instruction memory-access table for C27, written from the property statement and the Quil
//! specification's description of each instruction (not from the handler's code):
//!
//!   reads    = regions whose contents the instruction consults, including every region referenced
//!              in one of its expressions;
//!   writes   = regions it assigns;
//!   captures = regions that receive measurement or capture results.
//!
//! CALL is handled by `call_expectation` (needs the extern signature).  Definitions (DEFCAL,
//! DEFCIRCUIT, DEFGATE, DEFWAVEFORM, DEFFRAME) execute nothing themselves; the statement does not
//! say what a definition "consults", so for them only the weak rule "no region is reported that
//! the definition does not mention" is asserted.

use crate::gen::analysis_ast::expr_regions;
use crate::model::analysis_extern::{Arg, Sig};
use quil_rs::expression::Expression;
use quil_rs::instruction::{
    ArithmeticOperand, AttributeValue, BinaryOperand, ComparisonOperand, GateSpecification,
    Instruction, MemoryReference, WaveformInvocation,
};
use std::collections::BTreeSet;

pub type Set = BTreeSet<String>;

#[derive(Clone, Debug, Default, PartialEq, Eq)]
pub struct Accesses {
    pub reads: Set,
    pub writes: Set,
    pub captures: Set,
}

pub enum Expectation {
    /// The three sets must be exactly these.
    Exactly(Accesses),
    /// Every reported region must be one of these (definitions).
    Within(Set),
    /// Needs a signature: see `call_expectation`.
    Call,
}

fn one(m: &MemoryReference) -> Set {
    [m.name.clone()].into()
}
fn name(n: &str) -> Set {
    [n.to_string()].into()
}
fn union(a: Set, b: Set) -> Set {
    a.into_iter().chain(b).collect()
}
fn of_expr(e: &Expression) -> Set {
    let mut s = Set::new();
    expr_regions(e, &mut s);
    s
}
fn of_exprs<'a>(es: impl IntoIterator<Item = &'a Expression>) -> Set {
    let mut s = Set::new();
    for e in es {
        expr_regions(e, &mut s);
    }
    s
}
fn of_waveform(w: &WaveformInvocation) -> Set {
    of_exprs(w.parameters.values())
}
fn arith(o: &ArithmeticOperand) -> Set {
    match o {
        ArithmeticOperand::MemoryReference(m) => one(m),
        _ => Set::new(),
    }
}

fn exactly(reads: Set, writes: Set, captures: Set) -> Expectation {
    Expectation::Exactly(Accesses { reads, writes, captures })
}

/// Every region name mentioned anywhere in an instruction (used for the weak rule on definitions).
pub fn mentioned(i: &Instruction) -> Set {
    match i {
        Instruction::CalibrationDefinition(c) => {
            let mut s = of_exprs(c.identifier.parameters.iter());
            for b in &c.instructions {
                s = union(s, mentioned(b));
            }
            s
        }
        Instruction::MeasureCalibrationDefinition(c) => {
            let mut s = Set::new();
            if let Some(t) = &c.identifier.target {
                s.insert(t.clone());
            }
            for b in &c.instructions {
                s = union(s, mentioned(b));
            }
            s
        }
        Instruction::CircuitDefinition(c) => {
            let mut s = Set::new();
            for b in &c.instructions {
                s = union(s, mentioned(b));
            }
            s
        }
        Instruction::GateDefinition(g) => match &g.specification {
            GateSpecification::Matrix(rows) => of_exprs(rows.iter().flatten()),
            _ => Set::new(),
        },
        Instruction::WaveformDefinition(w) => of_exprs(w.definition.matrix.iter()),
        Instruction::FrameDefinition(f) => of_exprs(f.attributes.values().filter_map(|v| match v {
            AttributeValue::Expression(e) => Some(e),
            AttributeValue::String(_) => None,
        })),
        Instruction::Call(c) => c
            .arguments
            .iter()
            .filter_map(|a| match a {
                quil_rs::instruction::UnresolvedCallArgument::Identifier(n) => Some(n.clone()),
                quil_rs::instruction::UnresolvedCallArgument::MemoryReference(m) => Some(m.name.clone()),
                quil_rs::instruction::UnresolvedCallArgument::Immediate(_) => None,
            })
            .collect(),
        other => match expectation(other) {
            Expectation::Exactly(a) => union(union(a.reads, a.writes), a.captures),
            Expectation::Within(s) => s,
            Expectation::Call => Set::new(),
        },
    }
}

pub fn expectation(i: &Instruction) -> Expectation {
    let none = Set::new;
    match i {
        // classical
        Instruction::Move(m) => exactly(arith(&m.source), one(&m.destination), none()),
        Instruction::Convert(c) => exactly(one(&c.source), one(&c.destination), none()),
        Instruction::Arithmetic(a) => exactly(
            union(one(&a.destination), arith(&a.source)),
            one(&a.destination),
            none(),
        ),
        Instruction::BinaryLogic(b) => exactly(
            union(
                one(&b.destination),
                match &b.source {
                    BinaryOperand::MemoryReference(m) => one(m),
                    BinaryOperand::LiteralInteger(_) => none(),
                },
            ),
            one(&b.destination),
            none(),
        ),
        Instruction::UnaryLogic(u) => exactly(one(&u.operand), one(&u.operand), none()),
        Instruction::Exchange(e) => {
            let both = union(one(&e.left), one(&e.right));
            exactly(both.clone(), both, none())
        }
        Instruction::Comparison(c) => exactly(
            union(
                one(&c.lhs),
                match &c.rhs {
                    ComparisonOperand::MemoryReference(m) => one(m),
                    _ => none(),
                },
            ),
            one(&c.destination),
            none(),
        ),
        Instruction::Load(l) => exactly(union(name(&l.source), one(&l.offset)), one(&l.destination), none()),
        Instruction::Store(s) => exactly(union(one(&s.offset), arith(&s.source)), name(&s.destination), none()),
        Instruction::JumpWhen(j) => exactly(one(&j.condition), none(), none()),
        Instruction::JumpUnless(j) => exactly(one(&j.condition), none(), none()),

        // expression-bearing Quil-T / gates
        Instruction::Delay(d) => exactly(of_expr(&d.duration), none(), none()),
        Instruction::SetFrequency(s) => exactly(of_expr(&s.frequency), none(), none()),
        Instruction::SetPhase(s) => exactly(of_expr(&s.phase), none(), none()),
        Instruction::SetScale(s) => exactly(of_expr(&s.scale), none(), none()),
        Instruction::ShiftFrequency(s) => exactly(of_expr(&s.frequency), none(), none()),
        Instruction::ShiftPhase(s) => exactly(of_expr(&s.phase), none(), none()),
        Instruction::Pulse(p) => exactly(of_waveform(&p.waveform), none(), none()),
        Instruction::Gate(g) => exactly(of_exprs(g.parameters.iter()), none(), none()),

        // measurement / capture
        Instruction::Measurement(m) => exactly(none(), none(), m.target.as_ref().map(one).unwrap_or_default()),
        Instruction::Capture(c) => exactly(of_waveform(&c.waveform), none(), one(&c.memory_reference)),
        Instruction::RawCapture(c) => exactly(of_expr(&c.duration), none(), one(&c.memory_reference)),

        // nothing consulted, nothing assigned
        Instruction::Fence(_)
        | Instruction::Halt()
        | Instruction::Wait()
        | Instruction::Nop()
        | Instruction::Include(_)
        | Instruction::Jump(_)
        | Instruction::Label(_)
        | Instruction::Reset(_)
        | Instruction::SwapPhases(_)
        | Instruction::Declaration(_) => exactly(none(), none(), none()),
        // a pragma's meaning is outside the language; the generator never names a region in one
        Instruction::Pragma(_) => exactly(none(), none(), none()),

        Instruction::Call(_) => Expectation::Call,

        Instruction::CalibrationDefinition(_)
        | Instruction::MeasureCalibrationDefinition(_)
        | Instruction::CircuitDefinition(_)
        | Instruction::GateDefinition(_)
        | Instruction::WaveformDefinition(_)
        | Instruction::FrameDefinition(_) => Expectation::Within(mentioned(i)),
    }
}

/// What the statement fixes for a CALL that fits `sig` slot by slot.
pub struct CallExpectation {
    /// writes must be exactly: return-slot region + regions passed to mutable parameters
    pub writes: Set,
    /// every region passed in a parameter slot must be read …
    pub reads_at_least: Set,
    /// … and nothing but those and (unconstrained, see DESIGN §4 C27) the return-slot region
    pub reads_at_most: Set,
}

pub fn call_expectation(sig: &Sig, args: &[Arg]) -> CallExpectation {
    let mut writes = Set::new();
    let mut passed = Set::new();
    let mut ret_region = Set::new();
    let mut rest = args;
    if sig.ret.is_some() {
        if let Some((first, tail)) = args.split_first() {
            if let Some(r) = first.region() {
                writes.insert(r.to_string());
                ret_region.insert(r.to_string());
            }
            rest = tail;
        }
    }
    for (arg, p) in rest.iter().zip(&sig.params) {
        if let Some(r) = arg.region() {
            passed.insert(r.to_string());
            if p.mutable {
                writes.insert(r.to_string());
            }
        }
    }
    CallExpectation {
        writes,
        reads_at_least: passed.clone(),
        reads_at_most: union(passed, ret_region),
    }
}
