//! Harness-side model of extern signatures, CALL arguments and the CALL resolution rules of C31
//! (also used by C27 for the memory accesses of CALL).  Written from the property statement:
//!
//!   a CALL resolves iff its argument count matches (return slot included) and each argument fits
//!   its slot: the return slot takes a declared memory reference or name of the return type; a
//!   scalar slot takes a declared reference (or bare name, which denotes `name[0]`) of its type, or
//!   — if the parameter is immutable — an immediate; a vector slot takes the name of a region
//!   whose type and, for a fixed length, size match.
//!
//! Indices are never out of range in the generated calls, so "declared reference" does not have
//! to decide that case.

use std::collections::BTreeMap;

#[derive(Clone, Copy, Debug, PartialEq, Eq, Hash, PartialOrd, Ord)]
pub enum Ty {
    Bit,
    Integer,
    Octet,
    Real,
}

pub const TYPES: [Ty; 4] = [Ty::Bit, Ty::Integer, Ty::Octet, Ty::Real];

impl Ty {
    pub fn name(self) -> &'static str {
        match self {
            Ty::Bit => "BIT",
            Ty::Integer => "INTEGER",
            Ty::Octet => "OCTET",
            Ty::Real => "REAL",
        }
    }
}

#[derive(Clone, Copy, Debug, PartialEq, Eq, Hash)]
pub enum ParamTy {
    Scalar(Ty),
    Fixed(Ty, u64),
    Variable(Ty),
}

#[derive(Clone, Debug, PartialEq, Eq, Hash)]
pub struct Param {
    pub name: String,
    pub mutable: bool,
    pub ty: ParamTy,
}

#[derive(Clone, Debug, PartialEq, Eq, Hash)]
pub struct Sig {
    pub ret: Option<Ty>,
    pub params: Vec<Param>,
}

impl Sig {
    /// Number of CALL arguments the signature takes (return slot included).
    pub fn slots(&self) -> usize {
        self.params.len() + usize::from(self.ret.is_some())
    }
    /// Harness-side rendering (for case descriptions; also the Quil-spec spelling).
    pub fn show(&self) -> String {
        let mut s = String::new();
        if let Some(r) = self.ret {
            s.push_str(r.name());
        }
        if !self.params.is_empty() {
            if self.ret.is_some() {
                s.push(' ');
            }
            s.push('(');
            for (i, p) in self.params.iter().enumerate() {
                if i > 0 {
                    s.push_str(", ");
                }
                s.push_str(&p.name);
                s.push_str(" : ");
                if p.mutable {
                    s.push_str("mut ");
                }
                match p.ty {
                    ParamTy::Scalar(t) => s.push_str(t.name()),
                    ParamTy::Fixed(t, n) => s.push_str(&format!("{}[{n}]", t.name())),
                    ParamTy::Variable(t) => s.push_str(&format!("{}[]", t.name())),
                }
            }
            s.push(')');
        }
        s
    }
}

#[derive(Clone, Debug, PartialEq)]
pub enum Arg {
    /// bare region name
    Ident(String),
    /// `name[index]`
    Ref(String, u64),
    /// immediate value (re, im)
    Imm(f64, f64),
}

impl Arg {
    pub fn show(&self) -> String {
        match self {
            Arg::Ident(n) => n.clone(),
            Arg::Ref(n, i) => format!("{n}[{i}]"),
            Arg::Imm(re, im) => {
                if *im == 0.0 {
                    format!("{re:?}")
                } else {
                    format!("<{re:?}+{im:?}i>")
                }
            }
        }
    }
    /// Region the argument passes, if any.
    pub fn region(&self) -> Option<&str> {
        match self {
            Arg::Ident(n) | Arg::Ref(n, _) => Some(n),
            Arg::Imm(..) => None,
        }
    }
}

/// Declared regions: name -> (type, length).
pub type Regions = BTreeMap<String, (Ty, u64)>;

fn declared_scalar_of_type(arg: &Arg, ty: Ty, regions: &Regions) -> bool {
    match arg {
        Arg::Ident(n) | Arg::Ref(n, _) => regions.get(n).is_some_and(|(t, _)| *t == ty),
        Arg::Imm(..) => false,
    }
}

/// Does `arg` fit the return slot of type `ty`?
pub fn fits_return(arg: &Arg, ty: Ty, regions: &Regions) -> bool {
    declared_scalar_of_type(arg, ty, regions)
}

/// Does `arg` fit parameter `p`?
pub fn fits_param(arg: &Arg, p: &Param, regions: &Regions) -> bool {
    match p.ty {
        ParamTy::Scalar(t) => match arg {
            Arg::Imm(..) => !p.mutable,
            _ => declared_scalar_of_type(arg, t, regions),
        },
        ParamTy::Fixed(t, len) => match arg {
            Arg::Ident(n) => regions.get(n).is_some_and(|(rt, rl)| *rt == t && *rl == len),
            _ => false,
        },
        ParamTy::Variable(t) => match arg {
            Arg::Ident(n) => regions.get(n).is_some_and(|(rt, _)| *rt == t),
            _ => false,
        },
    }
}

/// Outcome of the model resolver.
#[derive(Clone, Debug, PartialEq, Eq)]
pub enum Resolution {
    Resolves,
    WrongArgumentCount,
    /// Argument positions (0-based, return slot = 0 when present) that do not fit their slot.
    UnfitSlots(Vec<usize>),
}

pub fn resolve(sig: &Sig, args: &[Arg], regions: &Regions) -> Resolution {
    if args.len() != sig.slots() {
        return Resolution::WrongArgumentCount;
    }
    let mut unfit = Vec::new();
    let mut params = sig.params.iter();
    for (i, arg) in args.iter().enumerate() {
        let ok = if i == 0 && sig.ret.is_some() {
            fits_return(arg, sig.ret.unwrap_or(Ty::Bit), regions)
        } else {
            match params.next() {
                Some(p) => fits_param(arg, p, regions),
                None => false,
            }
        };
        if !ok {
            unfit.push(i);
        }
    }
    if unfit.is_empty() {
        Resolution::Resolves
    } else {
        Resolution::UnfitSlots(unfit)
    }
}
