//! Reference model of calibration lookup and expansion (properties C16–C19).
//!
//! Written from the property statements, not from the implementation:
//!
//! * **matching** (C16): a gate matches only calibrations with its name, modifiers, parameter and
//!   qubit counts whose fixed qubits and non-variable parameters equal its own (closed constants are
//!   compared by value); most fixed qubits wins, ties go to the later definition.  A measurement
//!   matches only calibrations with its name and record/effect kind; an exact fixed-qubit match
//!   beats a variable one, later definition wins.  Redefinition with an identical signature
//!   replaces in place.
//! * **substitution** (C17): the gate's qubits and parameters replace the calibration's variables in
//!   *every* instruction of the body; for a measurement its qubit replaces the qubit variable and
//!   its target replaces uses of the target name (CAPTURE / RAW-CAPTURE destinations and
//!   `PRAGMA LOAD-MEMORY` data), every other memory reference stays as written.
//! * **expansion** (C17/C18/C19): depth-first, to a fixpoint, with the path of instructions that are
//!   currently being expanded; an instruction that is matched while an identical instruction is on
//!   the path is a recursion; fuel (depth / node count) bounds the model, running out of fuel is
//!   "divergent" (never a verdict by itself).  The result is an expansion *tree*, from which the
//!   flat body, the hoisted declarations and the expected source map are derived.
//!
//! The model works on its own small IR (`MInstr`, `MExpr`, ...).  The bridge functions at the end
//! (`conv_*`) only *read* quil-rs values (public fields) and translate them structurally; they take
//! no decision.

use num_complex::Complex64;
use quil_rs::expression::{
    Expression, ExpressionFunction, FunctionCallExpression, InfixExpression, InfixOperator,
    PrefixExpression, PrefixOperator,
};
use quil_rs::instruction::{
    CalibrationDefinition, FrameIdentifier, GateModifier, Instruction,
    MeasureCalibrationDefinition, MemoryReference, PragmaArgument, Qubit, ScalarType,
    WaveformInvocation,
};
use quil_rs::Program;
use std::collections::HashMap;

// ---------------------------------------------------------------------------------------------
// IR

#[derive(Clone, Debug, PartialEq, Eq, Hash, PartialOrd, Ord)]
pub enum MQubit {
    Fixed(u64),
    Var(String),
    /// Placeholders are never generated; kept so that the bridge is total.
    Placeholder,
}

#[derive(Clone, Debug, PartialEq, Eq, Hash)]
pub enum MExpr {
    /// Bit patterns of (re, im) so that the IR is `Eq + Hash`.
    Num(u64, u64),
    Pi,
    Var(String),
    Addr(String, u64),
    Prefix(char, Box<MExpr>),
    Infix(Box<MExpr>, char, Box<MExpr>),
    Call(&'static str, Box<MExpr>),
}

#[derive(Clone, Debug, PartialEq, Eq, Hash)]
pub struct MFrame {
    pub name: String,
    pub qubits: Vec<MQubit>,
}

#[derive(Clone, Debug, PartialEq, Eq, Hash)]
pub struct MGate {
    pub mods: Vec<&'static str>,
    pub name: String,
    pub params: Vec<MExpr>,
    pub qubits: Vec<MQubit>,
}

#[derive(Clone, Debug, PartialEq, Eq, Hash)]
pub struct MMeasure {
    pub name: Option<String>,
    pub qubit: MQubit,
    pub target: Option<(String, u64)>,
}

#[derive(Clone, Debug, PartialEq, Eq, Hash)]
pub enum MInstr {
    Gate(MGate),
    Measure(MMeasure),
    Reset(Option<MQubit>),
    Pulse { blocking: bool, frame: MFrame, wf: String, wf_params: Vec<(String, MExpr)> },
    Capture { blocking: bool, frame: MFrame, wf: String, wf_params: Vec<(String, MExpr)>, dest: (String, u64) },
    RawCapture { blocking: bool, frame: MFrame, duration: MExpr, dest: (String, u64) },
    Delay { qubits: Vec<MQubit>, frames: Vec<String>, duration: MExpr },
    Fence(Vec<MQubit>),
    /// SET-FREQUENCY / SET-PHASE / SET-SCALE / SHIFT-FREQUENCY / SHIFT-PHASE
    FrameExpr { kind: &'static str, frame: MFrame, expr: MExpr },
    SwapPhases(MFrame, MFrame),
    Declare { name: String, ty: &'static str, len: u64, shared: bool },
    Pragma { name: String, args: Vec<String>, data: Option<String> },
    Nop,
    /// Anything else (never generated): opaque, carries its debug text.
    Other(String),
}

impl MInstr {
    pub fn kind(&self) -> &'static str {
        match self {
            MInstr::Gate(_) => "Gate",
            MInstr::Measure(_) => "Measurement",
            MInstr::Reset(_) => "Reset",
            MInstr::Pulse { .. } => "Pulse",
            MInstr::Capture { .. } => "Capture",
            MInstr::RawCapture { .. } => "RawCapture",
            MInstr::Delay { .. } => "Delay",
            MInstr::Fence(_) => "Fence",
            MInstr::FrameExpr { kind, .. } => kind,
            MInstr::SwapPhases(..) => "SwapPhases",
            MInstr::Declare { .. } => "Declaration",
            MInstr::Pragma { .. } => "Pragma",
            MInstr::Nop => "Nop",
            MInstr::Other(_) => "Other",
        }
    }
    pub fn is_declare(&self) -> bool {
        matches!(self, MInstr::Declare { .. })
    }
}

#[derive(Clone, Debug, PartialEq, Eq, Hash)]
pub struct MGateCal {
    pub mods: Vec<&'static str>,
    pub name: String,
    pub params: Vec<MExpr>,
    pub qubits: Vec<MQubit>,
    pub body: Vec<MInstr>,
}

#[derive(Clone, Debug, PartialEq, Eq, Hash)]
pub struct MMeasCal {
    pub name: Option<String>,
    pub qubit: MQubit,
    pub target: Option<String>,
    pub body: Vec<MInstr>,
}

#[derive(Clone, Debug, Default, PartialEq, Eq)]
pub struct MCalSet {
    pub gate: Vec<MGateCal>,
    pub meas: Vec<MMeasCal>,
}

#[derive(Clone, Debug, Default)]
pub struct MProgram {
    pub cals: MCalSet,
    pub body: Vec<MInstr>,
    /// Names of the memory regions declared in the program header.
    pub declared: Vec<String>,
}

// ---------------------------------------------------------------------------------------------
// Expressions: evaluation and comparison

#[derive(Clone, Copy, Debug, PartialEq, Eq)]
pub enum Tri {
    Yes,
    No,
    Unknown,
}

fn num(e: &MExpr) -> Option<Complex64> {
    if let MExpr::Num(re, im) = e {
        Some(Complex64::new(f64::from_bits(*re), f64::from_bits(*im)))
    } else {
        None
    }
}

pub fn is_closed(e: &MExpr) -> bool {
    match e {
        MExpr::Num(..) | MExpr::Pi => true,
        MExpr::Var(_) | MExpr::Addr(..) => false,
        MExpr::Prefix(_, a) | MExpr::Call(_, a) => is_closed(a),
        MExpr::Infix(a, _, b) => is_closed(a) && is_closed(b),
    }
}

fn name_value(name: &str, idx: u64, salt: u64) -> Complex64 {
    // a deterministic, tame value in [0.3, 1.3) for a free name
    let mut h = 0xcbf29ce484222325u64 ^ salt.wrapping_mul(0x9E3779B97F4A7C15) ^ idx.wrapping_mul(0x100000001b3);
    for b in name.bytes() {
        h ^= b as u64;
        h = h.wrapping_mul(0x100000001b3);
    }
    h ^= h >> 29;
    Complex64::new(0.3 + (h % 1000) as f64 / 1000.0, 0.0)
}

/// Evaluate with free names bound to deterministic values (salt selects the environment).
pub fn eval(e: &MExpr, salt: u64) -> Complex64 {
    match e {
        MExpr::Num(..) => num(e).unwrap(),
        MExpr::Pi => Complex64::new(std::f64::consts::PI, 0.0),
        MExpr::Var(n) => name_value(n, u64::MAX, salt),
        MExpr::Addr(n, i) => name_value(n, *i, salt),
        MExpr::Prefix(op, a) => {
            let v = eval(a, salt);
            if *op == '-' {
                -v
            } else {
                v
            }
        }
        MExpr::Infix(a, op, b) => {
            let (x, y) = (eval(a, salt), eval(b, salt));
            match op {
                '+' => x + y,
                '-' => x - y,
                '*' => x * y,
                '/' => x / y,
                _ => x.powc(y),
            }
        }
        MExpr::Call(f, a) => {
            let v = eval(a, salt);
            match *f {
                "cis" => (Complex64::new(0.0, 1.0) * v).exp(),
                "cos" => v.cos(),
                "exp" => v.exp(),
                "sin" => v.sin(),
                _ => v.sqrt(),
            }
        }
    }
}

fn close(a: Complex64, b: Complex64, exact: bool) -> Tri {
    if !(a.re.is_finite() && a.im.is_finite() && b.re.is_finite() && b.im.is_finite()) {
        return Tri::Unknown;
    }
    let d = (a - b).norm();
    let scale = a.norm().max(b.norm()).max(1.0);
    if d == 0.0 || (!exact && d <= 1e-12 * scale) {
        Tri::Yes
    } else if d >= 1e-6 * scale {
        Tri::No
    } else {
        // nearly equal: neither "equal" nor "different" can be asserted
        Tri::Unknown
    }
}

/// Value comparison of two closed constants ("closed constants compared by value").
pub fn closed_equal(a: &MExpr, b: &MExpr) -> Tri {
    if a == b {
        return Tri::Yes;
    }
    // "equal" for matching purposes: the very same value; nearly equal constants (sin(pi) vs 0)
    // are left undecided
    close(eval(a, 0), eval(b, 0), true)
}

/// Do two expressions denote the same value (structurally equal, or equal at three environments)?
pub fn expr_equiv(a: &MExpr, b: &MExpr) -> Tri {
    if a == b {
        return Tri::Yes;
    }
    let mut all_yes = true;
    for salt in 0..3 {
        match close(eval(a, salt), eval(b, salt), false) {
            Tri::No => return Tri::No,
            Tri::Unknown => all_yes = false,
            Tri::Yes => {}
        }
    }
    if all_yes {
        Tri::Yes
    } else {
        Tri::Unknown
    }
}

fn subst_expr(e: &MExpr, map: &HashMap<String, MExpr>) -> MExpr {
    match e {
        MExpr::Var(n) => map.get(n).cloned().unwrap_or_else(|| e.clone()),
        MExpr::Num(..) | MExpr::Pi | MExpr::Addr(..) => e.clone(),
        MExpr::Prefix(op, a) => MExpr::Prefix(*op, Box::new(subst_expr(a, map))),
        MExpr::Call(f, a) => MExpr::Call(f, Box::new(subst_expr(a, map))),
        MExpr::Infix(a, op, b) => {
            MExpr::Infix(Box::new(subst_expr(a, map)), *op, Box::new(subst_expr(b, map)))
        }
    }
}

// ---------------------------------------------------------------------------------------------
// Matching (C16)

/// Result of a lookup.
#[derive(Clone, Debug, Default)]
pub struct Lookup {
    /// Indices (into the set) of all matching calibrations.
    pub candidates: Vec<usize>,
    pub winner: Option<usize>,
    /// Some comparison could not be decided (nearly-equal constants, exotic parameter forms).
    pub unknown: bool,
}

pub fn gate_cal_matches(cal: &MGateCal, g: &MGate) -> Tri {
    if cal.name != g.name
        || cal.mods != g.mods
        || cal.params.len() != g.params.len()
        || cal.qubits.len() != g.qubits.len()
    {
        return Tri::No;
    }
    for (cq, gq) in cal.qubits.iter().zip(&g.qubits) {
        match (cq, gq) {
            (MQubit::Placeholder, _) | (_, MQubit::Placeholder) => return Tri::Unknown,
            (MQubit::Var(_), _) => {}
            (MQubit::Fixed(a), MQubit::Fixed(b)) => {
                if a != b {
                    return Tri::No;
                }
            }
            (MQubit::Fixed(_), MQubit::Var(_)) => return Tri::No,
        }
    }
    let mut unknown = false;
    for (cp, gp) in cal.params.iter().zip(&g.params) {
        match cp {
            MExpr::Var(_) => {}
            _ if is_closed(cp) => {
                if is_closed(gp) {
                    match closed_equal(cp, gp) {
                        Tri::Yes => {}
                        Tri::No => return Tri::No,
                        Tri::Unknown => unknown = true,
                    }
                } else if matches!(gp, MExpr::Var(_) | MExpr::Addr(..)) {
                    // a constant never equals an unbound variable / memory reference
                    return Tri::No;
                } else {
                    // open compound expression against a constant: only decidable if it can
                    // never be that constant; the generators do not produce such cases
                    unknown = true;
                }
            }
            _ => {
                // non-variable, non-closed calibration parameter: equal only to the same text
                if cp != gp {
                    unknown = true;
                }
            }
        }
    }
    if unknown {
        Tri::Unknown
    } else {
        Tri::Yes
    }
}

fn fixed_count(cal: &MGateCal) -> usize {
    cal.qubits.iter().filter(|q| matches!(q, MQubit::Fixed(_))).count()
}

pub fn match_gate(set: &MCalSet, g: &MGate) -> Lookup {
    let mut r = Lookup::default();
    let mut best: Option<(usize, usize)> = None;
    for (i, cal) in set.gate.iter().enumerate() {
        match gate_cal_matches(cal, g) {
            Tri::No => {}
            Tri::Unknown => r.unknown = true,
            Tri::Yes => {
                r.candidates.push(i);
                let fc = fixed_count(cal);
                // most fixed qubits wins; ties go to the later definition
                if best.map_or(true, |(_, bfc)| fc >= bfc) {
                    best = Some((i, fc));
                }
            }
        }
    }
    r.winner = best.map(|(i, _)| i);
    r
}

pub fn match_measure(set: &MCalSet, m: &MMeasure) -> Lookup {
    let mut r = Lookup::default();
    let (mut exact, mut wildcard) = (None, None);
    for (i, cal) in set.meas.iter().enumerate() {
        if cal.name != m.name || cal.target.is_some() != m.target.is_some() {
            continue;
        }
        match (&cal.qubit, &m.qubit) {
            (MQubit::Placeholder, _) | (_, MQubit::Placeholder) => r.unknown = true,
            (MQubit::Var(_), _) => {
                r.candidates.push(i);
                wildcard = Some(i); // later definition wins
            }
            (MQubit::Fixed(a), MQubit::Fixed(b)) if a == b => {
                r.candidates.push(i);
                exact = Some(i);
            }
            _ => {}
        }
    }
    r.winner = exact.or(wildcard);
    r
}

/// Insert with "identical signature replaces in place" semantics.  Returns true if it replaced.
pub fn insert_gate_cal(set: &mut MCalSet, cal: MGateCal) -> bool {
    for c in set.gate.iter_mut() {
        if c.mods == cal.mods && c.name == cal.name && c.params == cal.params && c.qubits == cal.qubits {
            *c = cal;
            return true;
        }
    }
    set.gate.push(cal);
    false
}

pub fn insert_meas_cal(set: &mut MCalSet, cal: MMeasCal) -> bool {
    for c in set.meas.iter_mut() {
        if c.name == cal.name && c.qubit == cal.qubit && c.target == cal.target {
            *c = cal;
            return true;
        }
    }
    set.meas.push(cal);
    false
}

// ---------------------------------------------------------------------------------------------
// One-level substitution (C17)

fn subst_qubit(q: &MQubit, qmap: &HashMap<String, MQubit>) -> MQubit {
    match q {
        MQubit::Var(n) => qmap.get(n).cloned().unwrap_or_else(|| q.clone()),
        _ => q.clone(),
    }
}

fn subst_frame(f: &MFrame, qmap: &HashMap<String, MQubit>) -> MFrame {
    MFrame { name: f.name.clone(), qubits: f.qubits.iter().map(|q| subst_qubit(q, qmap)).collect() }
}

/// Substitute qubit variables and parameter variables in *every* slot of an instruction.
fn subst_instr(i: &MInstr, qmap: &HashMap<String, MQubit>, pmap: &HashMap<String, MExpr>) -> MInstr {
    let sq = |qs: &Vec<MQubit>| qs.iter().map(|q| subst_qubit(q, qmap)).collect::<Vec<_>>();
    let sp = |ps: &Vec<(String, MExpr)>| {
        ps.iter().map(|(k, e)| (k.clone(), subst_expr(e, pmap))).collect::<Vec<_>>()
    };
    match i {
        MInstr::Gate(g) => MInstr::Gate(MGate {
            mods: g.mods.clone(),
            name: g.name.clone(),
            params: g.params.iter().map(|e| subst_expr(e, pmap)).collect(),
            qubits: sq(&g.qubits),
        }),
        MInstr::Measure(m) => MInstr::Measure(MMeasure {
            name: m.name.clone(),
            qubit: subst_qubit(&m.qubit, qmap),
            target: m.target.clone(),
        }),
        MInstr::Reset(q) => MInstr::Reset(q.as_ref().map(|q| subst_qubit(q, qmap))),
        MInstr::Pulse { blocking, frame, wf, wf_params } => MInstr::Pulse {
            blocking: *blocking,
            frame: subst_frame(frame, qmap),
            wf: wf.clone(),
            wf_params: sp(wf_params),
        },
        MInstr::Capture { blocking, frame, wf, wf_params, dest } => MInstr::Capture {
            blocking: *blocking,
            frame: subst_frame(frame, qmap),
            wf: wf.clone(),
            wf_params: sp(wf_params),
            dest: dest.clone(),
        },
        MInstr::RawCapture { blocking, frame, duration, dest } => MInstr::RawCapture {
            blocking: *blocking,
            frame: subst_frame(frame, qmap),
            duration: subst_expr(duration, pmap),
            dest: dest.clone(),
        },
        MInstr::Delay { qubits, frames, duration } => MInstr::Delay {
            qubits: sq(qubits),
            frames: frames.clone(),
            duration: subst_expr(duration, pmap),
        },
        MInstr::Fence(qs) => MInstr::Fence(sq(qs)),
        MInstr::FrameExpr { kind, frame, expr } => MInstr::FrameExpr {
            kind,
            frame: subst_frame(frame, qmap),
            expr: subst_expr(expr, pmap),
        },
        MInstr::SwapPhases(a, b) => MInstr::SwapPhases(subst_frame(a, qmap), subst_frame(b, qmap)),
        MInstr::Declare { .. } | MInstr::Pragma { .. } | MInstr::Nop | MInstr::Other(_) => i.clone(),
    }
}

/// Body of `cal` with the gate's qubits and parameters substituted for the calibration's
/// variables.  `Err` if the binding is ambiguous (same variable bound twice to different things).
pub fn substitute_gate_cal(cal: &MGateCal, g: &MGate) -> Result<Vec<MInstr>, String> {
    let mut qmap: HashMap<String, MQubit> = HashMap::new();
    for (cq, gq) in cal.qubits.iter().zip(&g.qubits) {
        if let MQubit::Var(n) = cq {
            if let Some(prev) = qmap.insert(n.clone(), gq.clone()) {
                if &prev != gq {
                    return Err(format!("qubit variable {n} bound twice"));
                }
            }
        }
    }
    let mut pmap: HashMap<String, MExpr> = HashMap::new();
    for (cp, gp) in cal.params.iter().zip(&g.params) {
        if let MExpr::Var(n) = cp {
            if let Some(prev) = pmap.insert(n.clone(), gp.clone()) {
                if &prev != gp {
                    return Err(format!("parameter variable {n} bound twice"));
                }
            }
        }
    }
    Ok(cal.body.iter().map(|i| subst_instr(i, &qmap, &pmap)).collect())
}

/// Rendering of a memory reference the way a use of the target is written in PRAGMA data.
pub fn memref_text(name: &str, idx: u64) -> String {
    format!("{name}[{idx}]")
}

/// Body of `cal` for measurement `m`: the measured qubit replaces the qubit variable, the
/// measurement's target replaces uses of the target name, everything else stays as written.
pub fn substitute_meas_cal(cal: &MMeasCal, m: &MMeasure) -> Result<Vec<MInstr>, String> {
    let mut qmap: HashMap<String, MQubit> = HashMap::new();
    if let MQubit::Var(n) = &cal.qubit {
        qmap.insert(n.clone(), m.qubit.clone());
    }
    let pmap = HashMap::new();
    let mut out = Vec::with_capacity(cal.body.len());
    for i in &cal.body {
        let mut s = subst_instr(i, &qmap, &pmap);
        if let (Some(tname), Some((rname, ridx))) = (&cal.target, &m.target) {
            match &mut s {
                MInstr::Capture { dest, .. } | MInstr::RawCapture { dest, .. } if &dest.0 == tname => {
                    if dest.1 != 0 {
                        return Err("indexed use of the target name".into());
                    }
                    *dest = (rname.clone(), *ridx);
                }
                MInstr::Pragma { name, data, .. } if name == "LOAD-MEMORY" && data.as_deref() == Some(tname.as_str()) => {
                    *data = Some(memref_text(rname, *ridx));
                }
                _ => {}
            }
        }
        out.push(s);
    }
    Ok(out)
}

// ---------------------------------------------------------------------------------------------
// Expansion tree (C17, C18, C19)

#[derive(Clone, Copy, Debug, PartialEq, Eq, Hash)]
pub enum CalRef {
    Gate(usize),
    Meas(usize),
}

#[derive(Clone, Debug)]
pub struct ExpNode {
    pub cal: CalRef,
    /// The instruction (already substituted by its parents) that was matched.
    pub invoked: MInstr,
    /// One child per instruction of the calibration body, in order.
    pub children: Vec<Child>,
}

#[derive(Clone, Debug)]
pub enum Child {
    Leaf(MInstr),
    Exp(ExpNode),
}

#[derive(Clone, Debug, PartialEq, Eq)]
pub enum Stop {
    /// An instruction would be expanded again while it is already being expanded.
    Recursive(MInstr),
    /// The model ran out of fuel with all path entries distinct (divergent without repetition as
    /// far as the model can see).
    Fuel,
    /// The model cannot decide (ambiguous binding, undecidable comparison).
    Ambiguous(String),
}

pub struct Expander<'a> {
    pub set: &'a MCalSet,
    /// Instructions visited (top-level and every calibration-body instruction).
    pub visited: u64,
    /// Deepest expansion path (number of instructions being expanded at once).
    pub max_depth: usize,
    pub expansions: u64,
    pub depth_limit: usize,
    pub visit_limit: u64,
    /// Every (calibration, invoking instruction) pair expanded (for the one-level oracle).
    pub invocations: Vec<(CalRef, MInstr)>,
}

pub const DEPTH_LIMIT: usize = 64;
pub const VISIT_LIMIT: u64 = 200_000;

impl<'a> Expander<'a> {
    pub fn new(set: &'a MCalSet) -> Self {
        Expander {
            set,
            visited: 0,
            max_depth: 0,
            expansions: 0,
            depth_limit: DEPTH_LIMIT,
            visit_limit: VISIT_LIMIT,
            invocations: Vec::new(),
        }
    }

    /// The winning calibration for an instruction, if any.
    pub fn lookup(&self, i: &MInstr) -> Result<Option<CalRef>, Stop> {
        let (l, mk): (Lookup, fn(usize) -> CalRef) = match i {
            MInstr::Gate(g) => (match_gate(self.set, g), CalRef::Gate),
            MInstr::Measure(m) => (match_measure(self.set, m), CalRef::Meas),
            _ => return Ok(None),
        };
        if l.unknown {
            return Err(Stop::Ambiguous("undecidable match".into()));
        }
        Ok(l.winner.map(mk))
    }

    pub fn one_level(&self, cal: CalRef, i: &MInstr) -> Result<Vec<MInstr>, Stop> {
        match (cal, i) {
            (CalRef::Gate(k), MInstr::Gate(g)) => substitute_gate_cal(&self.set.gate[k], g),
            (CalRef::Meas(k), MInstr::Measure(m)) => substitute_meas_cal(&self.set.meas[k], m),
            _ => Err("calibration kind mismatch".to_string()),
        }
        .map_err(Stop::Ambiguous)
    }

    /// Expand one instruction; `path` holds the instructions currently being expanded.
    pub fn expand(&mut self, i: &MInstr, path: &mut Vec<MInstr>) -> Result<Option<ExpNode>, Stop> {
        self.visited += 1;
        if self.visited > self.visit_limit {
            return Err(Stop::Fuel);
        }
        let Some(cal) = self.lookup(i)? else {
            return Ok(None);
        };
        // `i` would be expanded; is an identical instruction already being expanded?
        if path.contains(i) {
            return Err(Stop::Recursive(i.clone()));
        }
        if path.len() >= self.depth_limit {
            return Err(Stop::Fuel);
        }
        let body = self.one_level(cal, i)?;
        self.expansions += 1;
        if self.invocations.len() < 256 {
            self.invocations.push((cal, i.clone()));
        }
        path.push(i.clone());
        self.max_depth = self.max_depth.max(path.len());
        let mut children = Vec::with_capacity(body.len());
        for b in body {
            match self.expand(&b, path) {
                Ok(Some(n)) => children.push(Child::Exp(n)),
                Ok(None) => children.push(Child::Leaf(b)),
                Err(e) => {
                    path.pop();
                    return Err(e);
                }
            }
        }
        path.pop();
        Ok(Some(ExpNode { cal, invoked: i.clone(), children }))
    }
}

impl ExpNode {
    /// Leaves in output order (declarations included).
    pub fn leaves<'b>(&'b self, out: &mut Vec<&'b MInstr>) {
        for c in &self.children {
            match c {
                Child::Leaf(i) => out.push(i),
                Child::Exp(n) => n.leaves(out),
            }
        }
    }
    pub fn depth(&self) -> usize {
        1 + self
            .children
            .iter()
            .map(|c| if let Child::Exp(n) = c { n.depth() } else { 0 })
            .max()
            .unwrap_or(0)
    }
    /// Number of leaves that stay in the body (are not hoisted).
    pub fn body_len(&self) -> usize {
        let mut v = Vec::new();
        self.leaves(&mut v);
        v.iter().filter(|i| !i.is_declare()).count()
    }
    pub fn hoisted(&self) -> usize {
        let mut v = Vec::new();
        self.leaves(&mut v);
        v.iter().filter(|i| i.is_declare()).count()
    }
}

/// What the model expects of a whole-program expansion.
#[derive(Clone, Debug)]
pub struct ModelExpansion {
    /// Per top-level instruction: the expansion tree, or None if unmatched.
    pub top: Vec<Option<ExpNode>>,
    /// Expected body (declarations hoisted out).
    pub body: Vec<MInstr>,
    /// Declarations emitted by calibrations (expected in the memory regions).
    pub hoisted: Vec<MInstr>,
    pub visited: u64,
    pub expansions: u64,
    pub max_depth: usize,
    pub invocations: Vec<(CalRef, MInstr)>,
}

/// Statistics of a model run, available whether or not it finished.
#[derive(Clone, Debug, Default)]
pub struct ModelStats {
    pub visited: u64,
    pub max_depth: usize,
    pub invocations: Vec<(CalRef, MInstr)>,
}

/// Expand a whole program.  The error is the first recursion / fuel exhaustion / ambiguity met in
/// depth-first program order.
pub fn expand_program_full(p: &MProgram) -> (Result<ModelExpansion, Stop>, ModelStats) {
    let mut ex = Expander::new(&p.cals);
    let mut top = Vec::with_capacity(p.body.len());
    let mut body = Vec::new();
    let mut hoisted = Vec::new();
    let mut stop = None;
    for i in &p.body {
        let mut path = Vec::new();
        match ex.expand(i, &mut path) {
            Err(e) => {
                stop = Some(e);
                break;
            }
            Ok(None) => {
                body.push(i.clone());
                top.push(None);
            }
            Ok(Some(n)) => {
                let mut leaves = Vec::new();
                n.leaves(&mut leaves);
                for l in leaves {
                    if l.is_declare() {
                        hoisted.push(l.clone());
                    } else {
                        body.push(l.clone());
                    }
                }
                top.push(Some(n));
            }
        }
    }
    let stats = ModelStats { visited: ex.visited, max_depth: ex.max_depth, invocations: ex.invocations.clone() };
    match stop {
        Some(e) => (Err(e), stats),
        None => (
            Ok(ModelExpansion {
                top,
                body,
                hoisted,
                visited: ex.visited,
                expansions: ex.expansions,
                max_depth: ex.max_depth,
                invocations: ex.invocations,
            }),
            stats,
        ),
    }
}

/// As `expand_program_full`, with the statistics folded into the error.
pub fn expand_program(p: &MProgram) -> Result<ModelExpansion, (Stop, u64, usize)> {
    let (r, st) = expand_program_full(p);
    r.map_err(|e| (e, st.visited, st.max_depth))
}

// ---------------------------------------------------------------------------------------------
// Expected source map (C19), derived from the expansion tree

#[derive(Clone, Debug, PartialEq, Eq)]
pub enum MTarget {
    /// Index relative to the parent range (absolute at top level).
    Unmodified(usize),
    Rewritten { cal: CalRef, start: usize, end: usize, nested: Vec<MEntry> },
}

#[derive(Clone, Debug, PartialEq, Eq)]
pub struct MEntry {
    pub source: usize,
    pub target: MTarget,
}

/// Entries for the children of `n`, relative to the start of `n`'s own range.  With `hoist`, an
/// instruction that contributes nothing to the body (a hoisted declaration, an expansion made only
/// of those) has no entry and takes no position; without it (the map of a single instruction's
/// expansion before anything is hoisted) declarations are ordinary instructions.
pub fn nested_entries(n: &ExpNode, hoist: bool) -> Vec<MEntry> {
    let mut out = Vec::new();
    let mut pos = 0usize;
    for (s, c) in n.children.iter().enumerate() {
        match c {
            Child::Leaf(i) => {
                if !(hoist && i.is_declare()) {
                    out.push(MEntry { source: s, target: MTarget::Unmodified(pos) });
                    pos += 1;
                }
            }
            Child::Exp(sub) => {
                let len = if hoist { sub.body_len() } else { sub.body_len() + sub.hoisted() };
                if len > 0 || !hoist {
                    out.push(MEntry {
                        source: s,
                        target: MTarget::Rewritten { cal: sub.cal, start: pos, end: pos + len, nested: nested_entries(sub, hoist) },
                    });
                    pos += len;
                }
            }
        }
    }
    out
}

pub fn expected_source_map(m: &ModelExpansion) -> Vec<MEntry> {
    let mut out = Vec::new();
    let mut pos = 0usize;
    for (s, t) in m.top.iter().enumerate() {
        match t {
            None => {
                out.push(MEntry { source: s, target: MTarget::Unmodified(pos) });
                pos += 1;
            }
            Some(n) => {
                let len = n.body_len();
                if len > 0 {
                    out.push(MEntry {
                        source: s,
                        target: MTarget::Rewritten { cal: n.cal, start: pos, end: pos + len, nested: nested_entries(n, true) },
                    });
                    pos += len;
                }
            }
        }
    }
    out
}

// ---------------------------------------------------------------------------------------------
// Bridge: structural translation of quil-rs values into the IR (reads public fields only)

pub fn conv_expr(e: &Expression) -> MExpr {
    match e {
        Expression::Address(MemoryReference { name, index }) => MExpr::Addr(name.clone(), *index),
        Expression::FunctionCall(FunctionCallExpression { function, expression }) => MExpr::Call(
            match function {
                ExpressionFunction::Cis => "cis",
                ExpressionFunction::Cosine => "cos",
                ExpressionFunction::Exponent => "exp",
                ExpressionFunction::Sine => "sin",
                ExpressionFunction::SquareRoot => "sqrt",
            },
            Box::new(conv_expr(expression)),
        ),
        Expression::Infix(InfixExpression { left, operator, right }) => MExpr::Infix(
            Box::new(conv_expr(left)),
            match operator {
                InfixOperator::Caret => '^',
                InfixOperator::Plus => '+',
                InfixOperator::Minus => '-',
                InfixOperator::Slash => '/',
                InfixOperator::Star => '*',
            },
            Box::new(conv_expr(right)),
        ),
        Expression::Number(c) => MExpr::Num(c.re.to_bits(), c.im.to_bits()),
        Expression::PiConstant() => MExpr::Pi,
        Expression::Prefix(PrefixExpression { operator, expression }) => MExpr::Prefix(
            match operator {
                PrefixOperator::Plus => '+',
                PrefixOperator::Minus => '-',
            },
            Box::new(conv_expr(expression)),
        ),
        Expression::Variable(n) => MExpr::Var(n.clone()),
    }
}

pub fn conv_qubit(q: &Qubit) -> MQubit {
    match q {
        Qubit::Fixed(n) => MQubit::Fixed(*n),
        Qubit::Variable(n) => MQubit::Var(n.clone()),
        Qubit::Placeholder(_) => MQubit::Placeholder,
    }
}

fn conv_frame(f: &FrameIdentifier) -> MFrame {
    MFrame { name: f.name.clone(), qubits: f.qubits.iter().map(conv_qubit).collect() }
}

fn conv_wf(w: &WaveformInvocation) -> (String, Vec<(String, MExpr)>) {
    (w.name.clone(), w.parameters.iter().map(|(k, e)| (k.clone(), conv_expr(e))).collect())
}

pub fn conv_mods(m: &[GateModifier]) -> Vec<&'static str> {
    m.iter()
        .map(|m| match m {
            GateModifier::Controlled => "CONTROLLED",
            GateModifier::Dagger => "DAGGER",
            GateModifier::Forked => "FORKED",
        })
        .collect()
}

pub fn conv_instr(i: &Instruction) -> MInstr {
    match i {
        Instruction::Gate(g) => MInstr::Gate(MGate {
            mods: conv_mods(&g.modifiers),
            name: g.name.clone(),
            params: g.parameters.iter().map(conv_expr).collect(),
            qubits: g.qubits.iter().map(conv_qubit).collect(),
        }),
        Instruction::Measurement(m) => MInstr::Measure(MMeasure {
            name: m.name.clone(),
            qubit: conv_qubit(&m.qubit),
            target: m.target.as_ref().map(|t| (t.name.clone(), t.index)),
        }),
        Instruction::Reset(r) => MInstr::Reset(r.qubit.as_ref().map(conv_qubit)),
        Instruction::Pulse(p) => {
            let (wf, wf_params) = conv_wf(&p.waveform);
            MInstr::Pulse { blocking: p.blocking, frame: conv_frame(&p.frame), wf, wf_params }
        }
        Instruction::Capture(c) => {
            let (wf, wf_params) = conv_wf(&c.waveform);
            MInstr::Capture {
                blocking: c.blocking,
                frame: conv_frame(&c.frame),
                wf,
                wf_params,
                dest: (c.memory_reference.name.clone(), c.memory_reference.index),
            }
        }
        Instruction::RawCapture(c) => MInstr::RawCapture {
            blocking: c.blocking,
            frame: conv_frame(&c.frame),
            duration: conv_expr(&c.duration),
            dest: (c.memory_reference.name.clone(), c.memory_reference.index),
        },
        Instruction::Delay(d) => MInstr::Delay {
            qubits: d.qubits.iter().map(conv_qubit).collect(),
            frames: d.frame_names.clone(),
            duration: conv_expr(&d.duration),
        },
        Instruction::Fence(f) => MInstr::Fence(f.qubits.iter().map(conv_qubit).collect()),
        Instruction::SetFrequency(x) => MInstr::FrameExpr { kind: "SetFrequency", frame: conv_frame(&x.frame), expr: conv_expr(&x.frequency) },
        Instruction::SetPhase(x) => MInstr::FrameExpr { kind: "SetPhase", frame: conv_frame(&x.frame), expr: conv_expr(&x.phase) },
        Instruction::SetScale(x) => MInstr::FrameExpr { kind: "SetScale", frame: conv_frame(&x.frame), expr: conv_expr(&x.scale) },
        Instruction::ShiftFrequency(x) => MInstr::FrameExpr { kind: "ShiftFrequency", frame: conv_frame(&x.frame), expr: conv_expr(&x.frequency) },
        Instruction::ShiftPhase(x) => MInstr::FrameExpr { kind: "ShiftPhase", frame: conv_frame(&x.frame), expr: conv_expr(&x.phase) },
        Instruction::SwapPhases(s) => MInstr::SwapPhases(conv_frame(&s.frame_1), conv_frame(&s.frame_2)),
        Instruction::Declaration(d) => MInstr::Declare {
            name: d.name.clone(),
            ty: match d.size.data_type {
                ScalarType::Bit => "BIT",
                ScalarType::Integer => "INTEGER",
                ScalarType::Octet => "OCTET",
                ScalarType::Real => "REAL",
            },
            len: d.size.length,
            shared: d.sharing.is_some(),
        },
        Instruction::Pragma(p) => MInstr::Pragma {
            name: p.name.clone(),
            args: p
                .arguments
                .iter()
                .map(|a| match a {
                    PragmaArgument::Identifier(s) => s.clone(),
                    PragmaArgument::Integer(n) => n.to_string(),
                })
                .collect(),
            data: p.data.clone(),
        },
        Instruction::Nop() => MInstr::Nop,
        other => MInstr::Other(format!("{other:?}")),
    }
}

pub fn conv_gate_cal(c: &CalibrationDefinition) -> MGateCal {
    MGateCal {
        mods: conv_mods(&c.identifier.modifiers),
        name: c.identifier.name.clone(),
        params: c.identifier.parameters.iter().map(conv_expr).collect(),
        qubits: c.identifier.qubits.iter().map(conv_qubit).collect(),
        body: c.instructions.iter().map(conv_instr).collect(),
    }
}

pub fn conv_meas_cal(c: &MeasureCalibrationDefinition) -> MMeasCal {
    MMeasCal {
        name: c.identifier.name.clone(),
        qubit: conv_qubit(&c.identifier.qubit),
        target: c.identifier.target.clone(),
        body: c.instructions.iter().map(conv_instr).collect(),
    }
}

/// The calibrations (in the set's iteration order) and the body of a parsed program.
pub fn conv_program(p: &Program) -> MProgram {
    MProgram {
        cals: MCalSet {
            gate: p.calibrations.iter_calibrations().map(conv_gate_cal).collect(),
            meas: p.calibrations.iter_measure_calibrations().map(conv_meas_cal).collect(),
        },
        body: p.body_instructions().map(conv_instr).collect(),
        declared: p.memory_regions.keys().cloned().collect(),
    }
}

/// Does a program use only what the model understands (no opaque instruction anywhere, no
/// placeholder)?  Programs outside that fragment are not judged.
pub fn in_fragment(p: &MProgram) -> bool {
    fn ok(i: &MInstr) -> bool {
        !matches!(i, MInstr::Other(_))
    }
    p.body.iter().all(ok)
        && p.cals.gate.iter().all(|c| c.body.iter().all(ok))
        && p.cals.meas.iter().all(|c| c.body.iter().all(ok))
}

// ---------------------------------------------------------------------------------------------
// Comparison of an observed instruction with an expected one (values, not spellings)

/// Which slot of two same-kind instructions differs first ("qubits", "parameter", "destination",
/// "pragma-data", "other"), or None if they agree (expressions compared by value).
pub fn first_difference(real: &MInstr, exp: &MInstr) -> Option<&'static str> {
    fn exprs(a: &[MExpr], b: &[MExpr]) -> bool {
        a.len() == b.len() && a.iter().zip(b).all(|(x, y)| expr_equiv(x, y) != Tri::No)
    }
    fn wfp(a: &[(String, MExpr)], b: &[(String, MExpr)]) -> bool {
        a.len() == b.len() && a.iter().zip(b).all(|((k, x), (l, y))| k == l && expr_equiv(x, y) != Tri::No)
    }
    if real == exp {
        return None;
    }
    match (real, exp) {
        (MInstr::Gate(a), MInstr::Gate(b)) => {
            if a.name != b.name || a.mods != b.mods {
                Some("other")
            } else if a.qubits != b.qubits {
                Some("qubits")
            } else if !exprs(&a.params, &b.params) {
                Some("parameter")
            } else {
                None
            }
        }
        (MInstr::Measure(a), MInstr::Measure(b)) => {
            if a.name != b.name {
                Some("other")
            } else if a.qubit != b.qubit {
                Some("qubits")
            } else if a.target != b.target {
                Some("destination")
            } else {
                None
            }
        }
        (MInstr::Reset(a), MInstr::Reset(b)) => (a != b).then_some("qubits"),
        (MInstr::Pulse { blocking: b1, frame: f1, wf: w1, wf_params: p1 }, MInstr::Pulse { blocking: b2, frame: f2, wf: w2, wf_params: p2 }) => {
            if b1 != b2 || w1 != w2 || f1.name != f2.name {
                Some("other")
            } else if f1.qubits != f2.qubits {
                Some("qubits")
            } else if !wfp(p1, p2) {
                Some("parameter")
            } else {
                None
            }
        }
        (
            MInstr::Capture { blocking: b1, frame: f1, wf: w1, wf_params: p1, dest: d1 },
            MInstr::Capture { blocking: b2, frame: f2, wf: w2, wf_params: p2, dest: d2 },
        ) => {
            if b1 != b2 || w1 != w2 || f1.name != f2.name {
                Some("other")
            } else if f1.qubits != f2.qubits {
                Some("qubits")
            } else if d1 != d2 {
                Some("destination")
            } else if !wfp(p1, p2) {
                Some("parameter")
            } else {
                None
            }
        }
        (
            MInstr::RawCapture { blocking: b1, frame: f1, duration: e1, dest: d1 },
            MInstr::RawCapture { blocking: b2, frame: f2, duration: e2, dest: d2 },
        ) => {
            if b1 != b2 || f1.name != f2.name {
                Some("other")
            } else if f1.qubits != f2.qubits {
                Some("qubits")
            } else if d1 != d2 {
                Some("destination")
            } else if expr_equiv(e1, e2) == Tri::No {
                Some("parameter")
            } else {
                None
            }
        }
        (MInstr::Delay { qubits: q1, frames: f1, duration: e1 }, MInstr::Delay { qubits: q2, frames: f2, duration: e2 }) => {
            if f1 != f2 {
                Some("other")
            } else if q1 != q2 {
                Some("qubits")
            } else if expr_equiv(e1, e2) == Tri::No {
                Some("parameter")
            } else {
                None
            }
        }
        (MInstr::Fence(a), MInstr::Fence(b)) => (a != b).then_some("qubits"),
        (MInstr::FrameExpr { kind: k1, frame: f1, expr: e1 }, MInstr::FrameExpr { kind: k2, frame: f2, expr: e2 }) => {
            if k1 != k2 || f1.name != f2.name {
                Some("other")
            } else if f1.qubits != f2.qubits {
                Some("qubits")
            } else if expr_equiv(e1, e2) == Tri::No {
                Some("parameter")
            } else {
                None
            }
        }
        (MInstr::SwapPhases(a1, b1), MInstr::SwapPhases(a2, b2)) => {
            if a1.name != a2.name || b1.name != b2.name {
                Some("other")
            } else {
                Some("qubits")
            }
        }
        (MInstr::Pragma { name: n1, args: a1, data: d1 }, MInstr::Pragma { name: n2, args: a2, data: d2 }) => {
            if n1 != n2 || a1 != a2 {
                Some("other")
            } else {
                // "ro" and "ro[0]" are the same use of a target
                let norm = |d: &Option<String>| d.as_ref().map(|s| if s.contains('[') { s.clone() } else { format!("{s}[0]") });
                if n1 == "LOAD-MEMORY" && norm(d1) == norm(d2) {
                    None
                } else if d1 != d2 {
                    Some("pragma-data")
                } else {
                    None
                }
            }
        }
        _ => Some("other"),
    }
}

/// Observed body equals expected body (value comparison of expressions)?
pub fn bodies_agree(real: &[MInstr], exp: &[MInstr]) -> bool {
    real.len() == exp.len() && real.iter().zip(exp).all(|(r, e)| first_difference(r, e).is_none())
}

// ---------------------------------------------------------------------------------------------
// Bridge, other direction: build a quil-rs gate / measurement from the IR (public fields only), so
// that an instruction met deep inside the model's expansion can be handed to the real code.

pub fn to_real_expr(e: &MExpr) -> Expression {
    match e {
        MExpr::Num(re, im) => Expression::Number(Complex64::new(f64::from_bits(*re), f64::from_bits(*im))),
        MExpr::Pi => Expression::PiConstant(),
        MExpr::Var(n) => Expression::Variable(n.clone()),
        MExpr::Addr(n, i) => Expression::Address(MemoryReference { name: n.clone(), index: *i }),
        MExpr::Prefix(op, a) => Expression::Prefix(PrefixExpression::new(
            if *op == '-' { PrefixOperator::Minus } else { PrefixOperator::Plus },
            to_real_expr(a).into(),
        )),
        MExpr::Infix(a, op, b) => Expression::Infix(InfixExpression::new(
            to_real_expr(a).into(),
            match op {
                '^' => InfixOperator::Caret,
                '+' => InfixOperator::Plus,
                '-' => InfixOperator::Minus,
                '/' => InfixOperator::Slash,
                _ => InfixOperator::Star,
            },
            to_real_expr(b).into(),
        )),
        MExpr::Call(f, a) => Expression::FunctionCall(FunctionCallExpression::new(
            match *f {
                "cis" => ExpressionFunction::Cis,
                "cos" => ExpressionFunction::Cosine,
                "exp" => ExpressionFunction::Exponent,
                "sin" => ExpressionFunction::Sine,
                _ => ExpressionFunction::SquareRoot,
            },
            to_real_expr(a).into(),
        )),
    }
}

fn to_real_qubit(q: &MQubit) -> Option<Qubit> {
    match q {
        MQubit::Fixed(n) => Some(Qubit::Fixed(*n)),
        MQubit::Var(n) => Some(Qubit::Variable(n.clone())),
        MQubit::Placeholder => None,
    }
}

/// Gates and measurements only (the instructions that can be looked up).
pub fn to_real_invocation(i: &MInstr) -> Option<Instruction> {
    match i {
        MInstr::Gate(g) => Some(Instruction::Gate(quil_rs::instruction::Gate {
            name: g.name.clone(),
            parameters: g.params.iter().map(to_real_expr).collect(),
            qubits: g.qubits.iter().map(to_real_qubit).collect::<Option<Vec<_>>>()?,
            modifiers: g
                .mods
                .iter()
                .map(|m| match *m {
                    "CONTROLLED" => GateModifier::Controlled,
                    "DAGGER" => GateModifier::Dagger,
                    _ => GateModifier::Forked,
                })
                .collect(),
        })),
        MInstr::Measure(m) => Some(Instruction::Measurement(quil_rs::instruction::Measurement {
            name: m.name.clone(),
            qubit: to_real_qubit(&m.qubit)?,
            target: m.target.as_ref().map(|(n, i)| MemoryReference { name: n.clone(), index: *i }),
        })),
        _ => None,
    }
}

/// Short label of a `ProgramError` (variant name).
pub fn error_kind(e: &quil_rs::program::ProgramError) -> String {
    let d = format!("{e:?}");
    d.split(|c: char| !c.is_ascii_alphanumeric()).next().unwrap_or("?").to_string()
}
