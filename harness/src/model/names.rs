//! Independent walk over the public AST collecting every identifier-like name (with a role tag).
//! Used by C06 (names preserved).  Strings (frame names, pragma data, include file names) are
//! deliberately not names.

use quil_rs::expression::Expression;
use quil_rs::instruction::{
    ArithmeticOperand, AttributeValue, BinaryOperand, ComparisonOperand, FrameIdentifier,
    GateSpecification, Instruction, MemoryReference, PragmaArgument, Qubit, Target,
    UnresolvedCallArgument, WaveformInvocation,
};

pub type Names = Vec<(&'static str, String)>;

pub fn expr_names(e: &Expression, out: &mut Names) {
    match e {
        Expression::Address(m) => out.push(("expr-memory", m.name.clone())),
        Expression::Variable(v) => out.push(("expr-variable", v.clone())),
        Expression::FunctionCall(f) => expr_names(&f.expression, out),
        Expression::Infix(i) => {
            expr_names(&i.left, out);
            expr_names(&i.right, out);
        }
        Expression::Prefix(p) => expr_names(&p.expression, out),
        Expression::Number(_) | Expression::PiConstant() => {}
    }
}

fn mem(m: &MemoryReference, out: &mut Names) {
    out.push(("memory", m.name.clone()));
}

fn qubit(q: &Qubit, out: &mut Names) {
    if let Qubit::Variable(v) = q {
        out.push(("qubit-variable", v.clone()));
    }
}

fn frame(f: &FrameIdentifier, out: &mut Names) {
    for q in &f.qubits {
        qubit(q, out);
    }
}

fn target(t: &Target, out: &mut Names) {
    if let Target::Fixed(s) = t {
        out.push(("label", s.clone()));
    }
}

fn waveform(w: &WaveformInvocation, out: &mut Names) {
    out.push(("waveform", w.name.clone()));
    for (k, v) in &w.parameters {
        out.push(("waveform-parameter", k.clone()));
        expr_names(v, out);
    }
}

pub fn instruction_names(i: &Instruction, out: &mut Names) {
    use Instruction::*;
    match i {
        Arithmetic(a) => {
            mem(&a.destination, out);
            if let ArithmeticOperand::MemoryReference(m) = &a.source {
                mem(m, out);
            }
        }
        BinaryLogic(b) => {
            mem(&b.destination, out);
            if let BinaryOperand::MemoryReference(m) = &b.source {
                mem(m, out);
            }
        }
        CalibrationDefinition(c) => {
            out.push(("calibration", c.identifier.name.clone()));
            for p in &c.identifier.parameters {
                expr_names(p, out);
            }
            for q in &c.identifier.qubits {
                qubit(q, out);
            }
            for x in &c.instructions {
                instruction_names(x, out);
            }
        }
        Call(c) => {
            out.push(("call", c.name.clone()));
            for a in &c.arguments {
                match a {
                    UnresolvedCallArgument::Identifier(s) => out.push(("call-identifier", s.clone())),
                    UnresolvedCallArgument::MemoryReference(m) => mem(m, out),
                    UnresolvedCallArgument::Immediate(_) => {}
                }
            }
        }
        Capture(c) => {
            frame(&c.frame, out);
            waveform(&c.waveform, out);
            mem(&c.memory_reference, out);
        }
        CircuitDefinition(c) => {
            out.push(("circuit", c.name.clone()));
            for p in &c.parameters {
                out.push(("formal-parameter", p.clone()));
            }
            for q in &c.qubit_variables {
                out.push(("formal-qubit", q.clone()));
            }
            for x in &c.instructions {
                instruction_names(x, out);
            }
        }
        Convert(c) => {
            mem(&c.destination, out);
            mem(&c.source, out);
        }
        Comparison(c) => {
            mem(&c.destination, out);
            mem(&c.lhs, out);
            if let ComparisonOperand::MemoryReference(m) = &c.rhs {
                mem(m, out);
            }
        }
        Declaration(d) => {
            out.push(("declaration", d.name.clone()));
            if let Some(s) = &d.sharing {
                out.push(("sharing", s.name.clone()));
            }
        }
        Delay(d) => {
            for q in &d.qubits {
                qubit(q, out);
            }
            expr_names(&d.duration, out);
        }
        Exchange(e) => {
            mem(&e.left, out);
            mem(&e.right, out);
        }
        Fence(f) => {
            for q in &f.qubits {
                qubit(q, out);
            }
        }
        FrameDefinition(f) => {
            frame(&f.identifier, out);
            for (k, v) in &f.attributes {
                out.push(("frame-attribute", k.clone()));
                if let AttributeValue::Expression(e) = v {
                    expr_names(e, out);
                }
            }
        }
        Gate(g) => {
            out.push(("gate", g.name.clone()));
            for p in &g.parameters {
                expr_names(p, out);
            }
            for q in &g.qubits {
                qubit(q, out);
            }
        }
        GateDefinition(g) => {
            out.push(("gate-definition", g.name.clone()));
            for p in &g.parameters {
                out.push(("formal-parameter", p.clone()));
            }
            match &g.specification {
                GateSpecification::Matrix(rows) => {
                    for r in rows {
                        for e in r {
                            expr_names(e, out);
                        }
                    }
                }
                GateSpecification::Permutation(_) => {}
                GateSpecification::PauliSum(p) => {
                    for a in &p.arguments {
                        out.push(("formal-qubit", a.clone()));
                    }
                    for t in &p.terms {
                        for (_, a) in &t.arguments {
                            out.push(("pauli-argument", a.clone()));
                        }
                        expr_names(&t.expression, out);
                    }
                }
                // fields are crate-private; sequence bodies are covered through serialization elsewhere
                GateSpecification::Sequence(_) => {}
            }
        }
        Halt() | Nop() | Wait() | Include(_) => {}
        Jump(j) => target(&j.target, out),
        JumpUnless(j) => {
            target(&j.target, out);
            mem(&j.condition, out);
        }
        JumpWhen(j) => {
            target(&j.target, out);
            mem(&j.condition, out);
        }
        Label(l) => target(&l.target, out),
        Load(l) => {
            mem(&l.destination, out);
            out.push(("load-source", l.source.clone()));
            mem(&l.offset, out);
        }
        MeasureCalibrationDefinition(m) => {
            if let Some(n) = &m.identifier.name {
                out.push(("measure-name", n.clone()));
            }
            qubit(&m.identifier.qubit, out);
            if let Some(t) = &m.identifier.target {
                out.push(("measure-calibration-target", t.clone()));
            }
            for x in &m.instructions {
                instruction_names(x, out);
            }
        }
        Measurement(m) => {
            if let Some(n) = &m.name {
                out.push(("measure-name", n.clone()));
            }
            qubit(&m.qubit, out);
            if let Some(t) = &m.target {
                mem(t, out);
            }
        }
        Move(m) => {
            mem(&m.destination, out);
            if let ArithmeticOperand::MemoryReference(r) = &m.source {
                mem(r, out);
            }
        }
        Pragma(p) => {
            out.push(("pragma", p.name.clone()));
            for a in &p.arguments {
                if let PragmaArgument::Identifier(s) = a {
                    out.push(("pragma-argument", s.clone()));
                }
            }
        }
        Pulse(p) => {
            frame(&p.frame, out);
            waveform(&p.waveform, out);
        }
        RawCapture(r) => {
            frame(&r.frame, out);
            expr_names(&r.duration, out);
            mem(&r.memory_reference, out);
        }
        Reset(r) => {
            if let Some(q) = &r.qubit {
                qubit(q, out);
            }
        }
        SetFrequency(s) => {
            frame(&s.frame, out);
            expr_names(&s.frequency, out);
        }
        SetPhase(s) => {
            frame(&s.frame, out);
            expr_names(&s.phase, out);
        }
        SetScale(s) => {
            frame(&s.frame, out);
            expr_names(&s.scale, out);
        }
        ShiftFrequency(s) => {
            frame(&s.frame, out);
            expr_names(&s.frequency, out);
        }
        ShiftPhase(s) => {
            frame(&s.frame, out);
            expr_names(&s.phase, out);
        }
        Store(s) => {
            out.push(("store-destination", s.destination.clone()));
            mem(&s.offset, out);
            if let ArithmeticOperand::MemoryReference(m) = &s.source {
                mem(m, out);
            }
        }
        SwapPhases(s) => {
            frame(&s.frame_1, out);
            frame(&s.frame_2, out);
        }
        UnaryLogic(u) => mem(&u.operand, out),
        WaveformDefinition(w) => {
            out.push(("waveform-definition", w.name.clone()));
            for p in &w.definition.parameters {
                out.push(("formal-parameter", p.clone()));
            }
            for e in &w.definition.matrix {
                expr_names(e, out);
            }
        }
    }
}
