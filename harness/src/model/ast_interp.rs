//! A tiny classical interpreter used as the reference for C33 (`Program::wrap_in_loop`).
//!
//! It executes a list of body instructions with Quil control-flow semantics:
//! * `LABEL` is a no-op; `JUMP` / `JUMP-WHEN` (cell != 0) / `JUMP-UNLESS` (cell == 0) transfer
//!   control to the instruction after the matching label (targets are compared as values, so
//!   unresolved `Target::Placeholder`s work by identity);
//! * `MOVE` / `ADD` / `SUB` / `MUL` / `DIV` whose destination lies in the *counter region* are executed on
//!   an integer cell (that is what the wrapper uses to count);
//! * `HALT` stops;
//! * every other instruction is opaque: it is appended to the execution trace.  The generators
//!   guarantee that opaque instructions never write the cells that conditions read.
//! Memory cells default to 0.  All bounds are logical (fuel in steps).

use quil_rs::instruction::{ArithmeticOperand, ArithmeticOperator, Instruction, MemoryReference, Target};
use std::collections::HashMap;

#[derive(Debug, Clone, PartialEq, Eq)]
pub enum Outcome {
    FellOffEnd,
    Halted,
    OutOfFuel,
    UndefinedLabel(String),
    DuplicateLabel(String),
    /// The counter was written with something the integer model does not cover.
    Unsupported(String),
}

pub struct Run {
    /// Indices (into the executed list) of the opaque instructions, in execution order.
    pub trace: Vec<usize>,
    pub outcome: Outcome,
    pub steps: u64,
}

pub type Memory = HashMap<(String, u64), i64>;

fn read(mem: &Memory, m: &MemoryReference) -> i64 {
    *mem.get(&(m.name.clone(), m.index)).unwrap_or(&0)
}

fn operand(mem: &Memory, o: &ArithmeticOperand) -> Result<i64, String> {
    match o {
        ArithmeticOperand::LiteralInteger(v) => Ok(*v),
        ArithmeticOperand::MemoryReference(m) => Ok(read(mem, m)),
        ArithmeticOperand::LiteralReal(v) => Err(format!("real literal {v} written to the counter")),
    }
}

pub fn run(body: &[Instruction], counter_region: &str, mem: &mut Memory, fuel: u64) -> Run {
    let mut labels: HashMap<Target, usize> = HashMap::new();
    for (k, i) in body.iter().enumerate() {
        if let Instruction::Label(l) = i {
            if labels.insert(l.target.clone(), k).is_some() {
                return Run { trace: vec![], outcome: Outcome::DuplicateLabel(format!("{:?}", l.target)), steps: 0 };
            }
        }
    }
    let mut trace = Vec::new();
    let mut pc = 0usize;
    let mut steps = 0u64;
    loop {
        if pc >= body.len() {
            return Run { trace, outcome: Outcome::FellOffEnd, steps };
        }
        if steps >= fuel {
            return Run { trace, outcome: Outcome::OutOfFuel, steps };
        }
        steps += 1;
        let jump = |t: &Target| -> Result<usize, Outcome> {
            labels.get(t).copied().ok_or_else(|| Outcome::UndefinedLabel(format!("{t:?}")))
        };
        match &body[pc] {
            Instruction::Label(_) => pc += 1,
            Instruction::Halt() => return Run { trace, outcome: Outcome::Halted, steps },
            Instruction::Jump(j) => match jump(&j.target) {
                Ok(k) => pc = k,
                Err(o) => return Run { trace, outcome: o, steps },
            },
            Instruction::JumpWhen(j) => {
                if read(mem, &j.condition) != 0 {
                    match jump(&j.target) {
                        Ok(k) => pc = k,
                        Err(o) => return Run { trace, outcome: o, steps },
                    }
                } else {
                    pc += 1
                }
            }
            Instruction::JumpUnless(j) => {
                if read(mem, &j.condition) == 0 {
                    match jump(&j.target) {
                        Ok(k) => pc = k,
                        Err(o) => return Run { trace, outcome: o, steps },
                    }
                } else {
                    pc += 1
                }
            }
            Instruction::Move(m) if m.destination.name == counter_region => {
                match operand(mem, &m.source) {
                    Ok(v) => {
                        mem.insert((m.destination.name.clone(), m.destination.index), v);
                    }
                    Err(e) => return Run { trace, outcome: Outcome::Unsupported(e), steps },
                }
                pc += 1;
            }
            Instruction::Arithmetic(a) if a.destination.name == counter_region => {
                let cur = read(mem, &a.destination);
                let v = match operand(mem, &a.source) {
                    Ok(v) => v,
                    Err(e) => return Run { trace, outcome: Outcome::Unsupported(e), steps },
                };
                let new = match a.operator {
                    ArithmeticOperator::Add => cur.wrapping_add(v),
                    ArithmeticOperator::Subtract => cur.wrapping_sub(v),
                    ArithmeticOperator::Multiply => cur.wrapping_mul(v),
                    ArithmeticOperator::Divide => {
                        if v == 0 {
                            return Run { trace, outcome: Outcome::Unsupported("division by zero".into()), steps };
                        }
                        cur.wrapping_div(v)
                    }
                };
                mem.insert((a.destination.name.clone(), a.destination.index), new);
                pc += 1;
            }
            _ => {
                trace.push(pc);
                pc += 1;
            }
        }
    }
}
