//! Reference model for C14 / C15: a tiny dense complex matrix type, the 22 standard-gate
//! matrices written down from the Quil specification (section "Standard Gates"), lifting of a
//! k-qubit gate into an n-qubit space by bit arithmetic, and the modifier semantics
//! (DAGGER / CONTROLLED / FORKED) applied outermost-first.
//!
//! Nothing in this file calls quil-rs.  Conventions (from the specification):
//!   * inside a gate's own 2^k x 2^k matrix the FIRST listed qubit is the most significant bit of
//!     the row/column index;
//!   * in the full n-qubit space qubit 0 is the least significant bit of the index.

use num_complex::Complex64 as C;
use std::f64::consts::{FRAC_1_SQRT_2, FRAC_PI_4};

/// Dense square complex matrix, row-major.
#[derive(Clone, Debug, PartialEq)]
pub struct Mat {
    pub n: usize,
    pub d: Vec<C>,
}

const ZERO: C = C { re: 0.0, im: 0.0 };
const ONE: C = C { re: 1.0, im: 0.0 };
const I_: C = C { re: 0.0, im: 1.0 };

impl Mat {
    pub fn zeros(n: usize) -> Mat {
        Mat { n, d: vec![ZERO; n * n] }
    }
    pub fn eye(n: usize) -> Mat {
        let mut m = Mat::zeros(n);
        for i in 0..n {
            m.d[i * n + i] = ONE;
        }
        m
    }
    pub fn from_fn(n: usize, mut f: impl FnMut(usize, usize) -> C) -> Mat {
        let mut m = Mat::zeros(n);
        for r in 0..n {
            for c in 0..n {
                m.d[r * n + c] = f(r, c);
            }
        }
        m
    }
    pub fn from_rows(rows: &[&[C]]) -> Mat {
        let n = rows.len();
        Mat::from_fn(n, |r, c| rows[r][c])
    }
    #[inline]
    pub fn at(&self, r: usize, c: usize) -> C {
        self.d[r * self.n + c]
    }
    #[inline]
    pub fn set(&mut self, r: usize, c: usize, v: C) {
        self.d[r * self.n + c] = v;
    }
    /// Matrix product `self * rhs`.
    pub fn mul(&self, rhs: &Mat) -> Mat {
        assert_eq!(self.n, rhs.n);
        let n = self.n;
        let mut out = Mat::zeros(n);
        for r in 0..n {
            for k in 0..n {
                let a = self.d[r * n + k];
                if a == ZERO {
                    continue;
                }
                for c in 0..n {
                    out.d[r * n + c] += a * rhs.d[k * n + c];
                }
            }
        }
        out
    }
    /// Conjugate transpose.
    pub fn adjoint(&self) -> Mat {
        Mat::from_fn(self.n, |r, c| self.at(c, r).conj())
    }
    /// Largest entry-wise |a - b|, with the position where it occurs.
    pub fn max_abs_diff(&self, other: &Mat) -> (f64, usize, usize) {
        assert_eq!(self.n, other.n);
        let mut best = (0.0f64, 0usize, 0usize);
        for r in 0..self.n {
            for c in 0..self.n {
                let d = (self.at(r, c) - other.at(r, c)).norm();
                // NaN-safe: a NaN difference is reported as infinite
                let d = if d.is_nan() { f64::INFINITY } else { d };
                if d > best.0 {
                    best = (d, r, c);
                }
            }
        }
        best
    }
    pub fn max_abs(&self) -> f64 {
        self.d.iter().map(|z| z.norm()).fold(0.0, f64::max)
    }
    pub fn all_finite(&self) -> bool {
        self.d.iter().all(|z| z.re.is_finite() && z.im.is_finite())
    }
    /// Block-diagonal `|0><0| (x) a + |1><1| (x) b` (the new leading qubit is the most
    /// significant bit).
    pub fn block_diag(a: &Mat, b: &Mat) -> Mat {
        assert_eq!(a.n, b.n);
        let k = a.n;
        let mut m = Mat::zeros(2 * k);
        for r in 0..k {
            for c in 0..k {
                m.set(r, c, a.at(r, c));
                m.set(k + r, k + c, b.at(r, c));
            }
        }
        m
    }
    /// Distance of `self * self^dagger` from the identity (max entry-wise).
    pub fn unitarity_defect(&self) -> f64 {
        let p = self.mul(&self.adjoint());
        p.max_abs_diff(&Mat::eye(self.n)).0
    }
    /// Short printable form (for witnesses); clipped for big matrices.
    pub fn show(&self) -> String {
        if self.n > 4 {
            return format!("<{0}x{0} matrix>", self.n);
        }
        let mut s = String::new();
        for r in 0..self.n {
            s.push('[');
            for c in 0..self.n {
                let z = self.at(r, c);
                if c > 0 {
                    s.push_str(", ");
                }
                s.push_str(&format!("{:.4}{:+.4}i", z.re, z.im));
            }
            s.push_str("] ");
        }
        s
    }
}

/// e^{i x}
fn cis(x: f64) -> C {
    C::new(x.cos(), x.sin())
}

/// (number of qubits, number of parameters) of a standard gate; `None` for unknown names.
pub fn gate_shape(name: &str) -> Option<(usize, usize)> {
    Some(match name {
        "I" | "X" | "Y" | "Z" | "H" | "S" | "T" => (1, 0),
        "RX" | "RY" | "RZ" | "PHASE" => (1, 1),
        "CNOT" | "CZ" | "SWAP" | "ISWAP" => (2, 0),
        "CPHASE" | "CPHASE00" | "CPHASE01" | "CPHASE10" | "PSWAP" => (2, 1),
        "CCNOT" | "CSWAP" => (3, 0),
        _ => return None,
    })
}

/// The 22 standard gates named by the property.
pub const STANDARD_GATES: &[&str] = &[
    "I", "X", "Y", "Z", "H", "S", "T", "CNOT", "CCNOT", "CZ", "SWAP", "CSWAP", "ISWAP", "RX", "RY",
    "RZ", "PHASE", "CPHASE", "CPHASE00", "CPHASE01", "CPHASE10", "PSWAP",
];

/// A permutation matrix from a map on basis states: column `x` has its 1 in row `f(x)`.
fn permutation(dim: usize, f: impl Fn(usize) -> usize) -> Mat {
    let mut m = Mat::zeros(dim);
    for x in 0..dim {
        m.set(f(x), x, ONE);
    }
    m
}

fn diag(entries: &[C]) -> Mat {
    let mut m = Mat::zeros(entries.len());
    for (i, e) in entries.iter().enumerate() {
        m.set(i, i, *e);
    }
    m
}

/// The matrix of a standard gate as given by the Quil specification.  `theta` is ignored by
/// parameterless gates.  Bits of the index: first listed qubit = most significant.
pub fn spec_matrix(name: &str, theta: f64) -> Option<Mat> {
    let h = theta / 2.0;
    Some(match name {
        "I" => Mat::eye(2),
        "X" => Mat::from_rows(&[&[ZERO, ONE], &[ONE, ZERO]]),
        "Y" => Mat::from_rows(&[&[ZERO, -I_], &[I_, ZERO]]),
        "Z" => diag(&[ONE, -ONE]),
        "H" => {
            let s = C::new(FRAC_1_SQRT_2, 0.0);
            Mat::from_rows(&[&[s, s], &[s, -s]])
        }
        "S" => diag(&[ONE, I_]),
        "T" => diag(&[ONE, cis(FRAC_PI_4)]),
        // |a b> -> |a, b xor a>   (a = first qubit = control = high bit)
        "CNOT" => permutation(4, |x| {
            let (a, b) = (x >> 1 & 1, x & 1);
            a << 1 | (b ^ a)
        }),
        // |a b c> -> |a, b, c xor (a and b)>
        "CCNOT" => permutation(8, |x| {
            let (a, b, c) = (x >> 2 & 1, x >> 1 & 1, x & 1);
            a << 2 | b << 1 | (c ^ (a & b))
        }),
        "CZ" => diag(&[ONE, ONE, ONE, -ONE]),
        // |a b> -> |b a>
        "SWAP" => permutation(4, |x| (x & 1) << 1 | (x >> 1 & 1)),
        // |a b c> -> a ? |a c b> : |a b c>
        "CSWAP" => permutation(8, |x| {
            let (a, b, c) = (x >> 2 & 1, x >> 1 & 1, x & 1);
            if a == 1 {
                a << 2 | c << 1 | b
            } else {
                x
            }
        }),
        // [[1,0,0,0],[0,0,i,0],[0,i,0,0],[0,0,0,1]]
        "ISWAP" => Mat::from_rows(&[
            &[ONE, ZERO, ZERO, ZERO],
            &[ZERO, ZERO, I_, ZERO],
            &[ZERO, I_, ZERO, ZERO],
            &[ZERO, ZERO, ZERO, ONE],
        ]),
        // RX(t) = exp(-i t X / 2) = [[cos t/2, -i sin t/2], [-i sin t/2, cos t/2]]
        "RX" => {
            let (c, s) = (C::new(h.cos(), 0.0), C::new(0.0, -h.sin()));
            Mat::from_rows(&[&[c, s], &[s, c]])
        }
        // RY(t) = exp(-i t Y / 2) = [[cos t/2, -sin t/2], [sin t/2, cos t/2]]
        "RY" => {
            let (c, s) = (C::new(h.cos(), 0.0), C::new(h.sin(), 0.0));
            Mat::from_rows(&[&[c, -s], &[s, c]])
        }
        // RZ(t) = exp(-i t Z / 2) = diag(e^{-it/2}, e^{it/2})
        "RZ" => diag(&[cis(-h), cis(h)]),
        "PHASE" => diag(&[ONE, cis(theta)]),
        "CPHASE00" => diag(&[cis(theta), ONE, ONE, ONE]),
        "CPHASE01" => diag(&[ONE, cis(theta), ONE, ONE]),
        "CPHASE10" => diag(&[ONE, ONE, cis(theta), ONE]),
        "CPHASE" => diag(&[ONE, ONE, ONE, cis(theta)]),
        // [[1,0,0,0],[0,0,e^{it},0],[0,e^{it},0,0],[0,0,0,1]]
        "PSWAP" => {
            let e = cis(theta);
            Mat::from_rows(&[
                &[ONE, ZERO, ZERO, ZERO],
                &[ZERO, ZERO, e, ZERO],
                &[ZERO, e, ZERO, ZERO],
                &[ZERO, ZERO, ZERO, ONE],
            ])
        }
        _ => return None,
    })
}

/// Lift the 2^k x 2^k matrix `g` of a gate applied to `qubits` (first listed = most significant
/// bit of g's index) into the 2^n-dimensional space in which qubit 0 is the least significant bit:
/// `U[r][c] = G[pack(r)][pack(c)]` if r and c agree on every bit outside `qubits`, else 0.
pub fn lift(g: &Mat, qubits: &[usize], n: usize) -> Mat {
    let k = qubits.len();
    assert_eq!(g.n, 1 << k);
    assert!(qubits.iter().all(|q| *q < n));
    let dim = 1usize << n;
    let mut mask = 0usize;
    for q in qubits {
        mask |= 1 << q;
    }
    let pack = |x: usize| -> usize {
        let mut out = 0;
        for (j, q) in qubits.iter().enumerate() {
            out |= (x >> q & 1) << (k - 1 - j);
        }
        out
    };
    Mat::from_fn(dim, |r, c| {
        if (r & !mask) == (c & !mask) {
            g.at(pack(r), pack(c))
        } else {
            ZERO
        }
    })
}

#[derive(Clone, Copy, Debug, PartialEq, Eq, Hash)]
pub enum Mod {
    Dagger,
    Controlled,
    Forked,
}

impl Mod {
    pub fn word(self) -> &'static str {
        match self {
            Mod::Dagger => "DAGGER",
            Mod::Controlled => "CONTROLLED",
            Mod::Forked => "FORKED",
        }
    }
    pub fn letter(self) -> char {
        match self {
            Mod::Dagger => 'D',
            Mod::Controlled => 'C',
            Mod::Forked => 'F',
        }
    }
}

/// Number of parameters a modified gate takes: every FORKED doubles the base count.
pub fn param_count(base_params: usize, mods: &[Mod]) -> usize {
    base_params << mods.iter().filter(|m| **m == Mod::Forked).count()
}

/// Number of qubits a modified gate takes: CONTROLLED and FORKED each add one leading qubit.
pub fn qubit_count(base_qubits: usize, mods: &[Mod]) -> usize {
    base_qubits + mods.iter().filter(|m| **m != Mod::Dagger).count()
}

/// Reference semantics of a modifier stack, applied OUTERMOST-first (`mods[0]` is the modifier
/// written first in `M1 M2 ... G(params) q0 q1 ...`):
///   DAGGER      -> conjugate transpose of the rest;
///   CONTROLLED  -> takes the leading qubit: |0><0| (x) I + |1><1| (x) rest;
///   FORKED      -> takes the leading qubit and halves the parameter list:
///                  |0><0| (x) rest(first half) + |1><1| (x) rest(second half).
/// The result is the gate's own matrix over its listed qubits (first listed = most significant).
/// `base(params)` supplies the matrix of the unmodified gate for a parameter list.
pub fn apply_mods(
    mods: &[Mod],
    params: &[f64],
    base: &mut dyn FnMut(&[f64]) -> Result<Mat, String>,
) -> Result<Mat, String> {
    match mods.split_first() {
        None => base(params),
        Some((Mod::Dagger, rest)) => Ok(apply_mods(rest, params, base)?.adjoint()),
        Some((Mod::Controlled, rest)) => {
            let m = apply_mods(rest, params, base)?;
            Ok(Mat::block_diag(&Mat::eye(m.n), &m))
        }
        Some((Mod::Forked, rest)) => {
            if params.len() % 2 != 0 {
                return Err("FORKED with an odd number of parameters".into());
            }
            let (p0, p1) = params.split_at(params.len() / 2);
            let m0 = apply_mods(rest, p0, base)?;
            let m1 = apply_mods(rest, p1, base)?;
            Ok(Mat::block_diag(&m0, &m1))
        }
    }
}

/// All injective placements of `k` gate qubits into `0..n` (ordered k-tuples of distinct indices).
pub fn injective_placements(k: usize, n: usize) -> Vec<Vec<usize>> {
    fn rec(k: usize, n: usize, cur: &mut Vec<usize>, out: &mut Vec<Vec<usize>>) {
        if cur.len() == k {
            out.push(cur.clone());
            return;
        }
        for q in 0..n {
            if !cur.contains(&q) {
                cur.push(q);
                rec(k, n, cur, out);
                cur.pop();
            }
        }
    }
    let mut out = Vec::new();
    rec(k, n, &mut Vec::new(), &mut out);
    out
}

/// Self-checks of the model (run once per shard; a failure is a harness bug, reported as such).
pub fn self_check() -> Result<(), String> {
    for name in STANDARD_GATES {
        for theta in [0.0, 1.0, -2.5, std::f64::consts::PI] {
            let m = spec_matrix(name, theta).ok_or("missing spec matrix")?;
            let (k, _) = gate_shape(name).ok_or("missing shape")?;
            if m.n != 1 << k {
                return Err(format!("{name}: wrong dimension"));
            }
            if m.unitarity_defect() > 1e-12 {
                return Err(format!("{name}({theta}): spec matrix not unitary"));
            }
        }
    }
    // RX/RY/RZ are exp(-i t P/2): check the first-order term numerically, (U(e) - I)/e -> -i P/2.
    for (name, p) in [("RX", "X"), ("RY", "Y"), ("RZ", "Z")] {
        let e = 1e-6;
        let u = spec_matrix(name, e).unwrap();
        let pm = spec_matrix(p, 0.0).unwrap();
        for r in 0..2 {
            for c in 0..2 {
                let deriv = (u.at(r, c) - if r == c { ONE } else { ZERO }) / e;
                let want = -I_ * pm.at(r, c) / 2.0;
                if (deriv - want).norm() > 1e-5 {
                    return Err(format!("{name}: generator is not {p}"));
                }
            }
        }
    }
    // lifting: X on qubit 1 of 2 flips bit 1; CNOT 0 1 (control = qubit 0 = low bit)
    let x1 = lift(&spec_matrix("X", 0.0).unwrap(), &[1], 2);
    if x1.at(2, 0) != ONE || x1.at(0, 2) != ONE || x1.at(3, 1) != ONE || x1.at(1, 0) != ZERO {
        return Err("lift X 1 wrong".into());
    }
    let cn = lift(&spec_matrix("CNOT", 0.0).unwrap(), &[0, 1], 2);
    // |q1 q0> : 01 -> 11, 11 -> 01, 00 -> 00, 10 -> 10
    if cn.at(3, 1) != ONE || cn.at(1, 3) != ONE || cn.at(0, 0) != ONE || cn.at(2, 2) != ONE {
        return Err("lift CNOT 0 1 wrong".into());
    }
    // modifiers: CONTROLLED X = CNOT, CONTROLLED CONTROLLED X = CCNOT, FORKED PHASE(0, pi) = CZ
    let mut base_x = |_: &[f64]| Ok(spec_matrix("X", 0.0).unwrap());
    if apply_mods(&[Mod::Controlled], &[], &mut base_x)? != spec_matrix("CNOT", 0.0).unwrap() {
        return Err("CONTROLLED X != CNOT".into());
    }
    if apply_mods(&[Mod::Controlled, Mod::Controlled], &[], &mut base_x)?
        != spec_matrix("CCNOT", 0.0).unwrap()
    {
        return Err("CONTROLLED CONTROLLED X != CCNOT".into());
    }
    let mut base_phase = |p: &[f64]| Ok(spec_matrix("PHASE", p[0]).unwrap());
    let f = apply_mods(&[Mod::Forked], &[0.0, std::f64::consts::PI], &mut base_phase)?;
    if f.max_abs_diff(&spec_matrix("CZ", 0.0).unwrap()).0 > 1e-15 {
        return Err("FORKED PHASE(0, pi) != CZ".into());
    }
    Ok(())
}
