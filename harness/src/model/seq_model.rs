//! Reference model for gate-sequence expansion (C20, C21).
//!
//! A deliberately naive re-statement of the *specification side* of
//! `Program::expand_defgate_sequences*`, written from the property texts, over its own plain data
//! types (no quil-rs types, no quil-rs calls):
//!
//! * `expand` — replace each *selected* invocation (gate whose name has a `DEFGATE .. AS SEQUENCE`
//!   definition and for which the selection filter says yes) by the definition's gates with formal
//!   parameters and formal qubits substituted (simultaneous substitution), recursively, with a
//!   stack of the names being expanded for cycle detection.  Everything else is copied.
//! * error classes — for one selected invocation every class that applies is collected
//!   (parameter count, qubit count, non-fixed qubit, modifiers, cycle); the order in which an
//!   implementation checks them is not part of the property.
//! * keep-set — a sequence definition is kept iff it is unselected or reachable (through
//!   sequence-body references, any number of hops) from an unselected sequence definition;
//!   non-sequence definitions are always kept.
//! * the expected source-map *shape* — one node per source instruction: `Unmodified`, or
//!   `Rewritten { produced, nested }` where `produced` is the number of instructions the invocation
//!   finally produced and `nested` describes the definition's (substituted) elements in turn.

use std::collections::{BTreeMap, BTreeSet};

// ---------------------------------------------------------------------------------------------
// Data

#[derive(Clone, Debug, PartialEq)]
pub enum MExpr {
    /// A non-negative real literal.
    Num(f64),
    Pi,
    /// `%name`
    Var(String),
    /// `name[index]`
    Addr(String, u64),
    Neg(Box<MExpr>),
    /// operator is one of `+ - * / ^`
    Bin(Box<MExpr>, char, Box<MExpr>),
    /// function name is one of cis, cos, exp, sin, sqrt
    Fun(&'static str, Box<MExpr>),
    /// A general complex literal (only produced when converting real output; never generated).
    Complex(f64, f64),
    /// something the converter from the real type could not represent (never generated)
    Opaque(String),
}

#[derive(Clone, Debug, PartialEq, Eq, Hash, PartialOrd, Ord)]
pub enum MQubit {
    Fixed(u64),
    Var(String),
    /// Placeholder with a per-program identity number.
    Placeholder(usize),
}

#[derive(Clone, Copy, Debug, PartialEq, Eq, Hash)]
pub enum MMod {
    Controlled,
    Dagger,
    Forked,
}

#[derive(Clone, Debug, PartialEq)]
pub struct MGate {
    pub name: String,
    pub params: Vec<MExpr>,
    pub qubits: Vec<MQubit>,
    pub mods: Vec<MMod>,
}

#[derive(Clone, Debug, PartialEq)]
pub enum MDefKind {
    Sequence { qubits: Vec<String>, gates: Vec<MGate> },
    /// `DEFGATE name AS PERMUTATION: 1, 0` (a non-sequence definition)
    Permutation,
}

#[derive(Clone, Debug, PartialEq)]
pub struct MDef {
    pub name: String,
    pub params: Vec<String>,
    pub kind: MDefKind,
}

#[derive(Clone, Debug, PartialEq)]
pub enum MInstr {
    Gate(MGate),
    /// A non-gate body instruction, identified by its index in the generator's snippet table.
    Other(usize),
}

#[derive(Clone, Debug, PartialEq)]
pub struct MProgram {
    pub defs: Vec<MDef>,
    pub body: Vec<MInstr>,
    /// Whether DECLAREs / a DEFCAL / a DEFCIRCUIT accompany the program (must survive unchanged).
    pub extras: bool,
}

/// Selection filter: the set of selected names among the alphabet, plus the answer for any name
/// outside the alphabet.
#[derive(Clone, Debug, PartialEq, Eq, Hash)]
pub struct Selection {
    pub selected: BTreeSet<String>,
    pub alphabet: BTreeSet<String>,
    pub others: bool,
}

impl Selection {
    pub fn test(&self, name: &str) -> bool {
        if self.alphabet.contains(name) {
            self.selected.contains(name)
        } else {
            self.others
        }
    }
}

#[derive(Clone, Copy, Debug, PartialEq, Eq, Hash, PartialOrd, Ord)]
pub enum ErrClass {
    ParameterCount,
    QubitCount,
    NonFixedQubit,
    Modifiers,
    Cyclic,
}

impl ErrClass {
    pub fn name(self) -> &'static str {
        match self {
            ErrClass::ParameterCount => "parameter-count",
            ErrClass::QubitCount => "qubit-count",
            ErrClass::NonFixedQubit => "non-fixed-qubit",
            ErrClass::Modifiers => "modifiers",
            ErrClass::Cyclic => "cyclic",
        }
    }
}

pub fn class_names(s: &BTreeSet<ErrClass>) -> String {
    s.iter().map(|c| c.name()).collect::<Vec<_>>().join("|")
}

/// Expected source-map node for one source instruction.
#[derive(Clone, Debug, PartialEq)]
pub struct MEntry {
    /// The source instruction at this level (for nested levels: the substituted element).
    pub src: MInstr,
    pub target: MTarget,
}

#[derive(Clone, Debug, PartialEq)]
pub enum MTarget {
    Unmodified,
    Rewritten {
        /// name of the definition used
        name: String,
        /// number of instructions this invocation finally produced
        produced: usize,
        nested: Vec<MEntry>,
    },
}

#[derive(Clone, Debug)]
pub struct ModelFacts {
    /// number of selected invocations met (at any depth)
    pub selected_invocations: usize,
    /// number of selected invocations in the program body itself
    pub selected_top_level: usize,
    /// unselected sequence invocations met at depth >= 1 (inside an expansion)
    pub unselected_nested: usize,
    /// unselected sequence invocations in the program body
    pub unselected_top_level: usize,
    pub max_depth: usize,
    /// length of the name stack when a cycle was detected (cycle length <= this)
    pub cycle_stack_len: usize,
    /// an error-carrying invocation was met at depth >= 1
    pub nested_error: bool,
    /// some argument expression contained a variable with the name of one of the formals
    pub capture_risk: bool,
}

#[derive(Clone, Debug)]
pub enum ModelOutcome {
    Expanded {
        body: Vec<MInstr>,
        map: Vec<MEntry>,
    },
    /// `first`: classes applicable at the first offending invocation in depth-first order;
    /// `any`: union over every offending invocation met when expansion carries on past offenders.
    Error {
        first: BTreeSet<ErrClass>,
        any: BTreeSet<ErrClass>,
    },
}

// ---------------------------------------------------------------------------------------------
// Substitution

pub fn subst_expr(e: &MExpr, env: &BTreeMap<String, MExpr>) -> MExpr {
    match e {
        MExpr::Var(v) => env.get(v).cloned().unwrap_or_else(|| e.clone()),
        MExpr::Neg(x) => MExpr::Neg(Box::new(subst_expr(x, env))),
        MExpr::Bin(l, op, r) => MExpr::Bin(
            Box::new(subst_expr(l, env)),
            *op,
            Box::new(subst_expr(r, env)),
        ),
        MExpr::Fun(f, x) => MExpr::Fun(f, Box::new(subst_expr(x, env))),
        MExpr::Num(_) | MExpr::Complex(..) | MExpr::Pi | MExpr::Addr(..) | MExpr::Opaque(_) => e.clone(),
    }
}

fn expr_vars(e: &MExpr, out: &mut BTreeSet<String>) {
    match e {
        MExpr::Var(v) => {
            out.insert(v.clone());
        }
        MExpr::Neg(x) | MExpr::Fun(_, x) => expr_vars(x, out),
        MExpr::Bin(l, _, r) => {
            expr_vars(l, out);
            expr_vars(r, out);
        }
        _ => {}
    }
}

// ---------------------------------------------------------------------------------------------
// Expander

pub struct Model<'a> {
    pub prog: &'a MProgram,
    pub sel: &'a Selection,
    first: Option<BTreeSet<ErrClass>>,
    any: BTreeSet<ErrClass>,
    pub facts: ModelFacts,
}

impl<'a> Model<'a> {
    pub fn new(prog: &'a MProgram, sel: &'a Selection) -> Self {
        Model {
            prog,
            sel,
            first: None,
            any: BTreeSet::new(),
            facts: ModelFacts {
                selected_invocations: 0,
                selected_top_level: 0,
                unselected_nested: 0,
                unselected_top_level: 0,
                max_depth: 0,
                cycle_stack_len: 0,
                nested_error: false,
                capture_risk: false,
            },
        }
    }

    fn def(&self, name: &str) -> Option<&'a MDef> {
        // A later definition with the same name replaces an earlier one (the generator never
        // produces duplicates; this just mirrors a map).
        self.prog.defs.iter().rev().find(|d| d.name == name)
    }

    fn seq_def(&self, name: &str) -> Option<(&'a MDef, &'a [String], &'a [MGate])> {
        match self.def(name) {
            Some(d) => match &d.kind {
                MDefKind::Sequence { qubits, gates } => Some((d, qubits, gates)),
                MDefKind::Permutation => None,
            },
            None => None,
        }
    }

    /// Run the model on the whole program body.
    pub fn run(mut self) -> (ModelOutcome, ModelFacts) {
        let mut stack: Vec<String> = Vec::new();
        let body = self.prog.body.clone();
        let (out, map) = self.expand_list(&body, &mut stack);
        let outcome = match self.first.take() {
            Some(first) => ModelOutcome::Error {
                first,
                any: std::mem::take(&mut self.any),
            },
            None => ModelOutcome::Expanded { body: out, map },
        };
        (outcome, self.facts)
    }

    /// Expand a list of instructions.  Offending invocations are recorded and *skipped* so that
    /// the traversal can report every offender (for the `any` set); the produced list is only
    /// meaningful when no offender was met.
    fn expand_list(&mut self, list: &[MInstr], stack: &mut Vec<String>) -> (Vec<MInstr>, Vec<MEntry>) {
        let mut out = Vec::new();
        let mut map = Vec::new();
        let depth = stack.len();
        for instr in list {
            let MInstr::Gate(g) = instr else {
                out.push(instr.clone());
                map.push(MEntry { src: instr.clone(), target: MTarget::Unmodified });
                continue;
            };
            let Some((def, formal_qubits, elements)) = self.seq_def(&g.name) else {
                out.push(instr.clone());
                map.push(MEntry { src: instr.clone(), target: MTarget::Unmodified });
                continue;
            };
            if !self.sel.test(&g.name) {
                if depth == 0 {
                    self.facts.unselected_top_level += 1;
                } else {
                    self.facts.unselected_nested += 1;
                }
                out.push(instr.clone());
                map.push(MEntry { src: instr.clone(), target: MTarget::Unmodified });
                continue;
            }
            // A selected invocation.
            self.facts.selected_invocations += 1;
            if depth == 0 {
                self.facts.selected_top_level += 1;
            }
            let mut errs = BTreeSet::new();
            if def.params.len() != g.params.len() {
                errs.insert(ErrClass::ParameterCount);
            }
            if formal_qubits.len() != g.qubits.len() {
                errs.insert(ErrClass::QubitCount);
            }
            if g.qubits.iter().any(|q| !matches!(q, MQubit::Fixed(_))) {
                errs.insert(ErrClass::NonFixedQubit);
            }
            if !g.mods.is_empty() {
                errs.insert(ErrClass::Modifiers);
            }
            if stack.iter().any(|n| n == &g.name) {
                errs.insert(ErrClass::Cyclic);
                self.facts.cycle_stack_len = self.facts.cycle_stack_len.max(stack.len());
            }
            if !errs.is_empty() {
                if depth > 0 {
                    self.facts.nested_error = true;
                }
                if self.first.is_none() {
                    self.first = Some(errs.clone());
                }
                self.any.extend(errs);
                continue; // skipped
            }
            // Substitute formals (simultaneously).
            let env: BTreeMap<String, MExpr> = def
                .params
                .iter()
                .cloned()
                .zip(g.params.iter().cloned())
                .collect();
            let mut arg_vars = BTreeSet::new();
            g.params.iter().for_each(|p| expr_vars(p, &mut arg_vars));
            if def.params.iter().any(|p| arg_vars.contains(p)) {
                self.facts.capture_risk = true;
            }
            let qenv: BTreeMap<&String, &MQubit> = formal_qubits.iter().zip(g.qubits.iter()).collect();
            let substituted: Vec<MInstr> = elements
                .iter()
                .map(|el| {
                    MInstr::Gate(MGate {
                        name: el.name.clone(),
                        params: el.params.iter().map(|p| subst_expr(p, &env)).collect(),
                        qubits: el
                            .qubits
                            .iter()
                            .map(|q| match q {
                                MQubit::Var(v) => match qenv.get(v) {
                                    Some(actual) => (*actual).clone(),
                                    None => q.clone(),
                                },
                                other => other.clone(),
                            })
                            .collect(),
                        mods: el.mods.clone(),
                    })
                })
                .collect();
            stack.push(g.name.clone());
            self.facts.max_depth = self.facts.max_depth.max(stack.len());
            let (produced, nested) = self.expand_list(&substituted, stack);
            stack.pop();
            map.push(MEntry {
                src: instr.clone(),
                target: MTarget::Rewritten {
                    name: g.name.clone(),
                    produced: produced.len(),
                    nested,
                },
            });
            out.extend(produced);
        }
        (out, map)
    }

    /// Names of the definitions that must remain after expansion, by graph reachability.
    pub fn keep_set(prog: &MProgram, sel: &Selection) -> BTreeSet<String> {
        let is_seq = |name: &str| {
            prog.defs
                .iter()
                .rev()
                .find(|d| d.name == name)
                .map(|d| matches!(d.kind, MDefKind::Sequence { .. }))
                .unwrap_or(false)
        };
        let mut keep = BTreeSet::new();
        let mut work: Vec<String> = Vec::new();
        for d in &prog.defs {
            match d.kind {
                MDefKind::Permutation => {
                    keep.insert(d.name.clone());
                }
                MDefKind::Sequence { .. } => {
                    if !sel.test(&d.name) && keep.insert(d.name.clone()) {
                        work.push(d.name.clone());
                    }
                }
            }
        }
        while let Some(n) = work.pop() {
            let Some(d) = prog.defs.iter().rev().find(|d| d.name == n) else { continue };
            if let MDefKind::Sequence { gates, .. } = &d.kind {
                for g in gates {
                    if is_seq(&g.name) && keep.insert(g.name.clone()) {
                        work.push(g.name.clone());
                    }
                }
            }
        }
        keep
    }
}

// ---------------------------------------------------------------------------------------------
// Text rendering (the human-readable reproduction of a case) and numeric evaluation

pub fn render_expr(e: &MExpr) -> String {
    match e {
        MExpr::Num(x) => {
            if x.fract() == 0.0 && x.abs() < 1e15 {
                format!("{}", *x as i64)
            } else {
                format!("{x}")
            }
        }
        MExpr::Complex(re, im) => format!("({re}+{im}i)"),
        MExpr::Pi => "pi".into(),
        MExpr::Var(v) => format!("%{v}"),
        MExpr::Addr(n, i) => format!("{n}[{i}]"),
        MExpr::Neg(x) => format!("(-{})", render_expr(x)),
        MExpr::Bin(l, op, r) => format!("({} {} {})", render_expr(l), op, render_expr(r)),
        MExpr::Fun(f, x) => format!("{f}({})", render_expr(x)),
        MExpr::Opaque(s) => format!("<{s}>"),
    }
}

pub fn render_qubit(q: &MQubit) -> String {
    match q {
        MQubit::Fixed(i) => i.to_string(),
        MQubit::Var(v) => v.clone(),
        MQubit::Placeholder(k) => format!("{{placeholder{k}}}"),
    }
}

pub fn render_gate(g: &MGate) -> String {
    let mut s = String::new();
    for m in &g.mods {
        s.push_str(match m {
            MMod::Controlled => "CONTROLLED ",
            MMod::Dagger => "DAGGER ",
            MMod::Forked => "FORKED ",
        });
    }
    s.push_str(&g.name);
    if !g.params.is_empty() {
        s.push('(');
        s.push_str(&g.params.iter().map(render_expr).collect::<Vec<_>>().join(", "));
        s.push(')');
    }
    for q in &g.qubits {
        s.push(' ');
        s.push_str(&render_qubit(q));
    }
    s
}

pub fn render_def(d: &MDef) -> String {
    let mut s = format!("DEFGATE {}", d.name);
    if !d.params.is_empty() {
        s.push('(');
        s.push_str(&d.params.iter().map(|p| format!("%{p}")).collect::<Vec<_>>().join(", "));
        s.push(')');
    }
    match &d.kind {
        MDefKind::Sequence { qubits, gates } => {
            for q in qubits {
                s.push(' ');
                s.push_str(q);
            }
            s.push_str(" AS SEQUENCE:\n");
            for g in gates {
                s.push_str("    ");
                s.push_str(&render_gate(g));
                s.push('\n');
            }
        }
        MDefKind::Permutation => s.push_str(" AS PERMUTATION:\n    1, 0\n"),
    }
    s
}

/// Evaluate with a fixed, arbitrary assignment of variables / memory (used only to tell a
/// structurally different but equal-valued parameter from a wrong one).  Complex arithmetic on
/// (re, im) pairs; `None` when not finite.
pub fn eval_expr(e: &MExpr, salt: u64) -> Option<(f64, f64)> {
    fn h(s: &str, salt: u64) -> f64 {
        let mut x = 0xcbf29ce484222325u64 ^ salt.wrapping_mul(0x9E3779B97F4A7C15);
        for b in s.bytes() {
            x ^= b as u64;
            x = x.wrapping_mul(0x100000001b3);
        }
        0.25 + ((x >> 11) as f64 / (1u64 << 53) as f64) * 1.5
    }
    let v = match e {
        MExpr::Num(x) => (*x, 0.0),
        MExpr::Complex(re, im) => (*re, *im),
        MExpr::Pi => (std::f64::consts::PI, 0.0),
        MExpr::Var(v) => (h(v, salt), 0.0),
        MExpr::Addr(n, i) => (h(&format!("{n}[{i}]"), salt), 0.0),
        MExpr::Neg(x) => {
            let (a, b) = eval_expr(x, salt)?;
            (-a, -b)
        }
        MExpr::Bin(l, op, r) => {
            let (a, b) = eval_expr(l, salt)?;
            let (c, d) = eval_expr(r, salt)?;
            match op {
                '+' => (a + c, b + d),
                '-' => (a - c, b - d),
                '*' => (a * c - b * d, a * d + b * c),
                '/' => {
                    let n = c * c + d * d;
                    ((a * c + b * d) / n, (b * c - a * d) / n)
                }
                '^' => {
                    // z^w = exp(w ln z)
                    let (lr, li) = ((a * a + b * b).sqrt().ln(), b.atan2(a));
                    let (er, ei) = (c * lr - d * li, c * li + d * lr);
                    (er.exp() * ei.cos(), er.exp() * ei.sin())
                }
                _ => return None,
            }
        }
        MExpr::Fun(f, x) => {
            let (a, b) = eval_expr(x, salt)?;
            match *f {
                "sin" => (a.sin() * b.cosh(), a.cos() * b.sinh()),
                "cos" => (a.cos() * b.cosh(), -a.sin() * b.sinh()),
                "exp" => (a.exp() * b.cos(), a.exp() * b.sin()),
                "cis" => ((-b).exp() * a.cos(), (-b).exp() * a.sin()),
                "sqrt" => {
                    let m = (a * a + b * b).sqrt().sqrt();
                    let t = b.atan2(a) / 2.0;
                    (m * t.cos(), m * t.sin())
                }
                _ => return None,
            }
        }
        MExpr::Opaque(_) => return None,
    };
    (v.0.is_finite() && v.1.is_finite()).then_some(v)
}
