pub mod names;
