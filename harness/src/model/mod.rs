pub mod names;
pub mod numeric_gates;
