//! Reference rule for C30 (ii): an expression argument of SET-*/SHIFT-* must be real-valued at any
//! nesting depth — declared REAL memory, real numbers or pi, combined by operators and functions,
//! with no variables.  Purely syntactic, as in the statement.

use crate::model::analysis_extern::Ty;
use quil_rs::expression::Expression;
use std::collections::BTreeMap;

/// Declared regions: name -> scalar type.
pub type Decls = BTreeMap<String, Ty>;

/// `None` = the statement does not decide (a number whose imaginary part is non-zero but within
/// rounding noise of zero; never generated on purpose).
pub fn real_valued(e: &Expression, decls: &Decls) -> Option<bool> {
    match e {
        Expression::Address(m) => Some(decls.get(&m.name) == Some(&Ty::Real)),
        Expression::Number(c) => {
            if c.im == 0.0 {
                Some(true)
            } else if c.im.abs() > 1e-9 {
                Some(false)
            } else {
                None
            }
        }
        Expression::PiConstant() => Some(true),
        Expression::Variable(_) => Some(false),
        Expression::FunctionCall(f) => real_valued(&f.expression, decls),
        Expression::Prefix(p) => real_valued(&p.expression, decls),
        Expression::Infix(i) => match (real_valued(&i.left, decls), real_valued(&i.right, decls)) {
            (Some(false), _) | (_, Some(false)) => Some(false),
            (Some(true), Some(true)) => Some(true),
            _ => None,
        },
    }
}
