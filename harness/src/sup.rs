//! Supervisor: spawns shard processes, acts as the crash monitor and watchdog, merges their event
//! logs, matches violations against the committed known-findings file, writes replays and
//! evidence, and decides the exit code.

use crate::core::{clip, Tier};
use crate::props::{self, PropInfo};
use serde_json::{json, Map, Value};
use std::collections::BTreeMap;
use std::os::unix::process::ExitStatusExt;
use std::path::{Path, PathBuf};
use std::process::{Child, Command, Stdio};
use std::time::{Duration, Instant};

pub struct RunArgs {
    pub prop: String,
    pub tier: Tier,
    pub seed: u64,
    pub nshards: usize,
    pub verif_root: PathBuf,
}

struct Shard {
    index: usize,
    child: Option<Child>,
    segment: u32,
    resume_after: u64,
    last_case: u64,
    last_progress: Instant,
    restarts: u32,
}

#[derive(Default)]
struct Merged {
    evaluations: u64,
    counters: BTreeMap<String, u64>,
    inconclusive: BTreeMap<String, u64>,
    samples: Vec<Value>,
    /// signature -> (count, first witnesses)
    violations: BTreeMap<String, (u64, Vec<Value>)>,
}

fn read_cur(workdir: &Path, shard: usize) -> (u64, String) {
    let p = workdir.join(format!("shard-{shard}.cur"));
    match std::fs::read_to_string(&p) {
        Ok(s) => {
            let (n, input) = s.split_once('\n').unwrap_or((&s, ""));
            (n.trim().parse().unwrap_or(0), input.to_string())
        }
        Err(_) => (0, String::new()),
    }
}

fn spawn(a: &RunArgs, workdir: &Path, s: &Shard) -> std::io::Result<Child> {
    let exe = std::env::current_exe()?;
    Command::new(exe)
        .arg("shard")
        .arg(&a.prop)
        .arg("--tier")
        .arg(a.tier.name())
        .arg("--seed")
        .arg(a.seed.to_string())
        .arg("--shard")
        .arg(s.index.to_string())
        .arg("--nshards")
        .arg(a.nshards.to_string())
        .arg("--workdir")
        .arg(workdir)
        .arg("--resume-after")
        .arg(s.resume_after.to_string())
        .arg("--segment")
        .arg(s.segment.to_string())
        .stdin(Stdio::null())
        .stdout(Stdio::null())
        .stderr(
            std::fs::OpenOptions::new()
                .create(true)
                .append(true)
                .open(workdir.join(format!("shard-{}.stderr", s.index)))?,
        )
        .spawn()
}

fn signal_name(sig: i32) -> String {
    match sig {
        6 => "SIGABRT".into(),
        11 => "SIGSEGV".into(),
        9 => "SIGKILL".into(),
        7 => "SIGBUS".into(),
        4 => "SIGILL".into(),
        8 => "SIGFPE".into(),
        n => format!("SIG{n}"),
    }
}

pub fn run(a: RunArgs) -> i32 {
    let t0 = Instant::now();
    let Some(info) = props::lookup(&a.prop) else {
        eprintln!("unknown property {}", a.prop);
        return 2;
    };
    let workdir = a
        .verif_root
        .join(".work")
        .join(format!("{}-{}", a.prop, a.tier.name()));
    let _ = std::fs::remove_dir_all(&workdir);
    if let Err(e) = std::fs::create_dir_all(&workdir) {
        eprintln!("cannot create {}: {e}", workdir.display());
        return 2;
    }
    let watchdog = Duration::from_secs(match a.tier {
        Tier::Quick => info.watchdog_s,
        Tier::Thorough => info.watchdog_s * 3,
    });

    let mut merged = Merged::default();
    let mut harness_errors: Vec<String> = Vec::new();
    let mut shards: Vec<Shard> = (0..a.nshards)
        .map(|index| Shard {
            index,
            child: None,
            segment: 0,
            resume_after: 0,
            last_case: 0,
            last_progress: Instant::now(),
            restarts: 0,
        })
        .collect();
    for s in shards.iter_mut() {
        match spawn(&a, &workdir, s) {
            Ok(c) => s.child = Some(c),
            Err(e) => {
                eprintln!("spawn failed: {e}");
                return 2;
            }
        }
    }

    // Crash monitor + watchdog loop.
    loop {
        let mut running = 0;
        for s in shards.iter_mut() {
            let Some(child) = s.child.as_mut() else {
                continue;
            };
            match child.try_wait() {
                Ok(None) => {
                    running += 1;
                    let (case_no, input) = read_cur(&workdir, s.index);
                    if case_no != s.last_case {
                        s.last_case = case_no;
                        s.last_progress = Instant::now();
                    } else if s.last_progress.elapsed() > watchdog {
                        // Hung (or merely slow) case: inconclusive, never a violation.
                        let _ = child.kill();
                        let _ = child.wait();
                        *merged
                            .inconclusive
                            .entry("watchdog-killed-case".into())
                            .or_insert(0) += 1;
                        eprintln!(
                            "[{}] shard {} watchdog ({}s) on case {}: {} -> inconclusive",
                            a.prop,
                            s.index,
                            watchdog.as_secs(),
                            case_no,
                            clip(&input, 200)
                        );
                        s.child = None;
                        if case_no > 0 && s.restarts < 200 {
                            s.restarts += 1;
                            s.segment += 1;
                            s.resume_after = case_no;
                            s.last_progress = Instant::now();
                            match spawn(&a, &workdir, s) {
                                Ok(c) => {
                                    s.child = Some(c);
                                    running += 1;
                                }
                                Err(e) => harness_errors.push(format!("respawn failed: {e}")),
                            }
                        }
                    }
                }
                Ok(Some(status)) => {
                    s.child = None;
                    if status.success() {
                        continue;
                    }
                    let (case_no, input) = read_cur(&workdir, s.index);
                    if let Some(sig) = status.signal() {
                        // Process death attributed to the case in flight.
                        let signame = signal_name(sig);
                        let stderr_tail = std::fs::read_to_string(
                            workdir.join(format!("shard-{}.stderr", s.index)),
                        )
                        .unwrap_or_default();
                        let overflow = stderr_tail.contains("has overflowed its stack");
                        let mut signature = if overflow {
                            "process-death:stack-overflow".to_string()
                        } else {
                            format!("process-death:{signame}")
                        };
                        if let Some(classify) = info.crash_class {
                            signature = format!("{signature}:{}", classify(&input));
                        }
                        let witness = json!({
                            "type": "violation",
                            "signature": signature,
                            "case_no": case_no,
                            "shard": s.index,
                            "input": input,
                            "detail": {"signal": signame, "stack_overflow": overflow,
                                       "stderr_tail": clip(stderr_tail.trim_end(), 400)},
                        });
                        if info.crash_is_violation {
                            let e = merged.violations.entry(signature).or_insert((0, vec![]));
                            e.0 += 1;
                            if e.1.len() < 3 {
                                e.1.push(witness);
                            }
                        } else {
                            harness_errors.push(format!(
                                "shard {} died with {signame} on case {case_no}: {}",
                                s.index,
                                clip(&input, 300)
                            ));
                        }
                        if case_no > 0 && s.restarts < 200 {
                            s.restarts += 1;
                            s.segment += 1;
                            s.resume_after = case_no;
                            s.last_progress = Instant::now();
                            match spawn(&a, &workdir, s) {
                                Ok(c) => {
                                    s.child = Some(c);
                                    running += 1;
                                }
                                Err(e) => harness_errors.push(format!("respawn failed: {e}")),
                            }
                        }
                    } else {
                        // Non-zero exit without a signal: the monitor itself failed (e.g. an
                        // unguarded panic in harness code).  Never a violation.
                        let stderr_tail = std::fs::read_to_string(
                            workdir.join(format!("shard-{}.stderr", s.index)),
                        )
                        .unwrap_or_default();
                        harness_errors.push(format!(
                            "shard {} exited with {:?} on case {case_no} ({}): {}",
                            s.index,
                            status.code(),
                            clip(&input, 200),
                            clip(stderr_tail.trim_end(), 600)
                        ));
                    }
                }
                Err(e) => {
                    harness_errors.push(format!("wait failed: {e}"));
                    s.child = None;
                }
            }
        }
        if running == 0 {
            break;
        }
        std::thread::sleep(Duration::from_millis(25));
    }

    // Merge logs.
    let mut all_hashes: Vec<u64> = Vec::new();
    let mut summaries = 0usize;
    if let Ok(rd) = std::fs::read_dir(&workdir) {
        let mut files: Vec<PathBuf> = rd.filter_map(|e| e.ok().map(|e| e.path())).collect();
        files.sort();
        for f in files {
            let name = f.file_name().unwrap().to_string_lossy().to_string();
            if name.ends_with(".hashes") {
                if let Ok(bytes) = std::fs::read(&f) {
                    for c in bytes.chunks_exact(8) {
                        all_hashes.push(u64::from_le_bytes(c.try_into().unwrap()));
                    }
                }
            } else if name.ends_with(".jsonl") {
                let Ok(text) = std::fs::read_to_string(&f) else {
                    continue;
                };
                for line in text.lines() {
                    let Ok(v) = serde_json::from_str::<Value>(line) else {
                        continue;
                    };
                    match v["type"].as_str() {
                        Some("violation") => {
                            let sig = v["signature"].as_str().unwrap_or("?").to_string();
                            let e = merged.violations.entry(sig).or_insert((0, vec![]));
                            if e.1.len() < 3 {
                                e.1.push(v);
                            }
                        }
                        Some("summary") => {
                            summaries += 1;
                            merged.evaluations += v["evaluations"].as_u64().unwrap_or(0);
                            if let Some(m) = v["counters"].as_object() {
                                for (k, n) in m {
                                    let n = n.as_u64().unwrap_or(0);
                                    let e = merged.counters.entry(k.clone()).or_insert(0);
                                    if k.starts_with("max:") {
                                        *e = (*e).max(n);
                                    } else {
                                        *e += n;
                                    }
                                }
                            }
                            if let Some(m) = v["inconclusive"].as_object() {
                                for (k, n) in m {
                                    *merged.inconclusive.entry(k.clone()).or_insert(0) +=
                                        n.as_u64().unwrap_or(0);
                                }
                            }
                            if let Some(m) = v["violation_counts"].as_object() {
                                for (k, n) in m {
                                    let e =
                                        merged.violations.entry(k.clone()).or_insert((0, vec![]));
                                    e.0 += n.as_u64().unwrap_or(0);
                                }
                            }
                            if let Some(xs) = v["samples"].as_array() {
                                for x in xs {
                                    if merged.samples.len() < 10
                                        && (v["shard"].as_u64() == Some(0)
                                            || merged.samples.len() < 4)
                                    {
                                        merged.samples.push(x.clone());
                                    }
                                }
                            }
                        }
                        _ => {}
                    }
                }
            }
        }
    }
    // A violation whose shard crashed later has witnesses but no counted summary: count >= #witnesses.
    for (_, (n, ws)) in merged.violations.iter_mut() {
        *n = (*n).max(ws.len() as u64);
    }
    all_hashes.sort_unstable();
    all_hashes.dedup();
    let distinct_nontrivial = all_hashes.len() as u64;

    // Known findings.
    let known = load_known(&a.verif_root, &a.prop);
    let mut known_seen: Vec<Value> = Vec::new();
    let mut new_violations: Vec<(String, PathBuf)> = Vec::new();
    let replay_dir = a.verif_root.join("replays");
    let _ = std::fs::create_dir_all(&replay_dir);
    // remove stale replays of this property & tier
    if let Ok(rd) = std::fs::read_dir(&replay_dir) {
        for e in rd.flatten() {
            let n = e.file_name().to_string_lossy().to_string();
            if n.starts_with(&format!("{}-{}-", a.prop, a.tier.name())) {
                let _ = std::fs::remove_file(e.path());
            }
        }
    }
    let mut total_violations = 0u64;
    for (sig, (count, witnesses)) in &merged.violations {
        if let Some(k) = known.iter().find(|k| k["signature"].as_str() == Some(sig)) {
            println!(
                "KNOWN-FINDING: property={} {} [signature={} observed={}x]",
                a.prop,
                k["what"].as_str().unwrap_or(""),
                sig,
                count
            );
            known_seen.push(json!({"signature": sig, "observed": count}));
            continue;
        }
        total_violations += count;
        let h = crate::core::hash_of(sig);
        let path = replay_dir.join(format!(
            "{}-{}-{:08x}.json",
            a.prop,
            a.tier.name(),
            h as u32
        ));
        let first = witnesses.first().cloned().unwrap_or(Value::Null);
        let replay = json!({
            "property": a.prop,
            "tier": a.tier.name(),
            "seed": a.seed,
            "nshards": a.nshards,
            "shard": first["shard"],
            "case_no": first["case_no"],
            "signature": sig,
            "count": count,
            "input": first["input"],
            "detail": first["detail"],
            "more_witnesses": witnesses.iter().skip(1).map(|w| json!({"input": w["input"], "detail": w["detail"]})).collect::<Vec<_>>(),
        });
        let _ = std::fs::write(&path, serde_json::to_string_pretty(&replay).unwrap());
        if new_violations.len() < 25 {
            new_violations.push((sig.clone(), path));
        }
    }

    let wall = t0.elapsed().as_secs_f64();
    write_evidence(
        &a,
        info,
        &merged,
        distinct_nontrivial,
        total_violations,
        &known_seen,
        &harness_errors,
        wall,
    );

    for (sig, path) in &new_violations {
        let rel = path
            .strip_prefix(&a.verif_root)
            .unwrap_or(path)
            .to_string_lossy()
            .to_string();
        println!(
            "VIOLATION property={} replay={} signature={}",
            a.prop,
            rel,
            clip(sig, 160)
        );
    }
    let inconclusive_total: u64 = merged.inconclusive.values().sum();
    println!(
        "[{}] tier={} seed={} evaluations={} distinct_nontrivial={} violations={} known_findings_seen={} inconclusive={} wall={:.1}s",
        a.prop,
        a.tier.name(),
        a.seed,
        merged.evaluations,
        distinct_nontrivial,
        total_violations,
        known_seen.len(),
        inconclusive_total,
        wall
    );
    if !new_violations.is_empty() {
        return 1;
    }
    if !harness_errors.is_empty() {
        for e in &harness_errors {
            eprintln!("CHECK-ERROR [{}]: {e}", a.prop);
        }
        return 2;
    }
    if summaries == 0 || merged.evaluations == 0 || distinct_nontrivial < info.min_nontrivial {
        eprintln!(
            "CHECK-ERROR [{}]: observed too little (evaluations={}, distinct_nontrivial={} < {})",
            a.prop, merged.evaluations, distinct_nontrivial, info.min_nontrivial
        );
        return 2;
    }
    // Required coverage counters (a run that never reached what it claims to watch is a failure).
    for key in info.required_counters {
        if merged.counters.get(*key).copied().unwrap_or(0) == 0 {
            eprintln!("CHECK-ERROR [{}]: required coverage '{key}' never observed", a.prop);
            return 2;
        }
    }
    0
}

fn load_known(root: &Path, prop: &str) -> Vec<Value> {
    let Ok(text) = std::fs::read_to_string(root.join("known_findings.json")) else {
        return vec![];
    };
    let Ok(v) = serde_json::from_str::<Value>(&text) else {
        eprintln!("known_findings.json does not parse; ignoring it");
        return vec![];
    };
    v["findings"]
        .as_array()
        .map(|xs| {
            xs.iter()
                .filter(|k| {
                    k["property"].as_str() == Some(prop) && k["status"].as_str() == Some("known")
                })
                .cloned()
                .collect()
        })
        .unwrap_or_default()
}

#[allow(clippy::too_many_arguments)]
fn write_evidence(
    a: &RunArgs,
    info: &PropInfo,
    m: &Merged,
    distinct_nontrivial: u64,
    violations: u64,
    known_seen: &[Value],
    harness_errors: &[String],
    wall: f64,
) {
    let mut coverage = Map::new();
    coverage.insert("evaluations".into(), json!(m.evaluations));
    coverage.insert("distinct_nontrivial".into(), json!(distinct_nontrivial));
    coverage.insert("rule".into(), json!(info.rule));
    coverage.insert("samples".into(), json!(m.samples));
    coverage.insert(
        "exhaustive".into(),
        json!(match a.tier {
            Tier::Quick => info.exhaustive_quick,
            Tier::Thorough => info.exhaustive_thorough,
        }),
    );
    if !info.exhaustive_note.is_empty() {
        coverage.insert("exhaustive_note".into(), json!(info.exhaustive_note));
    }
    coverage.insert("observed".into(), json!(m.counters));
    coverage.insert("inconclusive".into(), json!(m.inconclusive));
    coverage.insert("known_findings_observed".into(), json!(known_seen));
    coverage.insert(
        "violation_signatures".into(),
        json!(m
            .violations
            .iter()
            .map(|(k, (n, _))| json!({"signature": k, "count": n}))
            .collect::<Vec<_>>()),
    );
    coverage.insert("shards".into(), json!(a.nshards));
    if !harness_errors.is_empty() {
        coverage.insert("check_errors".into(), json!(harness_errors));
    }
    let ev = json!({
        "property_id": a.prop,
        "tier": a.tier.name(),
        "seed": a.seed,
        "level": "exploration",
        "coverage": Value::Object(coverage),
        "assumptions": info.assumptions,
        "wall_s": (wall * 100.0).round() / 100.0,
        "violations": violations,
    });
    let dir = a.verif_root.join("evidence");
    let _ = std::fs::create_dir_all(&dir);
    let _ = std::fs::write(
        dir.join(format!("{}.json", a.prop)),
        serde_json::to_string_pretty(&ev).unwrap() + "\n",
    );
}

/// Replay one recorded case in a child process; exit 1 if the violation reproduces.
pub fn replay(verif_root: &Path, file: &Path) -> i32 {
    let Ok(text) = std::fs::read_to_string(file) else {
        eprintln!("cannot read {}", file.display());
        return 2;
    };
    let Ok(v) = serde_json::from_str::<Value>(&text) else {
        eprintln!("replay file does not parse");
        return 2;
    };
    let prop = v["property"].as_str().unwrap_or("").to_string();
    let workdir = verif_root.join(".work").join(format!("{prop}-replay"));
    let _ = std::fs::remove_dir_all(&workdir);
    let _ = std::fs::create_dir_all(&workdir);
    let exe = std::env::current_exe().unwrap();
    let status = Command::new(exe)
        .arg("shard")
        .arg(&prop)
        .arg("--tier")
        .arg(v["tier"].as_str().unwrap_or("quick"))
        .arg("--seed")
        .arg(v["seed"].as_u64().unwrap_or(0).to_string())
        .arg("--shard")
        .arg(v["shard"].as_u64().unwrap_or(0).to_string())
        .arg("--nshards")
        .arg(v["nshards"].as_u64().unwrap_or(16).to_string())
        .arg("--workdir")
        .arg(&workdir)
        .arg("--only-case")
        .arg(v["case_no"].as_u64().unwrap_or(0).to_string())
        .status();
    match status {
        Ok(s) if s.success() => {
            println!("replay: property held on this case");
            0
        }
        Ok(s) => {
            if let Some(sig) = s.signal() {
                println!("replay: process died with {}", signal_name(sig));
                println!("VIOLATION property={prop} replay={}", file.display());
                1
            } else if s.code() == Some(1) {
                println!("VIOLATION property={prop} replay={}", file.display());
                1
            } else {
                2
            }
        }
        Err(e) => {
            eprintln!("{e}");
            2
        }
    }
}
