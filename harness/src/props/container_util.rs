//! Shared observation helpers for the `Program` container monitors (C08–C11).
//!
//! Everything here looks only at values *returned* by quil-rs (instruction listings, serialized
//! text) and compares them with each other or with what the reference model expects.

use crate::core::{guarded, PanicInfo};
use crate::gen::container_gen::{kind_of, Item, Kind, DEF_KINDS};
use crate::model::container_model::ProgramModel;
use quil_rs::instruction::Instruction;
use quil_rs::quil::Quil;
use quil_rs::Program;
use serde_json::{json, Value};

/// Serialization outcome as a comparable string (`OK:<text>` or `ERR:<error>`).
pub fn quil_text<T: Quil>(t: &T) -> String {
    match t.to_quil() {
        Ok(s) => format!("OK:{s}"),
        Err(e) => format!("ERR:{e}"),
    }
}

/// What one build of a program showed through the public API.
#[derive(Clone, Debug)]
pub struct Observed {
    pub how: &'static str,
    pub listing: Vec<Instruction>,
    pub text: String,
}

pub fn observe(how: &'static str, p: &Program) -> Observed {
    Observed {
        how,
        listing: p.to_instructions(),
        text: quil_text(p),
    }
}

/// Sub-sequence of a listing that belongs to `kind`, in listing order.
pub fn of_kind(listing: &[Instruction], kind: Kind) -> Vec<&Instruction> {
    listing.iter().filter(|i| kind_of(i) == kind).collect()
}

#[derive(Clone, Copy, Debug, PartialEq, Eq, Hash, PartialOrd, Ord)]
pub enum KindDiff {
    Equal,
    /// same entries, different order
    Permuted,
    /// more entries than the model has keys (a redefinition was appended instead of replacing)
    ExtraEntries,
    /// fewer entries than the model has keys
    MissingEntries,
    /// same number of entries but some entry is not the expected (last) value of its key
    WrongValue,
}

impl KindDiff {
    pub fn name(self) -> &'static str {
        match self {
            KindDiff::Equal => "equal",
            KindDiff::Permuted => "not-insertion-order",
            KindDiff::ExtraEntries => "extra-entries",
            KindDiff::MissingEntries => "missing-entries",
            KindDiff::WrongValue => "wrong-value",
        }
    }
}

/// Compare an observed per-kind sequence with the expected one (generic over the element type so
/// that it works on instructions and on serialized texts alike).
pub fn diff_seq<T: PartialEq>(actual: &[T], expected: &[T]) -> KindDiff {
    if actual.len() == expected.len() && actual.iter().zip(expected).all(|(a, e)| a == e) {
        return KindDiff::Equal;
    }
    if actual.len() > expected.len() {
        return KindDiff::ExtraEntries;
    }
    if actual.len() < expected.len() {
        return KindDiff::MissingEntries;
    }
    // multiset comparison
    let mut used = vec![false; actual.len()];
    for e in expected {
        match (0..actual.len()).find(|&i| !used[i] && actual[i] == *e) {
            Some(i) => used[i] = true,
            None => return KindDiff::WrongValue,
        }
    }
    KindDiff::Permuted
}

/// Per-kind comparison of a listing with the model.  Returns the kinds that differ.
pub fn diff_listing_with_model(
    listing: &[Instruction],
    arena: &[Item],
    model: &ProgramModel,
    kinds: &[Kind],
) -> Vec<(Kind, KindDiff)> {
    let mut out = Vec::new();
    for &kind in kinds {
        let actual: Vec<&Instruction> = of_kind(listing, kind);
        let expected: Vec<&Instruction> = model.listing(kind).iter().map(|&i| &arena[i].instr).collect();
        let d = diff_seq(&actual, &expected);
        if d != KindDiff::Equal {
            out.push((kind, d));
        }
    }
    out
}

/// Kinds in which two listings differ (per-kind sub-sequences compared element-wise); `Body`
/// is included.  If the per-kind sub-sequences all agree but the listings still differ, the
/// blocks are arranged differently: reported as `None` kind list with `true`.
pub fn differing_kinds(a: &[Instruction], b: &[Instruction]) -> (Vec<Kind>, bool) {
    let mut kinds = Vec::new();
    for kind in DEF_KINDS.iter().copied().chain(std::iter::once(Kind::Body)) {
        if of_kind(a, kind) != of_kind(b, kind) {
            kinds.push(kind);
        }
    }
    let arrangement = kinds.is_empty() && a != b;
    (kinds, arrangement)
}

/// Are two listings equal up to a permutation of the DEFFRAME entries among the positions that
/// hold DEFFRAME entries?  (Used by C09–C11 to attribute the hash-ordered `FrameSet` to C08.)
pub fn equal_modulo_frame_order(a: &[Instruction], b: &[Instruction]) -> bool {
    if a.len() != b.len() {
        return false;
    }
    let mut fa = Vec::new();
    let mut fb = Vec::new();
    for (x, y) in a.iter().zip(b) {
        let (kx, ky) = (kind_of(x), kind_of(y));
        if (kx == Kind::Frame) != (ky == Kind::Frame) {
            return false;
        }
        if kx == Kind::Frame {
            fa.push(x);
            fb.push(y);
        } else if x != y {
            return false;
        }
    }
    matches!(diff_seq(&fa, &fb), KindDiff::Equal | KindDiff::Permuted)
}

pub fn kinds_label(kinds: &[Kind]) -> String {
    kinds.iter().map(|k| k.name()).collect::<Vec<_>>().join("+")
}

/// Sequence of blocks (maximal runs of one kind) in a listing.
pub fn block_order(listing: &[Instruction]) -> Vec<Kind> {
    let mut out: Vec<Kind> = Vec::new();
    for i in listing {
        let k = kind_of(i);
        if out.last() != Some(&k) {
            out.push(k);
        }
    }
    out
}

/// Greedy in-order search of the expected per-kind texts in the serialized program.
/// Sound: if the text does contain the blocks in this order, the earliest-match search succeeds.
pub fn texts_in_order(program_text: &str, expected: &[String]) -> Result<(), usize> {
    let mut from = 0usize;
    for (n, t) in expected.iter().enumerate() {
        match program_text[from..].find(t.as_str()) {
            Some(p) => from += p + t.len(),
            None => return Err(n),
        }
    }
    Ok(())
}

pub fn clip_listing(listing: &[Instruction], n: usize) -> Value {
    let texts: Vec<String> = listing
        .iter()
        .take(n)
        .map(|i| match guarded(|| i.to_quil_or_debug()) {
            Ok(s) => s,
            Err(_) => "<panic while printing>".to_string(),
        })
        .collect();
    json!(texts)
}

pub fn panic_value(p: &PanicInfo) -> Value {
    json!({"panic": p.to_json()})
}

/// Build a program in one of the ways the properties name.
pub fn build_from_instructions(items: &[Item]) -> Program {
    Program::from_instructions(items.iter().map(|i| i.instr.clone()).collect())
}

pub fn build_incrementally(items: &[Item]) -> Program {
    let mut p = Program::new();
    for it in items {
        p.add_instruction(it.instr.clone());
    }
    p
}
