//! C17 — calibration expansion is a complete, faithful substitution, to a fixpoint, hoists
//! declarations, and is the same with and without a source map.
//!
//! Oracle: the model expander of `model::calib_model` (written from the property statement).  Per
//! generated program:
//!   1. **one-level oracle** — for every (calibration, invoking instruction) pair met in the
//!      model's expansion tree, the real code is asked to expand that instruction against a set
//!      holding *only* that calibration (`Calibrations::expand`), which isolates one substitution
//!      step; the result is compared slot by slot with the model's substitution.  This gives one
//!      specific signature per defective slot and is immune to cascades.
//!   2. **whole program** — body of `Program::expand_calibrations` vs the model's body (values of
//!      expressions, not spellings).  A mismatch in a program whose one-level oracle already fired
//!      is a consequence and only counted.
//!   3. independent of the model: no declaration left in the body / calibration-emitted
//!      declarations are memory regions; `expand_calibrations() == expand_calibrations_with_source_map().0`;
//!      the result is a fixpoint (expanding again changes nothing, no body instruction has a
//!      match); `Calibrations::expand` per instruction agrees with the program-level result;
//!      unmatched instructions keep their relative order.

use crate::core::{clip, guarded, hash_of, Ctx};
use crate::gen::calib_gen::{CalibGen, Cfg};
use crate::model::calib_model::*;
use crate::props::{PropInfo, DEFAULT};
use quil_rs::instruction::Instruction;
use quil_rs::program::Calibrations;
use quil_rs::Program;
use serde_json::json;
use std::collections::{BTreeSet, HashSet};
use std::str::FromStr;

pub static INFO: PropInfo = PropInfo {
    id: "C17",
    run,
    rule: "programs of 1..4 body instructions and 1..5(+redefinitions) calibrations over gates {X, RX, CZ, CONTROLLED X, Y, RZ} and MEASURE[!mid]; every calibration is derived from an instruction that exists (top level or inside an earlier calibration body: fixed slots kept / generalised to a variable / rarely changed), bodies of 1..4 instructions drawn from {nested gate, MEASURE, PULSE, CAPTURE, RAW-CAPTURE, DELAY, FENCE, SET-/SHIFT-*, SWAP-PHASES, RESET, DECLARE, PRAGMA LOAD-MEMORY, NOP} on variable, fixed and unbound qubits with parameter expressions over the calibration's %t; measurement calibrations with fixed and variable qubit capture into the target name and into another region. Calibration bodies only invoke strictly 'higher' gates, so no recursion. A few directed programs come first. distinct non-trivial = distinct program text in which the model performs at least one expansion.",
    assumptions: &[
        "expressions are compared by value (three environments for free names), not by spelling",
        "uses of a measurement calibration's target name are CAPTURE / RAW-CAPTURE destinations and PRAGMA LOAD-MEMORY data; the generator writes them without index or with index 0",
        "programs for which the model finds a recursion are left to C18",
    ],
    min_nontrivial: 500,
    required_counters: &[
        "expansion-depth:1",
        "expansion-depth:2",
        "expansion-depth:3+",
        "one-level:compared",
        "binding:gate-qubit-variable",
        "binding:gate-parameter-variable",
        "binding:measure-qubit-variable",
        "binding:measure-target",
        "programs-with-hoisted-declaration",
        "whole-program:compared",
    ],
    ..DEFAULT
};

pub(crate) struct Prepared {
    pub program: Program,
    pub model: MProgram,
}

/// Parse the case with the real parser and translate it for the model.  `None` (and an
/// inconclusive / violation record) if that is not possible.
pub(crate) fn prepare(ctx: &mut Ctx, text: &str) -> Option<Prepared> {
    match guarded(|| Program::from_str(text)) {
        Err(p) => {
            // a parser panic is C01's business; here it only means nothing can be observed
            ctx.inconclusive("parser panicked on generated program");
            if ctx.verbose {
                println!("  parser panic: {:?}", p);
            }
            None
        }
        Ok(Err(e)) => {
            ctx.inconclusive("generated program rejected by the parser");
            ctx.count("harness:parse-reject");
            if ctx.verbose {
                println!("  parse error: {e}");
            }
            None
        }
        Ok(Ok(program)) => {
            let model = conv_program(&program);
            if !in_fragment(&model) {
                ctx.inconclusive("program outside the model's instruction fragment");
                return None;
            }
            Some(Prepared { program, model })
        }
    }
}

fn qubits_of(i: &MInstr) -> Vec<&MQubit> {
    match i {
        MInstr::Gate(g) => g.qubits.iter().collect(),
        MInstr::Measure(m) => vec![&m.qubit],
        MInstr::Reset(q) => q.iter().collect(),
        MInstr::Pulse { frame, .. } | MInstr::Capture { frame, .. } | MInstr::RawCapture { frame, .. } | MInstr::FrameExpr { frame, .. } => {
            frame.qubits.iter().collect()
        }
        MInstr::Delay { qubits, .. } | MInstr::Fence(qubits) => qubits.iter().collect(),
        MInstr::SwapPhases(a, b) => a.qubits.iter().chain(b.qubits.iter()).collect(),
        _ => vec![],
    }
}

fn dest_of(i: &MInstr) -> Option<&(String, u64)> {
    match i {
        MInstr::Capture { dest, .. } | MInstr::RawCapture { dest, .. } => Some(dest),
        _ => None,
    }
}

/// One specific signature for a slot of a substituted instruction that differs from the model.
fn classify(cal_kind: &str, slot: &str, real: &MInstr, exp: &MInstr, raw: &MInstr, invoked: &MInstr, target_name: Option<&str>) -> String {
    let kind = exp.kind();
    match slot {
        "qubits" => {
            let (rq, eq, wq) = (qubits_of(real), qubits_of(exp), qubits_of(raw));
            let unsubstituted = rq.len() == eq.len()
                && rq.len() == wq.len()
                && (0..rq.len()).any(|k| rq[k] != eq[k] && rq[k] == wq[k] && matches!(rq[k], MQubit::Var(_)));
            if unsubstituted && cal_kind == "measure-cal" {
                // no instruction kind at all gets its qubits substituted by a measurement
                // calibration (one root cause): the kind is in the detail, not in the signature
                format!("substitution:{cal_kind}:qubit-variable-not-substituted")
            } else if unsubstituted {
                format!("substitution:{cal_kind}:qubit-variable-not-substituted:{kind}")
            } else {
                format!("substitution:{cal_kind}:wrong-qubit:{kind}")
            }
        }
        "parameter" => {
            if real == raw {
                format!("substitution:{cal_kind}:parameter-variable-not-substituted:{kind}")
            } else {
                format!("substitution:{cal_kind}:wrong-parameter-value:{kind}")
            }
        }
        "destination" => {
            let mtarget = if let MInstr::Measure(m) = invoked { m.target.as_ref() } else { None };
            match (dest_of(real), dest_of(exp), dest_of(raw)) {
                (Some(r), Some(e), Some(w)) => {
                    if e == w && Some(r) == mtarget {
                        format!("substitution:{cal_kind}:destination-other-than-target-name-overwritten:{kind}")
                    } else if Some(e) == mtarget && r == w && Some(w.0.as_str()) == target_name {
                        format!("substitution:{cal_kind}:target-name-not-replaced:{kind}")
                    } else {
                        format!("substitution:{cal_kind}:wrong-destination:{kind}")
                    }
                }
                _ => format!("substitution:{cal_kind}:wrong-destination:{kind}"),
            }
        }
        "pragma-data" => {
            if real == raw {
                format!("substitution:{cal_kind}:target-name-not-replaced:Pragma")
            } else {
                format!("substitution:{cal_kind}:wrong-pragma-data")
            }
        }
        _ => format!("substitution:{cal_kind}:instruction-differs:{}-became-{}", exp.kind(), real.kind()),
    }
}

/// One-level oracle.  Returns the set of signatures raised.
fn one_level(ctx: &mut Ctx, prep: &Prepared, invocations: &[(CalRef, MInstr)]) -> BTreeSet<String> {
    one_level_impl(ctx, prep, invocations, true)
}

/// The same comparison without reporting or counting anything (used by C18 / C19 to recognise
/// programs on which a substitution step itself differs from the model, which is C17's finding).
pub(crate) fn one_level_silent(ctx: &mut Ctx, prep: &Prepared, invocations: &[(CalRef, MInstr)]) -> BTreeSet<String> {
    one_level_impl(ctx, prep, invocations, false)
}

fn one_level_impl(ctx: &mut Ctx, prep: &Prepared, invocations: &[(CalRef, MInstr)], report: bool) -> BTreeSet<String> {
    let mut sigs = BTreeSet::new();
    let mut seen = HashSet::new();
    let ex = Expander::new(&prep.model.cals);
    // counters and violations go through these two closures-in-spirit
    macro_rules! count {
        ($k:expr) => {
            if report {
                ctx.count($k);
            }
        };
    }
    macro_rules! violation {
        ($sig:expr, $detail:expr $(,)?) => {
            if report {
                ctx.violation($sig, $detail);
            }
        };
    }
    for (cal, invoked) in invocations {
        if !seen.insert(hash_of(&(cal, invoked))) {
            continue;
        }
        let Ok(expected) = ex.one_level(*cal, invoked) else { continue };
        let (cal_kind, raw_body, target_name, single): (&str, &Vec<MInstr>, Option<&str>, Calibrations) = match cal {
            CalRef::Gate(k) => {
                let mc = &prep.model.cals.gate[*k];
                // bindings (coverage)
                if mc.qubits.iter().any(|q| matches!(q, MQubit::Var(_))) {
                    count!("binding:gate-qubit-variable");
                }
                if mc.params.iter().any(|p| matches!(p, MExpr::Var(_))) {
                    count!("binding:gate-parameter-variable");
                }
                let Some(rc) = prep.program.calibrations.iter_calibrations().nth(*k) else { continue };
                let mut s = Calibrations::default();
                s.insert_calibration(rc.clone());
                ("gate-cal", &mc.body, None, s)
            }
            CalRef::Meas(k) => {
                let mc = &prep.model.cals.meas[*k];
                if matches!(mc.qubit, MQubit::Var(_)) {
                    count!("binding:measure-qubit-variable");
                }
                if mc.target.is_some() {
                    count!("binding:measure-target");
                }
                let Some(rc) = prep.program.calibrations.iter_measure_calibrations().nth(*k) else { continue };
                let mut s = Calibrations::default();
                s.insert_measurement_calibration(rc.clone());
                ("measure-cal", &mc.body, mc.target.as_deref(), s)
            }
        };
        // isolate one step: skip if the substituted body would invoke this very calibration again
        let self_invoking = expected.iter().any(|b| match (cal, b) {
            (CalRef::Gate(k), MInstr::Gate(g)) => gate_cal_matches(&prep.model.cals.gate[*k], g) != Tri::No,
            (CalRef::Meas(k), MInstr::Measure(m)) => {
                let mut one = MCalSet::default();
                one.meas.push(prep.model.cals.meas[*k].clone());
                match_measure(&one, m).winner.is_some()
            }
            _ => false,
        });
        let Some(mut real_invoked) = to_real_invocation(invoked) else { continue };
        let mut single = single;
        if self_invoking {
            // The body re-invokes this very calibration: isolate the step by giving the calibration
            // and the invoking instruction a fresh name, so that nothing in the body matches it.
            count!("one-level:self-invoking (compared under a fresh name)");
            let mut renamed = Calibrations::default();
            match (cal, &mut real_invoked) {
                (CalRef::Gate(_), Instruction::Gate(g)) => {
                    let Some(mut c) = single.iter_calibrations().next().cloned() else { continue };
                    c.identifier.name = "VERIFPROBE".to_string();
                    g.name = "VERIFPROBE".to_string();
                    renamed.insert_calibration(c);
                }
                (CalRef::Meas(_), Instruction::Measurement(m)) => {
                    let Some(mut c) = single.iter_measure_calibrations().next().cloned() else { continue };
                    c.identifier.name = Some("verifprobe".to_string());
                    m.name = Some("verifprobe".to_string());
                    renamed.insert_measurement_calibration(c);
                }
                _ => continue,
            }
            single = renamed;
        }
        count!("one-level:compared");
        match guarded(|| single.expand(&real_invoked, &[])) {
            Err(p) => {
                sigs.insert(p.signature());
                violation!(&p.signature(), json!({"stage": "Calibrations::expand", "invoked": format!("{invoked:?}"), "panic": p.to_json()}));
            }
            Ok(Err(e)) => {
                let s = format!("one-level:unexpected-error:{}", error_kind(&e));
                violation!(&s, json!({"invoked": format!("{invoked:?}"), "error": e.to_string()}));
                sigs.insert(s);
            }
            Ok(Ok(None)) => {
                let s = format!("one-level:{cal_kind}:winning-calibration-does-not-match-when-alone");
                violation!(&s, json!({"invoked": format!("{invoked:?}"), "calibration": format!("{cal:?}")}));
                sigs.insert(s);
            }
            Ok(Ok(Some(out))) => {
                let real: Vec<MInstr> = out.iter().map(conv_instr).collect();
                if real.len() != expected.len() {
                    let s = format!("substitution:{cal_kind}:body-length-differs");
                    violation!(&s, json!({"invoked": format!("{invoked:?}"), "expected": format!("{expected:?}"), "observed": format!("{real:?}")}));
                    sigs.insert(s);
                    continue;
                }
                for k in 0..real.len() {
                    if expected[k] != raw_body[k] {
                        count!(&format!("substituted-into:{}", expected[k].kind()));
                    }
                    if let Some(slot) = first_difference(&real[k], &expected[k]) {
                        let s = classify(cal_kind, slot, &real[k], &expected[k], &raw_body[k], invoked, target_name);
                        if sigs.insert(s.clone()) {
                            violation!(
                                &s,
                                json!({
                                    "calibration": format!("{cal:?}"),
                                    "invoked": format!("{invoked:?}"),
                                    "body instruction as written": format!("{:?}", raw_body[k]),
                                    "expected after substitution": format!("{:?}", expected[k]),
                                    "observed": format!("{:?}", real[k]),
                                }),
                            );
                        }
                    }
                }
            }
        }
    }
    sigs
}

pub(crate) fn check_program(ctx: &mut Ctx, text: &str, workload: &str) {
    if !ctx.begin(text) {
        return;
    }
    ctx.count(workload);
    let Some(prep) = prepare(ctx, text) else { return };

    // ---- model
    let model = match expand_program(&prep.model) {
        Ok(m) => m,
        Err((Stop::Recursive(_), ..)) => {
            ctx.count("model:recursive (left to C18)");
            return;
        }
        Err((Stop::Fuel, ..)) => {
            ctx.inconclusive("model out of fuel");
            return;
        }
        Err((Stop::Ambiguous(why), ..)) => {
            ctx.inconclusive(&format!("model cannot decide: {why}"));
            return;
        }
    };
    if model.expansions >= 1 {
        ctx.nontrivial_input();
    } else {
        ctx.count("programs-without-expansion");
    }
    let depth = model.top.iter().flatten().map(|n| n.depth()).max().unwrap_or(0);
    ctx.count(&format!(
        "expansion-depth:{}",
        match depth {
            0 => "0",
            1 => "1",
            2 => "2",
            _ => "3+",
        }
    ));
    ctx.max("expansion-depth", depth as u64);
    ctx.max("expansions-in-one-program", model.expansions);
    if !model.hoisted.is_empty() {
        ctx.count("programs-with-hoisted-declaration");
    }

    // ---- real
    let expanded = match guarded(|| prep.program.expand_calibrations()) {
        Err(p) => {
            ctx.violation(&p.signature(), json!({"stage": "expand_calibrations", "panic": p.to_json()}));
            return;
        }
        Ok(Err(e)) => {
            ctx.violation(&format!("unexpected-error:{}", error_kind(&e)), json!({"error": e.to_string(), "model": "no instruction is expanded while being expanded"}));
            return;
        }
        Ok(Ok(p)) => p,
    };
    let real_body: Vec<MInstr> = expanded.body_instructions().map(conv_instr).collect();

    // 1. one-level oracle
    let step_sigs = one_level(ctx, &prep, &model.invocations);

    // 2. whole program
    ctx.count("whole-program:compared");
    let agree = bodies_agree(&real_body, &model.body);
    if agree {
        ctx.count("whole-program:agrees");
    } else if !step_sigs.is_empty() {
        ctx.count("whole-program:differs (consequence of a one-level finding in the same program)");
    } else {
        let k = (0..real_body.len().min(model.body.len())).find(|&k| first_difference(&real_body[k], &model.body[k]).is_some());
        let sig = match k {
            Some(k) => format!(
                "whole-program:body-differs:{}",
                if real_body[k].kind() == model.body[k].kind() { first_difference(&real_body[k], &model.body[k]).unwrap_or("other").to_string() } else { "different-instruction".to_string() }
            ),
            None => "whole-program:body-length-differs".to_string(),
        };
        ctx.violation(
            &sig,
            json!({"first difference at": k, "expected body": format!("{:?}", model.body), "observed body": format!("{real_body:?}")}),
        );
    }

    // 3a. declarations are hoisted
    if real_body.iter().any(|i| i.is_declare()) {
        ctx.violation("hoisting:declaration-left-in-body", json!({"observed body": format!("{real_body:?}")}));
    }
    if agree && step_sigs.is_empty() {
        for d in &model.hoisted {
            if let MInstr::Declare { name, .. } = d {
                if !expanded.memory_regions.contains_key(name) {
                    ctx.violation("hoisting:calibration-declaration-not-a-memory-region", json!({"declaration": name}));
                }
            }
        }
    }
    for name in &prep.model.declared {
        if !expanded.memory_regions.contains_key(name) {
            ctx.violation("hoisting:header-declaration-lost", json!({"declaration": name}));
        }
    }

    // 3b. same program with and without a source map
    match guarded(|| prep.program.expand_calibrations_with_source_map()) {
        Err(p) => ctx.violation(&p.signature(), json!({"stage": "expand_calibrations_with_source_map", "panic": p.to_json()})),
        Ok(Err(e)) => ctx.violation(&format!("with-source-map:unexpected-error:{}", error_kind(&e)), json!({"error": e.to_string()})),
        Ok(Ok((with_map, _))) => {
            if with_map != expanded {
                let sig = if with_map.body_instructions().eq(expanded.body_instructions()) {
                    "with-source-map:program-differs-outside-body"
                } else {
                    "with-source-map:body-differs"
                };
                ctx.violation(sig, json!({"without": clip(&format!("{expanded:?}"), 1500), "with": clip(&format!("{with_map:?}"), 1500)}));
            }
        }
    }

    // 3c. fixpoint
    match guarded(|| expanded.expand_calibrations()) {
        Err(p) => ctx.violation(&p.signature(), json!({"stage": "second expand_calibrations", "panic": p.to_json()})),
        Ok(Err(e)) => ctx.violation(&format!("fixpoint:second-expansion-fails:{}", error_kind(&e)), json!({"error": e.to_string()})),
        Ok(Ok(again)) => {
            if again != expanded {
                ctx.violation("fixpoint:second-expansion-changes-the-program", json!({"first": clip(&format!("{expanded:?}"), 1500), "second": clip(&format!("{again:?}"), 1500)}));
            }
        }
    }
    {
        let ex = Expander::new(&prep.model.cals);
        for i in &real_body {
            if let Ok(Some(c)) = ex.lookup(i) {
                ctx.violation("fixpoint:body-instruction-still-has-a-match", json!({"instruction": format!("{i:?}"), "calibration": format!("{c:?}")}));
                break;
            }
        }
    }

    // 3d. per-instruction expansion agrees with the program-level result
    let per: Result<Result<Vec<Instruction>, _>, _> = guarded(|| {
        let mut out = Vec::new();
        for i in prep.program.body_instructions() {
            match prep.program.calibrations.expand(i, &[])? {
                Some(v) => out.extend(v),
                None => out.push(i.clone()),
            }
        }
        Ok::<_, quil_rs::program::ProgramError>(out)
    });
    match per {
        Err(p) => ctx.violation(&p.signature(), json!({"stage": "Calibrations::expand", "panic": p.to_json()})),
        Ok(Err(e)) => ctx.violation(&format!("per-instruction:unexpected-error:{}", error_kind(&e)), json!({"error": e.to_string()})),
        Ok(Ok(list)) => {
            let flat: Vec<&Instruction> = list.iter().filter(|i| !matches!(i, Instruction::Declaration(_))).collect();
            if !flat.iter().copied().eq(expanded.body_instructions()) {
                ctx.violation("per-instruction:differs-from-program-level-expansion", json!({"per instruction": format!("{flat:?}"), "program": format!("{:?}", expanded.body_instructions().collect::<Vec<_>>())}));
            }
        }
    }

    // 3e. unmatched top-level instructions keep their relative order
    {
        let unmatched: Vec<&MInstr> = prep.model.body.iter().zip(&model.top).filter(|(_, t)| t.is_none()).map(|(i, _)| i).collect();
        let mut it = real_body.iter();
        let in_order = unmatched.iter().all(|u| it.any(|r| r == *u));
        if !unmatched.is_empty() {
            ctx.count("programs-with-unmatched-instructions");
        }
        if !in_order {
            ctx.violation("order:unmatched-instructions-missing-or-reordered", json!({"unmatched": format!("{unmatched:?}"), "observed body": format!("{real_body:?}")}));
        }
    }

    if model.expansions >= 2 {
        ctx.sample("expanded-program", json!({"program": text, "expanded body": format!("{:?}", model.body), "expansions": model.expansions, "depth": depth}));
    }
}

/// Directed programs: one per substitution feature named in the property statement.
pub(crate) const DIRECTED: &[&str] = &[
    // measurement calibration, variable qubit, capture into the target name and into another region
    "DECLARE ro BIT[4]\nDECLARE other BIT[2]\nDEFCAL MEASURE q addr:\n    FENCE q\n    CAPTURE q \"ro_rx\" flat(duration: 1.0, iq: 1.0) addr[0]\n    CAPTURE q \"ro_rx\" flat(duration: 1.0, iq: 1.0) other[0]\n    RAW-CAPTURE q \"ro_rx\" 1.0 addr\n    PRAGMA LOAD-MEMORY \"addr\"\nMEASURE 2 ro[1]\n",
    // measurement calibration, fixed qubit
    "DECLARE ro BIT[4]\nDEFCAL MEASURE 2 addr:\n    PULSE 2 \"ro_tx\" flat(duration: 1.0, iq: 1.0)\n    CAPTURE 2 \"ro_rx\" flat(duration: 1.0, iq: 1.0) addr[0]\nMEASURE 2 ro[1]\nMEASURE 1 ro[0]\n",
    // gate calibration with every qubit-carrying instruction kind
    "DECLARE ro BIT[4]\nDEFCAL X q:\n    MEASURE q ro[0]\n    RESET q\n    SWAP-PHASES q \"rf\" q \"aux\"\n    FENCE q\n    DELAY q 1.0\n    PULSE q \"rf\" flat(duration: 1.0, iq: 1.0)\n    SHIFT-PHASE q \"rf\" 0.5\nX 2\n",
    // parameters, nesting, declarations
    "DECLARE ro BIT[4]\nDEFCAL RX(%t) q:\n    DECLARE m1 REAL[2]\n    RZ(%t/2) q\n    SET-FREQUENCY q \"rf\" 2*%t\n    CAPTURE q \"ro_rx\" flat(duration: %t, iq: 1.0) ro[1]\nDEFCAL RZ(%t) 2:\n    SHIFT-PHASE 2 \"rf\" -%t\n    DELAY 2 (%t+1)\nRX(pi/2) 2\nRX(0.5) 1\nH 0\n",
    // measurement nested in a gate calibration, gate nested in a measurement calibration
    "DECLARE ro BIT[4]\nDEFCAL X q:\n    MEASURE q ro[2]\nDEFCAL MEASURE q addr:\n    Y q\n    CAPTURE q \"ro_rx\" flat(duration: 1.0, iq: 1.0) addr[0]\nDEFCAL Y 1:\n    PULSE 1 \"rf\" flat(duration: 1.0, iq: 1.0)\nX 1\n",
];

fn run(ctx: &mut Ctx) {
    if ctx.shard == 0 {
        for d in DIRECTED {
            check_program(ctx, d, "workload:directed");
            if ctx.done() {
                return;
            }
        }
    }
    let mut rng = ctx.rng(1);
    let n = ctx.share(ctx.tier.pick(600_000, 6_000_000));
    for k in 0..n {
        let mut cfg = Cfg::c17();
        if k % 5 == 0 {
            cfg.declare_pct = 25;
        }
        let text = CalibGen::new(&mut rng, cfg).program().text();
        check_program(ctx, &text, "workload:random");
        if ctx.done() {
            return;
        }
    }
}
