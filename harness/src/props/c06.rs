//! C06 — names are preserved exactly and consistently by parsing.
//!
//! A name is written into a syntactic position of a program template whose other names come from
//! a fixed set; after parsing with the real parser an independent walk over the AST collects
//! every identifier-like name.  The multiset of names found must be exactly the template's fixed
//! names plus the chosen spelling, once per occurrence: any case-folding, truncation or other
//! rewriting of the name shows up as a difference.

use crate::core::{guarded, Ctx, Rng};
use crate::model::names::{instruction_names, Names};
use crate::props::{PropInfo, DEFAULT};
use quil_rs::Program;
use serde_json::json;
use std::collections::BTreeMap;
use std::str::FromStr;

pub static INFO: PropInfo = PropInfo {
    id: "C06",
    run,
    rule: "a ~45-name battery (mixed case, dashes, digits, underscores, keyword and reserved-word look-alikes) plus random valid identifiers is written into each of ~100 name positions (declarations, memory references in every classical/Quil-T instruction with and without index, memory references inside expressions bare and bracketed, variables, labels and jump targets, gate/DEFGATE/DEFCIRCUIT/DEFCAL names, waveform names incl. a/b, waveform parameter names, qubit variables and formals, pragma names and arguments, CALL names/arguments, extern names, frame attribute keys, measurement names and calibration targets) and into multi-use programs; reserved words pi, i, sin, cos, exp, sqrt, cis (any case) are excluded from bare-expression positions as the property says. distinct = distinct (position, name); non-trivial = the parser accepted the text, so the collected names were compared.",
    assumptions: &[
        "the AST walker in model/names.rs visits every public name-bearing field (DEFGATE AS SEQUENCE bodies are crate-private and not walked)",
        "a text the parser rejects is not a counterexample (the property is about names that reach the parsed program)",
    ],
    min_nontrivial: 1000,
    required_counters: &["accepted:expr-bare", "accepted:memory", "accepted:label", "accepted:gate-name", "accepted:waveform", "accepted:qubit-variable", "accepted:variable", "accepted:pragma", "accepted:multi-use"],
    ..DEFAULT
};

#[derive(Clone, Copy, PartialEq, Debug)]
enum Class {
    Memory,
    ExprBare,
    ExprIndexed,
    Variable,
    Label,
    GateName,
    QubitVariable,
    Waveform,
    WaveformParam,
    Pragma,
    Call,
    AttrKey,
    MeasureName,
    MultiUse,
}

impl Class {
    fn tag(self) -> &'static str {
        match self {
            Class::Memory => "memory",
            Class::ExprBare => "expr-bare",
            Class::ExprIndexed => "expr-indexed",
            Class::Variable => "variable",
            Class::Label => "label",
            Class::GateName => "gate-name",
            Class::QubitVariable => "qubit-variable",
            Class::Waveform => "waveform",
            Class::WaveformParam => "waveform-parameter",
            Class::Pragma => "pragma",
            Class::Call => "call",
            Class::AttrKey => "frame-attribute-key",
            Class::MeasureName => "measure-name",
            Class::MultiUse => "multi-use",
        }
    }
}

/// Names the templates themselves use (all distinct from anything the battery generates).
const FIXED: &[&str] = &[
    "zr", "zs", "zt", "zl", "zw", "zf", "zq", "zv", "zp", "zk", "ZG", "ZC", "EXTERN", "X", "RX", "CNOT", "a",
];

const POSITIONS: &[(Class, &str)] = &[
    (Class::Memory, "DECLARE {} BIT[2]"),
    (Class::Memory, "DECLARE zr REAL[1] SHARING {}"),
    (Class::Memory, "DECLARE zr REAL[1] SHARING {} OFFSET 1 BIT"),
    (Class::Memory, "MOVE {} 1"),
    (Class::Memory, "MOVE {}[1] zr"),
    (Class::Memory, "MOVE zr {}"),
    (Class::Memory, "MOVE zr {}[1]"),
    (Class::Memory, "ADD {} zr[0]"),
    (Class::Memory, "SUB zr {}[2]"),
    (Class::Memory, "MUL {}[1] 2.5"),
    (Class::Memory, "EQ {} zr zs"),
    (Class::Memory, "GT zr {} zs"),
    (Class::Memory, "LE zr zs {}"),
    (Class::Memory, "AND {} zr"),
    (Class::Memory, "XOR zr {}[1]"),
    (Class::Memory, "NEG {}"),
    (Class::Memory, "NOT {}[3]"),
    (Class::Memory, "CONVERT {} zr"),
    (Class::Memory, "CONVERT zr {}"),
    (Class::Memory, "EXCHANGE {} zr"),
    (Class::Memory, "EXCHANGE zr {}[1]"),
    (Class::Memory, "LOAD {} zr zs"),
    (Class::Memory, "LOAD zr {} zs"),
    (Class::Memory, "LOAD zr zs {}"),
    (Class::Memory, "STORE {} zr zs"),
    (Class::Memory, "STORE zr {} 1"),
    (Class::Memory, "STORE zr zs {}"),
    (Class::Memory, "MEASURE 0 {}"),
    (Class::Memory, "MEASURE 0 {}[1]"),
    (Class::Memory, "JUMP-WHEN @zl {}"),
    (Class::Memory, "JUMP-UNLESS @zl {}[1]"),
    (Class::Memory, "CAPTURE 0 \"f\" zw {}"),
    (Class::Memory, "RAW-CAPTURE 0 \"f\" 1.0 {}[2]"),
    (Class::Memory, "CALL zf {}[1]"),
    (Class::ExprIndexed, "RX({}[1]) 0"),
    (Class::ExprIndexed, "RX(2*{}[0]+1) 0"),
    (Class::ExprIndexed, "SET-PHASE 0 \"f\" {}[1]"),
    (Class::ExprIndexed, "PULSE 0 \"f\" zw(a: {}[1])"),
    (Class::ExprIndexed, "DELAY 0 {}[1]"),
    (Class::ExprBare, "RX({}) 0"),
    (Class::ExprBare, "RX(2*{}) 0"),
    (Class::ExprBare, "RX(sin({})) 0"),
    (Class::ExprBare, "RX(-{}) 0"),
    (Class::ExprBare, "RX(1, {}/2) 0"),
    (Class::ExprBare, "SET-FREQUENCY 0 \"f\" {}"),
    (Class::ExprBare, "SHIFT-PHASE 0 \"f\" ({})"),
    (Class::ExprBare, "RAW-CAPTURE 0 \"f\" {} zr"),
    (Class::ExprBare, "DEFGATE ZG:\n    {}, 0\n    0, 1"),
    (Class::ExprBare, "DEFWAVEFORM zw:\n    {}, 1"),
    (Class::ExprBare, "DEFFRAME 0 \"f\":\n    zk: {}"),
    (Class::ExprBare, "PULSE 0 \"f\" zw(a: {})"),
    (Class::ExprBare, "DEFCAL RX({}) 0:\n    NOP"),
    (Class::Variable, "RX(%{}) 0"),
    (Class::Variable, "DEFGATE ZG(%{}):\n    %{}, 0\n    0, 1"),
    (Class::Variable, "DEFCIRCUIT ZC(%{}) zq:\n    RX(%{}) zq"),
    (Class::Variable, "DEFWAVEFORM zw(%{}):\n    %{}, 1"),
    (Class::Variable, "DEFCAL RX(%{}) 0:\n    RX(%{}) 0"),
    (Class::Label, "LABEL @{}"),
    (Class::Label, "JUMP @{}"),
    (Class::Label, "JUMP-WHEN @{} zr"),
    (Class::Label, "JUMP-UNLESS @{} zr[1]"),
    (Class::GateName, "{} 0"),
    (Class::GateName, "{}(1.0) 0 1"),
    (Class::GateName, "CONTROLLED {} 0 1"),
    (Class::GateName, "DEFGATE {}:\n    1, 0\n    0, 1"),
    (Class::GateName, "DEFGATE {} AS PERMUTATION:\n    0, 1"),
    (Class::GateName, "DEFCIRCUIT {} zq:\n    X zq"),
    (Class::GateName, "DEFCAL {} 0:\n    NOP"),
    (Class::GateName, "DEFCAL {}(%zv) zq:\n    NOP"),
    (Class::QubitVariable, "X {}"),
    (Class::QubitVariable, "X %{}"),
    (Class::QubitVariable, "CNOT 0 {}"),
    (Class::QubitVariable, "MEASURE {} zr"),
    (Class::QubitVariable, "RESET {}"),
    (Class::QubitVariable, "FENCE {} 1"),
    (Class::QubitVariable, "DELAY {} 1.0"),
    (Class::QubitVariable, "PULSE {} \"f\" zw"),
    (Class::QubitVariable, "SWAP-PHASES {} \"f\" 1 \"g\""),
    (Class::QubitVariable, "DEFCAL ZG {}:\n    X {}"),
    (Class::QubitVariable, "DEFCIRCUIT ZC {}:\n    X {}"),
    (Class::QubitVariable, "DEFCAL MEASURE {} zt:\n    NOP"),
    (Class::QubitVariable, "DEFFRAME {} \"f\":\n    zk: 1"),
    (Class::QubitVariable, "DEFGATE ZG {} AS PAULI-SUM:\n    Z(1.0) {}"),
    (Class::Waveform, "PULSE 0 \"f\" {}"),
    (Class::Waveform, "PULSE 0 \"f\" {}(zp: 1)"),
    (Class::Waveform, "NONBLOCKING CAPTURE 0 \"f\" {} zr"),
    (Class::Waveform, "DEFWAVEFORM {}:\n    1, 2"),
    (Class::WaveformParam, "PULSE 0 \"f\" zw({}: 1)"),
    (Class::WaveformParam, "CAPTURE 0 \"f\" zw(zp: 1, {}: 2) zr"),
    (Class::Pragma, "PRAGMA {}"),
    (Class::Pragma, "PRAGMA {} zq 1 \"data\""),
    (Class::Pragma, "PRAGMA zp {}"),
    (Class::Pragma, "PRAGMA zp 1 {}"),
    (Class::Pragma, "PRAGMA EXTERN {} \"INTEGER\""),
    (Class::Call, "CALL {} zr[0]"),
    (Class::Call, "CALL zf {}"),
    (Class::Call, "CALL zf zr[2] {} 1"),
    (Class::AttrKey, "DEFFRAME 0 \"f\":\n    {}: 1"),
    (Class::AttrKey, "DEFFRAME 0 \"f\":\n    zk: \"s\"\n    {}: 2.0"),
    (Class::MeasureName, "MEASURE!{} 0 zr"),
    (Class::MeasureName, "DEFCAL MEASURE!{} 0 zt:\n    NOP"),
    (Class::MeasureName, "DEFCAL MEASURE 0 {}:\n    NOP"),
    (Class::MultiUse, "DECLARE {} REAL[4]\nRX({}) 0\nRX({}[1]*2) 0\nMOVE {}[2] 1.0\nSET-PHASE 0 \"f\" 2*{}\nMEASURE 0 {}"),
    (Class::MultiUse, "DECLARE {} BIT[2]\nMEASURE 0 {}[1]\nJUMP-WHEN @zl {}[1]\nRX({}) 0\nLABEL @zl"),
    (Class::MultiUse, "DEFCAL RX(%{}) zq:\n    SHIFT-PHASE zq \"f\" %{}\n    PULSE zq \"f\" zw(a: %{}*2)"),
    (Class::MultiUse, "LABEL @{}\nX 0\nJUMP @{}\nJUMP-UNLESS @{} zr"),
];

const BATTERY: &[&str] = &[
    "ro", "Theta", "THETA", "theta", "aB", "A_b", "a-b", "A-B-c", "x1", "X1", "_a", "_A", "q0",
    "Q0_q1", "Declare", "declare", "Pragma", "PI2", "pi2", "I2", "i2", "Sin1", "sIN2", "Cos_",
    "eXp1", "sqrt_", "cis-1", "Measure", "Halt", "Matrix", "Bit", "Real", "Dagger", "mUt", "As",
    "M", "z_Z", "a1-B2", "Q", "T", "pi", "PI", "Pi", "i", "I", "sin", "SIN", "Sin", "cos", "COS",
    "exp", "Exp", "sqrt", "SQRT", "cis", "CIS", "Cis",
];

const RESERVED: &[&str] = &["pi", "i", "sin", "cos", "exp", "sqrt", "cis"];

fn is_reserved(n: &str) -> bool {
    RESERVED.iter().any(|r| r.eq_ignore_ascii_case(n))
}

fn random_name(rng: &mut Rng) -> String {
    const LEAD: &[u8] = b"abcdefghijklmnopqrstuvwxyzABCDEFGHIJKLMNOPQRSTUVWXYZ_";
    const REST: &[u8] = b"abcdefghijklmnopqrstuvwxyzABCDEFGHIJKLMNOPQRSTUVWXYZ_0123456789";
    let mut s = String::new();
    s.push(LEAD[rng.below(LEAD.len())] as char);
    for _ in 0..rng.below(6) {
        s.push(REST[rng.below(REST.len())] as char);
    }
    for _ in 0..rng.below(3) {
        s.push('-');
        for _ in 0..1 + rng.below(3) {
            s.push(REST[rng.below(REST.len())] as char);
        }
    }
    s
}

/// Names that the lexer turns into keywords are not identifiers; and avoid the templates' own names.
fn usable(n: &str) -> bool {
    const KEYWORDS: &[&str] = &[
        "AS", "MATRIX", "PERMUTATION", "PAULI-SUM", "SEQUENCE", "SHARING", "OFFSET", "NONBLOCKING",
        "mut", "DAGGER", "CONTROLLED", "FORKED", "BIT", "OCTET", "REAL", "INTEGER", "ADD", "AND",
        "ASHR", "CALL", "CAPTURE", "CONVERT", "DECLARE", "DEFCAL", "DEFCIRCUIT", "DEFFRAME",
        "DEFGATE", "DEFWAVEFORM", "DELAY", "DIV", "EQ", "EXCHANGE", "FENCE", "GE", "GT", "HALT",
        "INCLUDE", "IOR", "JUMP", "JUMP-UNLESS", "JUMP-WHEN", "LABEL", "LE", "LOAD", "LT",
        "MEASURE", "MOVE", "MUL", "NEG", "NOP", "NOT", "PRAGMA", "PULSE", "RAW-CAPTURE", "RESET",
        "SET-FREQUENCY", "SET-PHASE", "SET-SCALE", "SHIFT-FREQUENCY", "SHIFT-PHASE", "SHL", "SHR",
        "STORE", "SUB", "SWAP-PHASES", "WAIT", "XOR",
    ];
    !KEYWORDS.contains(&n) && !FIXED.contains(&n)
}

fn fixed_names_in(template: &str) -> Vec<String> {
    // identifier-like tokens of the template outside quotes that are in FIXED
    let mut out = Vec::new();
    let mut cur = String::new();
    let mut in_string = false;
    for c in template.chars().chain(std::iter::once(' ')) {
        if c == '"' {
            in_string = !in_string;
            cur.clear();
            continue;
        }
        if in_string {
            continue;
        }
        if c.is_ascii_alphanumeric() || c == '_' || c == '-' {
            cur.push(c);
        } else {
            if FIXED.contains(&cur.as_str()) {
                out.push(cur.clone());
            }
            cur.clear();
        }
    }
    out
}

fn check(ctx: &mut Ctx, class: Class, template: &str, name: &str) {
    let text = template.replace("{}", name);
    if !ctx.begin(&text) {
        return;
    }
    let parsed = match guarded(|| Program::from_str(&text)) {
        Err(p) => {
            // panics in the parser belong to C01
            ctx.inconclusive(&format!("parser-panicked:{}", p.signature()));
            return;
        }
        Ok(r) => r,
    };
    let program = match parsed {
        Err(_) => {
            ctx.count(&format!("rejected:{}", class.tag()));
            return;
        }
        Ok(p) => p,
    };
    ctx.count(&format!("accepted:{}", class.tag()));
    ctx.nontrivial(&(template, name));
    let mut found: Names = Vec::new();
    for i in program.to_instructions() {
        instruction_names(&i, &mut found);
    }
    let mut expected: BTreeMap<String, i64> = BTreeMap::new();
    for f in fixed_names_in(template) {
        *expected.entry(f).or_insert(0) += 1;
    }
    *expected.entry(name.to_string()).or_insert(0) += template.matches("{}").count() as i64;
    let mut observed: BTreeMap<String, i64> = BTreeMap::new();
    for (_, n) in &found {
        *observed.entry(n.clone()).or_insert(0) += 1;
    }
    if observed == expected {
        return;
    }
    // classify: which roles carry a name that is not an expected spelling
    let mut strange: Vec<(&str, String)> = found
        .iter()
        .filter(|(_, n)| !expected.contains_key(n))
        .map(|(r, n)| (*r, n.clone()))
        .collect();
    strange.sort();
    strange.dedup();
    let kind = if strange.iter().any(|(_, n)| n.eq_ignore_ascii_case(name)) {
        "case-changed"
    } else if strange.is_empty() {
        "occurrence-count-differs"
    } else {
        "rewritten"
    };
    let role = strange.first().map(|(r, _)| *r).unwrap_or("-");
    ctx.violation(
        &format!("name-not-preserved:{}:{role}:{kind}", class.tag()),
        json!({"name": name, "template": template, "expected_names": expected, "observed_names": observed, "unexpected": strange}),
    );
}

fn name_ok_for(class: Class, name: &str) -> bool {
    if !usable(name) {
        return false;
    }
    // the property excludes the reserved words from bare-expression positions; a multi-use
    // program contains bare-expression uses
    if matches!(class, Class::ExprBare | Class::MultiUse) && is_reserved(name) {
        return false;
    }
    true
}

fn run(ctx: &mut Ctx) {
    let mut idx = 0u64;
    for (class, template) in POSITIONS {
        for name in BATTERY {
            idx += 1;
            if !ctx.mine(idx) || !name_ok_for(*class, name) {
                continue;
            }
            check(ctx, *class, template, name);
        }
        // waveform names may carry one '/'
        if *class == Class::Waveform {
            for name in ["q0_q1/sqrtiSWAP", "A/b", "x-y/Z_1"] {
                idx += 1;
                if ctx.mine(idx) {
                    check(ctx, *class, template, name);
                }
            }
        }
        if ctx.done() {
            return;
        }
    }
    let mut rng = ctx.rng(1);
    let n = ctx.share(ctx.tier.pick(600_000, 8_000_000));
    for _ in 0..n {
        let (class, template) = POSITIONS[rng.below(POSITIONS.len())];
        let name = random_name(&mut rng);
        if !name_ok_for(class, &name) {
            continue;
        }
        check(ctx, class, template, &name);
        if ctx.done() {
            return;
        }
    }
    if ctx.shard == 0 {
        ctx.sample("battery", json!({"template": POSITIONS[40].1, "name": "Theta"}));
        ctx.sample("battery", json!({"template": POSITIONS[POSITIONS.len() - 4].1, "name": "A-B-c"}));
        let mut r = ctx.global_rng(2);
        ctx.sample("random", json!({"template": POSITIONS[r.below(POSITIONS.len())].1, "name": random_name(&mut r)}));
    }
}
