//! C27 — reported memory accesses match each instruction's semantics.
//!
//! Every generated instruction is handed to `DefaultHandler.memory_accesses(&externs, &instr)`
//! and the three reported sets are compared with the per-instruction table of
//! `model::analysis_access` (written from the statement).  CALLs are judged against generated
//! extern signatures: writes = return-slot region + regions passed to mutable parameters; every
//! region passed in a parameter slot is read; nothing else is read except, possibly, the return-slot
//! region (statement and code comment differ on that — left unconstrained); nothing is captured.
//! Definitions are only held to "no region reported that the definition does not mention".

use crate::core::{guarded, Ctx, Rng};
use crate::gen::analysis_ast::{kind, show_instruction};
use crate::gen::analysis_extern::{build_call, build_signature, extern_pragma, random_signature};
use crate::gen::analysis_instr::InstrGen;
use crate::model::analysis_access::{call_expectation, expectation, mentioned, Accesses, Expectation, Set};
use crate::model::analysis_extern::{Arg, ParamTy, Sig};
use crate::props::{PropInfo, DEFAULT};
use quil_rs::instruction::{DefaultHandler, ExternSignatureMap, Instruction, InstructionHandler};
use quil_rs::quil::Quil;
use quil_rs::Program;
use serde_json::json;

pub static INFO: PropInfo = PropInfo {
    id: "C27",
    run,
    rule: "cases: single instructions built through the public AST over regions {a, b, c} (indices 0..=2) with expressions nested to depth 3: every classical kind and operator (ADD..DIV, AND..ASHR, NEG/NOT, MOVE, EXCHANGE, CONVERT, EQ..LT, LOAD, STORE) with literal / reference operands, JUMP-WHEN/UNLESS, gates with parameters, MEASURE with/without target, PULSE/CAPTURE/RAW-CAPTURE with waveform parameters, DELAY, SET-*/SHIFT-*, the memory-free kinds (FENCE, HALT, WAIT, NOP, INCLUDE, JUMP, LABEL, PRAGMA, RESET, SWAP-PHASES, DECLARE, DEFFRAME), definitions (DEFCAL, DEFCAL MEASURE, DEFCIRCUIT, DEFGATE matrix, DEFWAVEFORM), and CALLs against 200 generated extern signatures (arity <= 3, scalar / fixed / variable vectors, mutable or not, with and without return) with slot-wise fitting arguments (plus a few ill-formed calls, observed but not judged). distinct = distinct instruction text (+ signature for CALL); non-trivial = the model expects at least one access.",
    assumptions: &[
        "CALL: membership of the return-slot region in `reads` is not constrained (statement vs code comment differ)",
        "definitions: `reported regions are mentioned by the definition`, and - when a definition reports any access - it must cover the accesses the handler reports for each instruction of its body",
        "PRAGMA arguments never name a region",
        "ill-formed CALLs (wrong arity, unknown extern, immediate in a non-scalar or mutable slot) may fail or report anything mentioned; only counted",
    ],
    exhaustive_quick: false,
    exhaustive_thorough: false,
    exhaustive_note: "sampled; every instruction kind and operand form is required to be covered (required_counters)",
    min_nontrivial: 1000,
    required_counters: &[
        "kind:Arithmetic", "kind:BinaryLogic", "kind:UnaryLogic", "kind:Move", "kind:Exchange",
        "kind:Convert", "kind:Comparison", "kind:Load", "kind:Store", "kind:JumpWhen",
        "kind:JumpUnless", "kind:Gate", "kind:Measurement", "kind:Pulse", "kind:Capture",
        "kind:RawCapture", "kind:Delay", "kind:SetFrequency", "kind:SetPhase", "kind:SetScale",
        "kind:ShiftFrequency", "kind:ShiftPhase", "kind:Fence", "kind:Pragma", "kind:Reset",
        "kind:SwapPhases", "kind:Declaration", "kind:FrameDefinition", "kind:CalibrationDefinition",
        "kind:MeasureCalibrationDefinition", "kind:CircuitDefinition", "kind:GateDefinition",
        "kind:WaveformDefinition", "call:wellformed", "call:with-return", "call:mutable-argument",
        "call:immediate-argument", "call:vector-argument", "expression-depth>=2",
    ],
    watchdog_s: 120,
    ..DEFAULT
};

const REGIONS: [&str; 3] = ["a", "b", "c"];

fn to_set(s: &std::collections::HashSet<String>) -> Set {
    s.iter().cloned().collect()
}

fn observe(externs: &ExternSignatureMap, i: &Instruction) -> Result<Accesses, String> {
    match DefaultHandler.memory_accesses(externs, i) {
        Ok(a) => Ok(Accesses {
            reads: to_set(&a.reads),
            writes: to_set(&a.writes),
            captures: to_set(&a.captures),
        }),
        Err(e) => Err(format!("{e}")),
    }
}

fn diff(ctx: &mut Ctx, what: &str, which: &str, expected: &Set, got: &Set, detail: &serde_json::Value) {
    if let Some(m) = expected.difference(got).next() {
        ctx.violation(
            &format!("access-mismatch:{what}:{which}:missing"),
            json!({"region": m, "expected": expected, "reported": got, "all": detail}),
        );
    } else if let Some(m) = got.difference(expected).next() {
        ctx.violation(
            &format!("access-mismatch:{what}:{which}:unexpected"),
            json!({"region": m, "expected": expected, "reported": got, "all": detail}),
        );
    }
}

fn judge_plain(ctx: &mut Ctx, externs: &ExternSignatureMap, i: &Instruction, text: &str) {
    let k = kind(i);
    ctx.count(&format!("kind:{k}"));
    let exp = expectation(i);
    match guarded(|| observe(externs, i)) {
        Err(p) => ctx.violation(&p.signature(), json!({"panic": p.to_json()})),
        Ok(Err(e)) => ctx.violation(&format!("error-instead-of-accesses:{k}"), json!({"error": e})),
        Ok(Ok(got)) => {
            let all = json!({"reads": got.reads, "writes": got.writes, "captures": got.captures});
            match exp {
                Expectation::Exactly(want) => {
                    if !(want.reads.is_empty() && want.writes.is_empty() && want.captures.is_empty()) {
                        ctx.nontrivial(text);
                        ctx.count("nontrivial:expects-access");
                    } else {
                        ctx.count("trivial:expects-no-access");
                    }
                    diff(ctx, k, "reads", &want.reads, &got.reads, &all);
                    diff(ctx, k, "writes", &want.writes, &got.writes, &all);
                    diff(ctx, k, "captures", &want.captures, &got.captures, &all);
                }
                Expectation::Within(allowed) => {
                    ctx.count("definition:weak-rule-only");
                    let reported: Set = got.reads.iter().chain(&got.writes).chain(&got.captures).cloned().collect();
                    if !reported.is_empty() {
                        ctx.nontrivial(text);
                    }
                    if let Some(r) = reported.difference(&allowed).next() {
                        ctx.violation(
                            &format!("phantom-region-reported:{k}"),
                            json!({"region": r, "mentioned": allowed, "all": all}),
                        );
                    }
                    // Compositional clause: a definition that reports accesses at all reports them
                    // for what its body does, so it must cover what the handler itself reports for
                    // each body instruction, kind by kind.  (A definition that reports nothing is not
                    // judged: "definitions access nothing" would be a consistent reading too.)
                    let body: Option<&Vec<Instruction>> = match i {
                        Instruction::CalibrationDefinition(c) => Some(&c.instructions),
                        Instruction::MeasureCalibrationDefinition(c) => Some(&c.instructions),
                        Instruction::CircuitDefinition(c) => Some(&c.instructions),
                        _ => None,
                    };
                    // Same reading for the definition's own expressions: a calibration definition
                    // that reports accesses at all reads what its identifier's parameter
                    // expressions reference, at any nesting depth ("including those referenced in
                    // its expressions").
                    if let (Instruction::CalibrationDefinition(c), false) = (i, reported.is_empty()) {
                        let mut refs = Set::new();
                        for e in &c.identifier.parameters {
                            crate::gen::analysis_ast::expr_regions(e, &mut refs);
                        }
                        if !refs.is_empty() {
                            ctx.count("definition:identifier-parameter-references-checked");
                        }
                        if let Some(r) = refs.difference(&got.reads).next() {
                            let compound = c.identifier.parameters.iter().any(|e| !matches!(e, quil_rs::expression::Expression::Address(_)));
                            ctx.violation(
                                &format!("definition-misses-a-reference-of-its-identifier-parameters:{k}:{}", if compound { "compound-expression" } else { "bare-reference" }),
                                json!({"region": r, "referenced_by_parameters": refs, "definition_reports": all}),
                            );
                        }
                    }
                    if let (Some(body), false) = (body, reported.is_empty()) {
                        ctx.count("definition:compositional-clause-checked");
                        for b in body {
                            if let Ok(Ok(inner)) = guarded(|| observe(externs, b)) {
                                for (which, sub, sup) in [
                                    ("reads", &inner.reads, &got.reads),
                                    ("writes", &inner.writes, &got.writes),
                                    ("captures", &inner.captures, &got.captures),
                                ] {
                                    if let Some(r) = sub.difference(sup).next() {
                                        ctx.violation(
                                            &format!("definition-misses-an-access-of-its-body:{k}:{which}"),
                                            json!({"region": r, "body_instruction": format!("{b:?}"), "definition_reports": all}),
                                        );
                                    }
                                }
                            }
                        }
                    }
                }
                Expectation::Call => {}
            }
        }
    }
}

/// A slot-wise fitting argument list for `sig` over untyped regions {a, b, c} (the handler does not
/// see declarations, so only the *form* of each argument matters here).
fn fitting_args(rng: &mut Rng, sig: &Sig) -> Vec<Arg> {
    let region = |rng: &mut Rng| rng.pick(&REGIONS).to_string();
    let mut args = Vec::new();
    if sig.ret.is_some() {
        args.push(if rng.chance(1, 2) {
            Arg::Ident(region(rng))
        } else {
            Arg::Ref(region(rng), rng.below(3) as u64)
        });
    }
    for p in &sig.params {
        args.push(match p.ty {
            ParamTy::Scalar(_) => match rng.below(if p.mutable { 2 } else { 3 }) {
                0 => Arg::Ident(region(rng)),
                1 => Arg::Ref(region(rng), rng.below(3) as u64),
                _ => {
                    if rng.chance(1, 3) {
                        Arg::Imm(0.5, -1.0)
                    } else {
                        Arg::Imm(rng.range(-4, 4) as f64, 0.0)
                    }
                }
            },
            ParamTy::Fixed(..) | ParamTy::Variable(_) => Arg::Ident(region(rng)),
        });
    }
    args
}

struct ExternSet {
    sigs: Vec<Sig>,
    map: ExternSignatureMap,
}

/// Extern map holding signatures f0..f{n-1}; built through the public route
/// (PRAGMA EXTERN instructions in a Program).  `None` if quil-rs rejects a generated signature.
fn extern_set(sigs: Vec<Sig>) -> Option<ExternSet> {
    let built = guarded(|| {
        let mut instructions = Vec::new();
        for (i, s) in sigs.iter().enumerate() {
            let text = build_signature(s).ok()?.to_quil().ok()?;
            instructions.push(extern_pragma(&format!("f{i}"), &text));
        }
        Program::from_instructions(instructions)
            .try_extern_signature_map_from_pragma_map()
            .ok()
    });
    match built {
        Ok(Some(map)) => Some(ExternSet { sigs, map }),
        _ => None,
    }
}

fn judge_call(ctx: &mut Ctx, rng: &mut Rng, set: &ExternSet) {
    let which = rng.below(set.sigs.len());
    let sig = &set.sigs[which];
    let mut args = fitting_args(rng, sig);
    let mut name = format!("f{which}");
    // a few ill-formed calls: observed, not judged
    let ill = match rng.below(20) {
        0 => {
            args.pop();
            Some("missing-argument")
        }
        1 => {
            args.push(Arg::Ident("a".into()));
            Some("extra-argument")
        }
        2 => {
            name = "undeclared_extern".into();
            Some("unknown-extern")
        }
        3 if !args.is_empty() => {
            args[0] = Arg::Imm(1.0, 0.0);
            if sig.ret.is_some() || sig.params[0].mutable || !matches!(sig.params[0].ty, ParamTy::Scalar(_)) {
                Some("immediate-in-nonimmediate-slot")
            } else {
                None
            }
        }
        _ => None,
    };
    let call = Instruction::Call(build_call(&name, &args));
    let text = format!("{}   against PRAGMA EXTERN {name} \"{}\"", show_instruction(&call), sig.show());
    if !ctx.begin(&text) {
        return;
    }
    ctx.count("kind:Call");
    let observed = guarded(|| observe(&set.map, &call));
    if let Some(why) = ill {
        ctx.count(&format!("call:illformed:{why}"));
        match observed {
            Err(p) => ctx.violation(&p.signature(), json!({"panic": p.to_json()})),
            Ok(Err(_)) => ctx.count("call:illformed:outcome-error"),
            Ok(Ok(got)) => {
                ctx.count("call:illformed:outcome-accesses");
                let allowed = mentioned(&call);
                let reported: Set = got.reads.iter().chain(&got.writes).chain(&got.captures).cloned().collect();
                if let Some(r) = reported.difference(&allowed).next() {
                    ctx.violation("phantom-region-reported:Call", json!({"region": r, "mentioned": allowed}));
                }
            }
        }
        return;
    }
    ctx.count("call:wellformed");
    if sig.ret.is_some() {
        ctx.count("call:with-return");
    }
    for (a, p) in args.iter().skip(usize::from(sig.ret.is_some())).zip(&sig.params) {
        if p.mutable && a.region().is_some() {
            ctx.count("call:mutable-argument");
        }
        if matches!(a, Arg::Imm(..)) {
            ctx.count("call:immediate-argument");
        }
        if !matches!(p.ty, ParamTy::Scalar(_)) {
            ctx.count("call:vector-argument");
        }
    }
    let want = call_expectation(sig, &args);
    if !want.writes.is_empty() || !want.reads_at_least.is_empty() {
        ctx.nontrivial(&text);
        ctx.count("nontrivial:expects-access");
    }
    match observed {
        Err(p) => ctx.violation(&p.signature(), json!({"panic": p.to_json()})),
        Ok(Err(e)) => ctx.violation("error-instead-of-accesses:Call:slot-wise-fitting-call", json!({"error": e})),
        Ok(Ok(got)) => {
            let all = json!({"reads": got.reads, "writes": got.writes, "captures": got.captures});
            diff(ctx, "Call", "writes", &want.writes, &got.writes, &all);
            if let Some(m) = want.reads_at_least.difference(&got.reads).next() {
                ctx.violation(
                    "access-mismatch:Call:reads:missing",
                    json!({"region": m, "passed_regions": want.reads_at_least, "all": all}),
                );
            } else if let Some(m) = got.reads.difference(&want.reads_at_most).next() {
                ctx.violation(
                    "access-mismatch:Call:reads:unexpected",
                    json!({"region": m, "allowed": want.reads_at_most, "all": all}),
                );
            }
            diff(ctx, "Call", "captures", &Set::new(), &got.captures, &all);
            let ret_region_read = sig.ret.is_some()
                && args.first().and_then(|a| a.region()).is_some_and(|r| got.reads.contains(r));
            if sig.ret.is_some() {
                ctx.count(if ret_region_read { "call:return-region-reported-read" } else { "call:return-region-not-reported-read" });
            }
        }
    }
}

fn run(ctx: &mut Ctx) {
    let gen = InstrGen {
        regions: &REGIONS,
        max_index: 2,
        expr_depth: 3,
        exotic_leaves: true,
    };
    // 200 signatures shared by all shards, grouped 4 per extern map
    let mut grng = ctx.global_rng(7);
    let mut sets: Vec<ExternSet> = Vec::new();
    let mut rejected = 0u64;
    for _ in 0..50 {
        let sigs: Vec<Sig> = (0..4).map(|_| random_signature(&mut grng, 3, &[1, 2, 3])).collect();
        match extern_set(sigs) {
            Some(s) => sets.push(s),
            None => rejected += 1,
        }
    }
    ctx.count_n("extern-signatures-built", sets.len() as u64 * 4);
    if rejected > 0 {
        ctx.count_n("extern-signature-sets-rejected-by-quil-rs", rejected);
    }
    let empty = ExternSignatureMap::default();

    let mut rng = ctx.rng(1);
    let budget = ctx.share(ctx.tier.pick(1_200_000, 24_000_000));
    for n in 0..budget {
        let class = rng.below(20);
        if class >= 16 && !sets.is_empty() {
            let set = &sets[rng.below(sets.len())];
            judge_call(ctx, &mut rng, set);
        } else {
            let i = match class {
                0..=5 => gen.classical(&mut rng),
                6..=10 => gen.quantum(&mut rng),
                11 => gen.conditional_jump(&mut rng),
                12..=13 => gen.inert(&mut rng),
                _ => gen.definition(&mut rng),
            };
            let text = show_instruction(&i);
            if !ctx.begin(&text) {
                continue;
            }
            if text.matches('(').count() >= 2 {
                ctx.count("expression-depth>=2");
            }
            judge_plain(ctx, &empty, &i, &text);
            if ctx.shard == 0 && n % 97 == 0 {
                ctx.sample(kind(&i), json!(text));
            }
        }
        if ctx.done() {
            return;
        }
    }
    if ctx.shard == 0 {
        if let Some(s) = sets.first() {
            ctx.sample("extern-signature", json!(s.sigs.iter().map(|s| s.show()).collect::<Vec<_>>()));
        }
    }
}
