//! `sched` group — shared observation layer and workload drivers for C22–C25 and C35.
//!
//! `observe_program` runs the real scheduler (`ScheduledProgram::from_program`) and copies what it
//! produced into plain data (`BlockObs`): the dependency graph as positions + edge labels, and for
//! every instruction the implementation's own public answers `memory_accesses`,
//! `matching_frames`, `is_scheduled`, `role`.  The graph properties C22–C25 are judged on that
//! data only; the correctness of `matching_frames` / `memory_accesses` themselves belongs to C26 /
//! C27 (DESIGN §3.2), so the oracles here are never stricter than their own statements.

use crate::core::{guarded, Ctx, PanicInfo};
use crate::gen::sched_prog::{Case, Pool};
use quil_rs::instruction::{
    DefaultHandler, ExternSignatureMap, FrameIdentifier, Instruction, InstructionHandler,
    InstructionRole, Qubit,
};
use quil_rs::program::scheduling::{
    ExecutionDependency, MemoryAccessType, ScheduledBasicBlock, ScheduledGraphNode, ScheduledProgram,
};
use quil_rs::quil::Quil;
use quil_rs::Program;
use serde_json::{json, Value};
use std::collections::BTreeSet;

/// Canonical rendering of a frame identifier: `0 1|a`.
pub fn frame_key(f: &FrameIdentifier) -> String {
    let q: Vec<String> = f
        .qubits
        .iter()
        .map(|q| match q {
            Qubit::Fixed(n) => n.to_string(),
            Qubit::Variable(v) => format!("var:{v}"),
            Qubit::Placeholder(_) => "placeholder".to_string(),
        })
        .collect();
    format!("{}|{}", q.join(" "), f.name)
}

#[derive(Clone, Debug, Default)]
pub struct NodeObs {
    pub text: String,
    pub reads: BTreeSet<String>,
    pub writes: BTreeSet<String>,
    pub captures: BTreeSet<String>,
    pub rf: bool,
    pub classical: bool,
    pub timed: bool,
    /// `matching_frames` returned `Some`
    pub matched: bool,
    pub used: BTreeSet<String>,
    pub blocked: BTreeSet<String>,
}

impl NodeObs {
    pub fn regions(&self) -> BTreeSet<String> {
        let mut s = self.reads.clone();
        s.extend(self.writes.iter().cloned());
        s.extend(self.captures.iter().cloned());
        s
    }
    /// writes or captures `region`
    pub fn mutates(&self, region: &str) -> bool {
        self.writes.contains(region) || self.captures.contains(region)
    }
    pub fn touches_frames(&self) -> bool {
        !(self.used.is_empty() && self.blocked.is_empty())
    }
}

#[derive(Clone, Debug, Default)]
pub struct EdgeObs {
    pub from: usize,
    pub to: usize,
    pub mem_read: bool,
    pub mem_write: bool,
    pub mem_capture: bool,
    pub scheduled: bool,
    pub stable: bool,
}

impl EdgeObs {
    pub fn any_mem(&self) -> bool {
        self.mem_read || self.mem_write || self.mem_capture
    }
    pub fn labels(&self) -> Vec<&'static str> {
        let mut v = Vec::new();
        if self.mem_read {
            v.push("await-read");
        }
        if self.mem_write {
            v.push("await-write");
        }
        if self.mem_capture {
            v.push("await-capture");
        }
        if self.scheduled {
            v.push("scheduled");
        }
        if self.stable {
            v.push("stable-ordering");
        }
        v
    }
}

/// One scheduled block.  Positions: 0 = block start, 1..=n = instructions, n+1 = block end.
#[derive(Clone, Debug, Default)]
pub struct BlockObs {
    pub n: usize,
    pub instrs: Vec<NodeObs>,
    /// the terminator instruction, if the block has one (it is the block-end node)
    pub terminator: Option<NodeObs>,
    pub nodes_present: BTreeSet<usize>,
    /// nodes that are not start / an instruction of the block / end
    pub foreign_nodes: Vec<String>,
    pub edges: Vec<EdgeObs>,
}

impl BlockObs {
    pub fn end(&self) -> usize {
        self.n + 1
    }
    /// The accesses / frames of the node at `pos` (instructions and the terminator).
    pub fn node(&self, pos: usize) -> Option<&NodeObs> {
        if pos >= 1 && pos <= self.n {
            Some(&self.instrs[pos - 1])
        } else if pos == self.n + 1 {
            self.terminator.as_ref()
        } else {
            None
        }
    }
    pub fn pos_name(&self, pos: usize) -> String {
        if pos == 0 {
            "start".into()
        } else if pos == self.n + 1 {
            "end".into()
        } else {
            format!("i{}", pos - 1)
        }
    }
    pub fn to_json(&self) -> Value {
        json!({
            "instructions": self.instrs.iter().map(|i| i.text.clone()).collect::<Vec<_>>(),
            "terminator": self.terminator.as_ref().map(|t| t.text.clone()),
            "edges": self.edges.iter().map(|e| format!("{}->{} {:?}", self.pos_name(e.from), self.pos_name(e.to), e.labels())).collect::<Vec<_>>(),
        })
    }
    /// uses(i) ∩ (uses(j) ∪ blocks(j)) ≠ ∅ or symmetric — on the implementation's own matching.
    pub fn frame_conflict(&self, i: usize, j: usize) -> bool {
        let (a, b) = (&self.instrs[i], &self.instrs[j]);
        a.used.iter().any(|f| b.used.contains(f) || b.blocked.contains(f))
            || b.used.iter().any(|f| a.blocked.contains(f))
    }
}

fn node_obs(
    program: &Program,
    sigs: &ExternSignatureMap,
    instruction: &Instruction,
) -> Result<NodeObs, String> {
    let h = DefaultHandler;
    let acc = h
        .memory_accesses(sigs, instruction)
        .map_err(|e| format!("memory_accesses: {e}"))?;
    let role = h.role(instruction);
    let frames = h.matching_frames(program, instruction);
    let (matched, used, blocked) = match frames {
        Some(m) => (
            true,
            m.used.iter().map(|f| frame_key(f)).collect(),
            m.blocked.iter().map(|f| frame_key(f)).collect(),
        ),
        None => (false, BTreeSet::new(), BTreeSet::new()),
    };
    Ok(NodeObs {
        text: instruction.to_quil_or_debug(),
        reads: acc.reads.into_iter().collect(),
        writes: acc.writes.into_iter().collect(),
        captures: acc.captures.into_iter().collect(),
        rf: role == InstructionRole::RFControl,
        classical: role == InstructionRole::ClassicalCompute,
        timed: h.is_scheduled(instruction),
        matched,
        used,
        blocked,
    })
}

/// Copy one scheduled block into plain data (call inside `guarded`).
pub fn observe_block(
    program: &Program,
    sigs: &ExternSignatureMap,
    block: &ScheduledBasicBlock<'_>,
) -> Result<BlockObs, String> {
    let n = block.instructions().len();
    let mut obs = BlockObs {
        n,
        ..BlockObs::default()
    };
    for instruction in block.instructions() {
        obs.instrs.push(node_obs(program, sigs, instruction)?);
    }
    if let Some(t) = block.terminator().clone().into_instruction() {
        obs.terminator = Some(node_obs(program, sigs, &t)?);
    }
    let pos = |node: ScheduledGraphNode| -> Option<usize> {
        match node {
            ScheduledGraphNode::BlockStart => Some(0),
            ScheduledGraphNode::InstructionIndex(k) if k < n => Some(k + 1),
            ScheduledGraphNode::InstructionIndex(_) => None,
            ScheduledGraphNode::BlockEnd => Some(n + 1),
        }
    };
    let graph = block.get_dependency_graph();
    for node in graph.nodes() {
        match pos(node) {
            Some(p) => {
                obs.nodes_present.insert(p);
            }
            None => obs.foreign_nodes.push(format!("{node:?}")),
        }
    }
    for (u, v, labels) in graph.all_edges() {
        let (Some(from), Some(to)) = (pos(u), pos(v)) else {
            obs.foreign_nodes.push(format!("edge {u:?}->{v:?}"));
            continue;
        };
        let mut e = EdgeObs {
            from,
            to,
            ..EdgeObs::default()
        };
        for l in labels {
            match l {
                ExecutionDependency::AwaitMemoryAccess(MemoryAccessType::Read) => e.mem_read = true,
                ExecutionDependency::AwaitMemoryAccess(MemoryAccessType::Write) => e.mem_write = true,
                ExecutionDependency::AwaitMemoryAccess(MemoryAccessType::Capture) => {
                    e.mem_capture = true
                }
                ExecutionDependency::Scheduled => e.scheduled = true,
                ExecutionDependency::StableOrdering => e.stable = true,
            }
        }
        obs.edges.push(e);
    }
    obs.edges.sort_by_key(|e| (e.from, e.to));
    Ok(obs)
}

/// Outcome of scheduling a whole program.
pub enum ProgramObs {
    /// `ScheduledProgram::from_program` returned `Err(variant)`
    ScheduleError(String),
    /// observation itself failed (e.g. `memory_accesses` errs on an instruction of a scheduled block)
    ObserveError(String),
    Blocks(Vec<BlockObs>),
}

pub fn observe_program(program: &Program) -> ProgramObs {
    let scheduled = match ScheduledProgram::from_program(program, &DefaultHandler) {
        Ok(s) => s,
        Err(e) => return ProgramObs::ScheduleError(format!("{:?}", e.variant)),
    };
    let sigs = match ExternSignatureMap::try_from(program.extern_pragma_map.clone()) {
        Ok(s) => s,
        Err(_) => return ProgramObs::ObserveError("extern-signature-map".into()),
    };
    let mut blocks = Vec::new();
    for block in scheduled.basic_blocks() {
        match observe_block(program, &sigs, block) {
            Ok(b) => blocks.push(b),
            Err(e) => return ProgramObs::ObserveError(e),
        }
    }
    ProgramObs::Blocks(blocks)
}

/// A computed schedule as plain data: (instruction index, start, duration) sorted by index.
#[derive(Clone, Debug, PartialEq)]
pub struct SchedObs {
    pub items: Vec<(usize, f64, f64)>,
    pub duration: f64,
}

impl SchedObs {
    pub fn to_json(&self) -> Value {
        json!({"items": self.items.iter().map(|(i, s, d)| json!([i, s, d])).collect::<Vec<_>>(), "duration": self.duration})
    }
}

pub fn sched_obs(s: &quil_rs::program::scheduling::ScheduleSeconds) -> SchedObs {
    let mut items: Vec<(usize, f64, f64)> = s
        .items()
        .iter()
        .map(|it| (it.instruction_index, it.time_span.start_time.0, it.time_span.duration.0))
        .collect();
    items.sort_by(|a, b| a.0.cmp(&b.0).then(a.1.total_cmp(&b.1)));
    SchedObs {
        items,
        duration: s.duration().0,
    }
}

/// Record a panic of the code under test in a property that does not itself promise "no panic":
/// the case decides nothing (the premise "schedules successfully" / "can be computed" is false),
/// so it is inconclusive — but loudly counted.
pub fn panic_inconclusive(ctx: &mut Ctx, p: &PanicInfo) {
    ctx.count("outcome:panic-in-code-under-test");
    ctx.inconclusive(&format!("code under test panicked: {}", p.signature()));
}

/// Execute one generated program: announce, build, schedule, observe; hand every scheduled block
/// to `judge`.  Returns false when the case was skipped.
pub fn run_graph_case(
    ctx: &mut Ctx,
    pool: &Pool,
    case: &Case,
    workload: &str,
    judge: &mut dyn FnMut(&mut Ctx, &BlockObs, &str),
) -> bool {
    let text = case.text(pool);
    if !ctx.begin(&text) {
        return false;
    }
    ctx.count(workload);
    match guarded(|| {
        let program = case.build(pool);
        observe_program(&program)
    }) {
        Err(p) => panic_inconclusive(ctx, &p),
        Ok(ProgramObs::ScheduleError(variant)) => {
            ctx.count(&format!("outcome:schedule-error:{variant}"));
        }
        Ok(ProgramObs::ObserveError(e)) => {
            ctx.count("outcome:observe-error");
            ctx.inconclusive(&format!("could not observe a scheduled block: {e}"));
        }
        Ok(ProgramObs::Blocks(blocks)) => {
            ctx.count("outcome:scheduled");
            ctx.count_n("blocks-observed", blocks.len() as u64);
            ctx.max("blocks-per-program", blocks.len() as u64);
            if blocks.len() > 1 {
                ctx.count("block:multi-block-program");
            }
            for (k, b) in blocks.iter().enumerate() {
                ctx.max("instructions-per-block", b.n as u64);
                ctx.max("edges-per-block", b.edges.len() as u64);
                let key = format!("{text}#block{k}");
                judge(ctx, b, &key);
            }
        }
    }
    true
}
