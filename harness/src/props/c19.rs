//! C19 — the calibration source map exactly accounts for every expansion.
//!
//! Invariant checker over (source program, expanded program, source map) as returned by
//! `Program::expand_calibrations_with_source_map`:
//!   * top level (needs no model): sources strictly increasing (so at most one entry per source
//!     instruction); `Unmodified(t)`: `expanded[t] == source[s]`; `Rewritten` ranges non-empty;
//!     targets in increasing order, pairwise disjoint, covering `0..len(expanded body)` exactly; a
//!     source instruction without entry is one whose expansion (asked from `Calibrations::expand`)
//!     consists of hoisted declarations only; `list_sources` / `list_targets` are inverse;
//!   * nested records: compared, entry by entry, with the map derived from the model's expansion
//!     tree (indices relative to the parent range; nothing for hoisted declarations; which
//!     calibration was used) — only for programs whose expanded body and every single substitution
//!     step agree with the model, so a
//!     substitution defect (C17) cannot masquerade as a source-map defect; the same generic
//!     invariants and the inverse-query check are applied at every nesting level;
//!   * the map of a single instruction (`Calibrations::expand_with_detail`, nothing hoisted yet) is
//!     compared with the model's un-hoisted map as well.
//!
//! Known finding (pinned by the unit test `program::tests::expand_calibrations`): when a
//! declaration emitted by an expansion is hoisted, the nested `Unmodified` records of that same
//! expansion are neither removed nor shifted.  It gets the single signature
//! `nested-unmodified-stale-after-hoist`, and only when the deviation is of exactly that kind (an
//! `Unmodified` record with a stale index, or a left-over `Unmodified` record of the hoisted
//! declaration) inside a top-level expansion out of which a declaration was hoisted.

use crate::core::{clip, guarded, Ctx};
use crate::gen::calib_gen::{CalibGen, Cfg};
use crate::model::calib_model::*;
use crate::props::c17::{one_level_silent, prepare, Prepared, DIRECTED};
use crate::props::{PropInfo, DEFAULT};
use quil_rs::instruction::Instruction;
use quil_rs::program::{CalibrationExpansion, CalibrationSource, ExpansionResult, InstructionIndex, SourceMap};
use serde_json::json;
use std::collections::BTreeSet;

type Map = SourceMap<InstructionIndex, ExpansionResult<CalibrationExpansion>>;

pub static INFO: PropInfo = PropInfo {
    id: "C19",
    run,
    rule: "programs from the C17 generator (no recursion), 85 % of them restricted to calibration bodies on which one expansion step is a faithful substitution on the current tree (so that the expanded body agrees with the model and nested records can be judged), with DECLARE in 8 % / 25 % / 45 % of the body slots (first, middle, last position; nesting depth >= 2), plus directed programs. distinct non-trivial = distinct program text whose source map has at least one Rewritten entry.",
    assumptions: &[
        "nested records are judged only when the expanded body equals the model's (otherwise counted as skipped)",
        "a declaration 'hoisted out of the same expansion' = the expansion of the same top-level source instruction emits a DECLARE",
    ],
    min_nontrivial: 500,
    required_counters: &[
        "entries:Rewritten",
        "entries:Unmodified",
        "nested:levels-compared-with-model",
        "nesting-depth:2",
        "programs-with-hoisted-declaration",
        "sources-without-entry",
        "inverse-queries:pairs-checked",
        "single-instruction-map:compared",
    ],
    ..DEFAULT
};

fn calibration_identity(prep: &Prepared, cal: CalRef, used: &CalibrationSource) -> bool {
    match (cal, used) {
        (CalRef::Gate(k), CalibrationSource::Calibration(id)) => {
            prep.program.calibrations.iter_calibrations().nth(k).is_some_and(|c| &c.identifier == id)
        }
        (CalRef::Meas(k), CalibrationSource::MeasureCalibration(id)) => {
            prep.program.calibrations.iter_measure_calibrations().nth(k).is_some_and(|c| &c.identifier == id)
        }
        _ => false,
    }
}

/// Generic invariants of one level of a map whose targets must tile `0..len`.
/// Returns names of the violated invariants.
fn level_invariants(map: &Map, n_sources: usize, len: usize) -> Vec<String> {
    let mut bad = Vec::new();
    let mut prev_source: Option<usize> = None;
    let mut next_target = 0usize;
    for e in map.entries() {
        let s = e.source_location().0;
        if prev_source.is_some_and(|p| s <= p) {
            bad.push("sources-not-strictly-increasing".to_string());
        }
        if s >= n_sources {
            bad.push("source-index-out-of-range".to_string());
        }
        prev_source = Some(s);
        let (start, end) = match e.target_location() {
            ExpansionResult::Unmodified(t) => (t.0, t.0 + 1),
            ExpansionResult::Rewritten(x) => (x.range().start.0, x.range().end.0),
        };
        if start >= end {
            bad.push("empty-range".to_string());
        }
        if end > len {
            bad.push("target-outside-parent-range".to_string());
        }
        if start < next_target {
            bad.push("targets-overlap-or-not-increasing".to_string());
        } else if start > next_target {
            bad.push("targets-leave-a-gap".to_string());
        }
        next_target = next_target.max(end);
    }
    if next_target < len {
        bad.push("targets-do-not-cover-the-range".to_string());
    }
    bad.sort();
    bad.dedup();
    bad
}

/// `list_sources(t) ∋ s  <=>  some target returned by list_targets(s) contains t`.
fn inverse_queries(ctx: &mut Ctx, map: &Map, n_sources: usize, len: usize) -> bool {
    let mut ok = true;
    for s in 0..n_sources {
        let targets = map.list_targets(&InstructionIndex(s));
        for t in 0..len {
            let t_idx = InstructionIndex(t);
            let fwd = targets.iter().any(|loc| match loc {
                ExpansionResult::Unmodified(i) => *i == t_idx,
                ExpansionResult::Rewritten(x) => x.range().contains(&t_idx),
            });
            let back = map.list_sources(&t_idx).iter().any(|src| src.0 == s);
            ctx.count("inverse-queries:pairs-checked");
            if fwd != back {
                ok = false;
            }
        }
    }
    ok
}

fn missing_class(m: &MEntry) -> &'static str {
    match m.target {
        MTarget::Unmodified(_) => "unmodified-entry-missing",
        MTarget::Rewritten { .. } => "rewritten-entry-missing",
    }
}

/// Deviation classes between a real nested level and the model's.
///   U (records of unexpanded instructions): `unmodified-index-differs`,
///     `unmodified-entry-left-for-hoisted-instruction`;
///   R (records of nested expansions): `rewritten-range-differs`,
///     `rewritten-entry-left-for-empty-expansion`, `rewritten-entry-missing`;
///   other: `unmodified-entry-missing`, `entry-kind-differs`, `calibration-used-differs`.
fn compare_level(prep: &Prepared, real: &Map, model: &[MEntry], out: &mut BTreeSet<&'static str>, depth: usize, max_depth: &mut usize) {
    *max_depth = (*max_depth).max(depth);
    let mut mi = 0usize;
    for e in real.entries() {
        let s = e.source_location().0;
        // model entries for smaller sources that the real map lacks
        while mi < model.len() && model[mi].source < s {
            out.insert(missing_class(&model[mi]));
            mi += 1;
        }
        let m = if mi < model.len() && model[mi].source == s {
            mi += 1;
            Some(&model[mi - 1])
        } else {
            None
        };
        match (e.target_location(), m.map(|m| &m.target)) {
            (ExpansionResult::Unmodified(_), None) => {
                out.insert("unmodified-entry-left-for-hoisted-instruction");
            }
            (ExpansionResult::Rewritten(_), None) => {
                out.insert("rewritten-entry-left-for-empty-expansion");
            }
            (ExpansionResult::Unmodified(t), Some(MTarget::Unmodified(mt))) => {
                if t.0 != *mt {
                    out.insert("unmodified-index-differs");
                }
            }
            (ExpansionResult::Rewritten(x), Some(MTarget::Rewritten { cal, start, end, nested })) => {
                if x.range().start.0 != *start || x.range().end.0 != *end {
                    out.insert("rewritten-range-differs");
                }
                if !calibration_identity(prep, *cal, x.calibration_used()) {
                    out.insert("calibration-used-differs");
                }
                compare_level(prep, x.expansions(), nested, out, depth + 1, max_depth);
            }
            _ => {
                out.insert("entry-kind-differs");
            }
        }
    }
    while mi < model.len() {
        out.insert(missing_class(&model[mi]));
        mi += 1;
    }
}

/// Generic invariants + inverse queries at every nested level (only meaningful where the nested
/// level agrees with the model; used as an independent second opinion there).
fn nested_generic(ctx: &mut Ctx, x: &CalibrationExpansion, n_sources_of: &dyn Fn(&CalibrationSource) -> Option<usize>, bad: &mut BTreeSet<String>) {
    let len = x.range().end.0.saturating_sub(x.range().start.0);
    let n_sources = n_sources_of(x.calibration_used()).unwrap_or(usize::MAX);
    for b in level_invariants(x.expansions(), n_sources, len) {
        bad.insert(b);
    }
    if n_sources != usize::MAX && !inverse_queries(ctx, x.expansions(), n_sources, len) {
        bad.insert("list_sources-list_targets-not-inverse".to_string());
    }
    for e in x.expansions().entries() {
        if let ExpansionResult::Rewritten(sub) = e.target_location() {
            nested_generic(ctx, sub, n_sources_of, bad);
        }
    }
}

fn check_program(ctx: &mut Ctx, text: &str, workload: &str) {
    if !ctx.begin(text) {
        return;
    }
    ctx.count(workload);
    let Some(prep) = prepare(ctx, text) else { return };
    let model = match expand_program(&prep.model) {
        Ok(m) => m,
        Err((Stop::Recursive(_), ..)) => {
            ctx.count("model:recursive (left to C18)");
            return;
        }
        Err(_) => {
            ctx.inconclusive("model out of fuel or undecided");
            return;
        }
    };
    let (expanded, map) = match guarded(|| prep.program.expand_calibrations_with_source_map()) {
        Err(p) => {
            ctx.violation(&p.signature(), json!({"stage": "expand_calibrations_with_source_map", "panic": p.to_json()}));
            return;
        }
        Ok(Err(e)) => {
            ctx.violation(&format!("unexpected-error:{}", error_kind(&e)), json!({"error": e.to_string()}));
            return;
        }
        Ok(Ok(x)) => x,
    };
    let source: Vec<&Instruction> = prep.program.body_instructions().collect();
    let target: Vec<&Instruction> = expanded.body_instructions().collect();
    let map_text = || clip(&format!("{map:?}"), 3000);

    // ------------------------------------------------------------------ top level
    let mut has_rewritten = false;
    let mut with_entry = vec![false; source.len()];
    for e in map.entries() {
        let s = e.source_location().0;
        if s < source.len() {
            with_entry[s] = true;
        }
        match e.target_location() {
            ExpansionResult::Unmodified(t) => {
                ctx.count("entries:Unmodified");
                if s < source.len() && target.get(t.0).map_or(true, |i| *i != source[s]) {
                    ctx.violation("top:unmodified-entry-does-not-point-to-an-identical-instruction", json!({"source": s, "target": t.0, "map": map_text()}));
                }
            }
            ExpansionResult::Rewritten(_) => {
                ctx.count("entries:Rewritten");
                has_rewritten = true;
            }
        }
    }
    if has_rewritten {
        ctx.nontrivial_input();
    }
    for b in level_invariants(&map, source.len(), target.len()) {
        ctx.violation(&format!("top:{b}"), json!({"sources": source.len(), "expanded body length": target.len(), "map": map_text()}));
    }
    if !inverse_queries(ctx, &map, source.len(), target.len()) {
        ctx.violation("top:list_sources-list_targets-not-inverse", json!({"map": map_text()}));
    }
    // a source without entry contributes nothing to the body; a source with an entry does
    for (s, has) in with_entry.iter().enumerate() {
        let alone = guarded(|| prep.program.calibrations.expand(source[s], &[]));
        let Ok(Ok(alone)) = alone else { continue };
        let contributes = match &alone {
            None => true,
            Some(list) => list.iter().any(|i| !matches!(i, Instruction::Declaration(_))),
        };
        if !has {
            ctx.count("sources-without-entry");
        }
        if *has != contributes {
            let sig = if *has { "top:entry-for-a-source-that-contributes-nothing" } else { "top:no-entry-for-a-source-that-contributes-to-the-body" };
            ctx.violation(sig, json!({"source": s, "its expansion": format!("{alone:?}"), "map": map_text()}));
        }
    }

    // ------------------------------------------------------------------ nested, against the model
    let real_body: Vec<MInstr> = target.iter().map(|i| conv_instr(i)).collect();
    let aligned = bodies_agree(&real_body, &model.body);
    if !model.hoisted.is_empty() {
        ctx.count("programs-with-hoisted-declaration");
    }
    if !aligned || !one_level_silent(ctx, &prep, &model.invocations).is_empty() {
        // a substitution step differs from the model, so the real expansion tree is not the
        // model's tree (even if the flat bodies happen to coincide)
        ctx.count("nested:skipped (a substitution step or the expanded body differs from the model: C17's business)");
        return;
    }
    let expected = expected_source_map(&model);
    // top level against the model as well (same classes)
    let mut top_dev = BTreeSet::new();
    {
        // shallow comparison of the top level only
        let mut mi = 0usize;
        for e in map.entries() {
            let s = e.source_location().0;
            while mi < expected.len() && expected[mi].source < s {
                top_dev.insert("entry-missing");
                mi += 1;
            }
            let m = if mi < expected.len() && expected[mi].source == s {
                mi += 1;
                Some(&expected[mi - 1].target)
            } else {
                None
            };
            match (e.target_location(), m) {
                (ExpansionResult::Unmodified(t), Some(MTarget::Unmodified(mt))) if t.0 == *mt => {}
                (ExpansionResult::Rewritten(x), Some(MTarget::Rewritten { cal, start, end, .. })) => {
                    if x.range().start.0 != *start || x.range().end.0 != *end {
                        top_dev.insert("rewritten-range-differs");
                    }
                    if !calibration_identity(&prep, *cal, x.calibration_used()) {
                        top_dev.insert("calibration-used-differs");
                    }
                }
                _ => {
                    top_dev.insert("entry-differs");
                }
            }
        }
        if mi < expected.len() {
            top_dev.insert("entry-missing");
        }
    }
    for d in &top_dev {
        ctx.violation(&format!("top:differs-from-model:{d}"), json!({"expected": clip(&format!("{expected:?}"), 2000), "map": map_text()}));
    }

    let n_sources_of = |used: &CalibrationSource| -> Option<usize> {
        match used {
            CalibrationSource::Calibration(id) => prep.program.calibrations.iter_calibrations().find(|c| &c.identifier == id).map(|c| c.instructions.len()),
            CalibrationSource::MeasureCalibration(id) => {
                prep.program.calibrations.iter_measure_calibrations().find(|c| &c.identifier == id).map(|c| c.instructions.len())
            }
        }
    };
    for e in map.entries() {
        let ExpansionResult::Rewritten(x) = e.target_location() else { continue };
        let s = e.source_location().0;
        let Some(Some(node)) = model.top.get(s) else { continue };
        let hoisted_here = node.hoisted() > 0;
        let mut dev = BTreeSet::new();
        let mut depth = 1usize;
        compare_level(&prep, x.expansions(), &nested_entries(node, true), &mut dev, 1, &mut depth);
        ctx.count("nested:levels-compared-with-model");
        ctx.count(&format!("nesting-depth:{}", depth.min(3)));
        ctx.count(if hoisted_here { "nested:compared:expansion-with-hoisted-declaration" } else { "nested:compared:expansion-without-hoist" });
        ctx.count(&format!("hoisted-declarations-in-one-expansion:{}", node.hoisted().min(3)));
        // second opinion: generic invariants at every nested level
        let mut generic = BTreeSet::new();
        nested_generic(ctx, x, &n_sources_of, &mut generic);
        if dev.is_empty() && !generic.is_empty() {
            // cannot happen if the model map is itself well formed; report rather than hide
            for g in &generic {
                ctx.violation(&format!("nested:{g}:although-equal-to-model-map"), json!({"source": s, "map": map_text()}));
            }
        }
        for d in dev {
            let u_class = d == "unmodified-index-differs" || d == "unmodified-entry-left-for-hoisted-instruction";
            let r_class = d == "rewritten-range-differs" || d == "rewritten-entry-left-for-empty-expansion" || d == "rewritten-entry-missing";
            let sig = if hoisted_here && u_class {
                "nested-unmodified-stale-after-hoist".to_string()
            } else if hoisted_here && r_class {
                "nested-rewritten-range-wrong-after-hoist".to_string()
            } else if hoisted_here {
                format!("nested:{d}:after-hoist-in-same-expansion")
            } else {
                format!("nested:{d}")
            };
            ctx.violation(
                &sig,
                json!({"top-level source": s, "deviation": d, "expected nested": clip(&format!("{:?}", nested_entries(node, true)), 2000), "observed": clip(&format!("{x:?}"), 3000), "generic invariants violated": generic}),
            );
        }
    }

    // ------------------------------------------------------------------ single-instruction map (nothing hoisted)
    for (s, i) in source.iter().enumerate() {
        let Some(Some(node)) = model.top.get(s) else { continue };
        let Ok(Ok(Some(out))) = guarded(|| prep.program.calibrations.expand_with_detail(i, &[])) else { continue };
        ctx.count("single-instruction-map:compared");
        let mut dev = BTreeSet::new();
        let mut depth = 1;
        compare_level(&prep, out.detail.expansions(), &nested_entries(node, false), &mut dev, 1, &mut depth);
        let total = node.body_len() + node.hoisted();
        if out.detail.range().start.0 != 0 || out.detail.range().end.0 != total || out.new_instructions.len() != total {
            dev.insert("rewritten-range-differs");
        }
        for d in dev {
            ctx.violation(&format!("single-instruction-map:{d}"), json!({"source": s, "expected": clip(&format!("{:?}", nested_entries(node, false)), 2000), "observed": clip(&format!("{:?}", out.detail), 3000)}));
        }
    }
    if has_rewritten {
        ctx.sample("source-map", json!({"program": text, "map": map_text()}));
    }
}

const DIRECTED_C19: &[&str] = &[
    // the pinned situation
    "DECLARE ro BIT[1]\nDEFCAL I 0:\n    DECLAREMEM\n    NOP\n    NOP\nDEFCAL DECLAREMEM:\n    DECLARE mem BIT[1]\n    NOP\nI 0\nPULSE 0 \"a\" custom_waveform\nI 0\n",
    // declaration in the middle, at depth 2, nested range not starting at 0
    "DEFCAL X 0:\n    NOP\n    Y 0\n    FENCE 0\nDEFCAL Y 0:\n    DECLARE m1 BIT[1]\n    NOP\nX 0\n",
    // declaration last / expansion contributing nothing
    "DEFCAL X 0:\n    Y 0\n    NOP\nDEFCAL Y 0:\n    DECLARE m1 BIT[1]\nDEFCAL RX(%t) q:\n    DECLARE m2 REAL[1]\nX 0\nRX(1) 0\nH 0\n",
    // no declaration, depth 3
    "DEFCAL X q:\n    RX(pi) q\n    NOP\nDEFCAL RX(%t) q:\n    RZ(%t) q\n    FENCE q\nDEFCAL RZ(%t) q:\n    SHIFT-PHASE q \"rf\" %t\nH 1\nX 1\nX 0\n",
];

fn run(ctx: &mut Ctx) {
    if ctx.shard == 0 {
        for d in DIRECTED_C19.iter().chain(DIRECTED.iter()) {
            check_program(ctx, d, "workload:directed");
            if ctx.done() {
                return;
            }
        }
    }
    let mut rng = ctx.rng(1);
    let n = ctx.share(ctx.tier.pick(500_000, 6_000_000));
    for k in 0..n {
        let mut cfg = Cfg::c17();
        cfg.plain_substitution_only = k % 20 < 17;
        cfg.declare_pct = match k % 3 {
            0 => 8,
            1 => 25,
            _ => 45,
        };
        let text = CalibGen::new(&mut rng, cfg).program().text();
        check_program(ctx, &text, "workload:random");
        if ctx.done() {
            return;
        }
    }
}
