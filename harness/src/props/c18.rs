//! C18 — calibration expansion always terminates without crashing; it reports a
//! recursive-calibration error iff some instruction would be expanded again while it is already
//! being expanded.
//!
//! Oracle: crash monitor (the supervisor attributes a process death to the case in flight;
//! `crash_is_violation`) + the model expander with path tracking:
//!   * model finishes, no repetition           -> the real code must return `Ok`;
//!   * model finds an instruction re-entered   -> the real code must return `RecursiveCalibration`;
//!   * model runs out of fuel at depth 64 with all path entries distinct ("divergent without
//!     repetition": the parameter changes on every expansion) -> the two sentences of the statement
//!     cannot both hold; only "no crash, returns some `ProgramError`" is required.
//! The verification hook `calibration_verif_hooks` reports the number of `expand_inner` calls and
//! the deepest expansion path of each run (bounded-progress evidence in logical steps).
//!
//! Because a crash loses the counters of the shard segment it happens in, every shard first
//! classifies all of its cases with the model and runs the (capped number of) divergent ones
//! *first*; the long tail of well-behaved cases then runs in one final segment.

use crate::core::{guarded, Ctx};
use crate::gen::calib_gen::{c18_shape_text, C18Cal, CalibGen, Cfg, C18_TRANSFORMS};
use crate::model::calib_model::*;
use crate::props::c17::{one_level_silent, Prepared};
use crate::props::{PropInfo, DEFAULT};
use quil_rs::program::{calibration_verif_hooks, ProgramError};
use quil_rs::Program;
use serde_json::json;
use std::str::FromStr;

pub static INFO: PropInfo = PropInfo {
    id: "C18",
    run,
    rule: "(a) all self- and mutually-recursive shapes over <=2 (quick) / <=3 (thorough) two-qubit one-parameter calibrations GA/GB/GC, each re-invoking one of them (or none) with parameter transform {%t, %t+1, 2*%t, -%t, %t*1, constant}, qubits in order or swapped, variable or fixed qubits, one or two body instructions; (b) random programs from the C17 generator with the 'only higher gates' restriction removed. Every case is classified by the model (finite / repetition / divergent-without-repetition); up to 700 (quick) / 7000 (thorough) divergent cases per shard are executed (the recursive shapes' ones first); the real expansion runs on a thread with a 256 KiB stack. distinct non-trivial = distinct program whose expansion path reaches depth >= 2 in the model (or is divergent).",
    assumptions: &[
        "the expansion runs on a thread with a 256 KiB stack: a divergent expansion exhausts any stack, but on the 8 MiB main-thread stack that takes ~100 s per program (quadratic work per level); programs the model classifies as finite have expansion depth <= 64 and need a few KiB",
        "a stack overflow kills the process and is attributed to the announced case",
        "instructions are 'the same' when structurally equal (same text up to spacing); RX(0*1) and RX(0) are different instructions",
        "step budget: 10^6 expand_inner calls per program (hook H2) for programs the model expands with <= 10^5 visits",
    ],
    exhaustive_quick: false,
    exhaustive_thorough: false,
    exhaustive_note: "sub-space (a) is enumerated completely up to the stated size except that only a capped number of divergent shapes is executed",
    crash_is_violation: true,
    crash_class: Some(crash_class),
    min_nontrivial: 200,
    // "classified:*" are counted outside the cases (a crash loses the counters of its segment)
    required_counters: &["workload:measure-shapes", "classified:finite", "classified:repetition", "classified:divergent-without-repetition", "outcome:ok", "outcome:recursive-calibration-error"],
    watchdog_s: 240,
    ..DEFAULT
};

/// The announced input starts with `# model: <class>`; use it to tell a crash on a divergent
/// program (the known growth recursion) from a crash on anything else.
fn crash_class(input: &str) -> String {
    let first = input.lines().next().unwrap_or("");
    match first.strip_prefix("# model: ") {
        Some(c) => c.trim().to_string(),
        None => "unclassified".to_string(),
    }
}

#[derive(Clone, Copy, PartialEq, Eq, Debug)]
enum Class {
    Finite,
    Repetition,
    Divergent,
    Undecided,
}

impl Class {
    fn name(self) -> &'static str {
        match self {
            Class::Finite => "finite",
            Class::Repetition => "repetition",
            Class::Divergent => "divergent-without-repetition",
            Class::Undecided => "undecided",
        }
    }
}

struct Case {
    text: String,
    workload: &'static str,
    class: Class,
    model_visited: u64,
    model_depth: usize,
    prepared: Option<Prepared>,
    invocations: Vec<(CalRef, MInstr)>,
}

fn classify(text: String, workload: &'static str) -> Case {
    let parsed = guarded(|| Program::from_str(&text)).ok().and_then(|r| r.ok());
    let mut case = Case { text, workload, class: Class::Undecided, model_visited: 0, model_depth: 0, prepared: None, invocations: vec![] };
    if let Some(program) = parsed {
        let model = conv_program(&program);
        if in_fragment(&model) {
            let (r, st) = expand_program_full(&model);
            case.class = match r {
                Ok(_) => Class::Finite,
                Err(Stop::Recursive(_)) => Class::Repetition,
                Err(Stop::Fuel) => Class::Divergent,
                Err(Stop::Ambiguous(_)) => Class::Undecided,
            };
            case.model_visited = st.visited;
            case.model_depth = st.max_depth;
            case.invocations = st.invocations;
        }
        case.prepared = Some(Prepared { program, model });
    }
    case
}

/// Run `f` on a thread with a stack of `kb` KiB (the real code only; a stack overflow there aborts
/// the whole process just like one on the main thread).
fn on_stack<T: Send>(kb: usize, f: impl FnOnce() -> T + Send) -> Option<T> {
    std::thread::scope(|scope| {
        std::thread::Builder::new()
            .stack_size(kb * 1024)
            .spawn_scoped(scope, f)
            .ok()
            .and_then(|h| h.join().ok())
    })
}

fn outcome_name(r: &Result<Program, ProgramError>) -> String {
    match r {
        Ok(_) => "ok".to_string(),
        Err(ProgramError::RecursiveCalibration(_)) => "recursive-calibration-error".to_string(),
        Err(e) => format!("other-error:{}", error_kind(e)),
    }
}

fn execute(ctx: &mut Ctx, case: &Case) {
    let announced = format!("# model: {}\n{}", case.class.name(), case.text);
    if !ctx.begin(&announced) {
        return;
    }
    ctx.count(case.workload);
    ctx.count(&format!("class:{}", case.class.name()));
    let Some(prep) = &case.prepared else {
        ctx.inconclusive("generated program rejected by the parser");
        return;
    };
    if case.class == Class::Undecided {
        ctx.sample("inconclusive:model-cannot-classify", json!({"program": case.text}));
        ctx.inconclusive("model cannot classify the program");
        return;
    }
    // If one substitution step of this program already differs from the model (C17's findings),
    // the real expansion follows other instructions than the model's and its recursion verdict
    // cannot be compared: not C18's business.
    let differing = one_level_silent(ctx, prep, &case.invocations);
    if !differing.is_empty() {
        ctx.sample("inconclusive:substitution-step-differs", json!({"program": case.text, "differs": format!("{differing:?}")}));
        if let Ok(path) = std::env::var("VERIF_DUMP_INCONCLUSIVE") {
            use std::io::Write;
            if let Ok(mut f) = std::fs::OpenOptions::new().create(true).append(true).open(path) {
                let _ = writeln!(f, "{}", json!({"program": case.text, "differs": format!("{differing:?}")}));
            }
        }
        ctx.inconclusive("a substitution step differs from the model (reported by C17); recursion verdicts not comparable");
        return;
    }
    if case.model_depth >= 2 || case.class == Class::Divergent {
        ctx.nontrivial(&case.text);
    }
    ctx.max("model-expansion-depth", case.model_depth as u64);
    let stack_kb = 256;
    let program = &prep.program;

    for entry in ["expand_calibrations", "expand_calibrations_with_source_map"] {
        let job = || {
            calibration_verif_hooks::reset();
            let r = guarded(|| {
                if entry == "expand_calibrations" {
                    program.expand_calibrations()
                } else {
                    program.expand_calibrations_with_source_map().map(|(p, _)| p)
                }
            });
            (r, calibration_verif_hooks::read())
        };
        let ran = on_stack(stack_kb, job);
        let Some((r, (calls, depth))) = ran else {
            ctx.inconclusive("could not run the expansion thread");
            return;
        };
        ctx.max("hook:expand_inner-calls", calls);
        ctx.max("hook:deepest-expansion-path", depth as u64);
        let r = match r {
            Err(p) => {
                ctx.violation(&p.signature(), json!({"entry point": entry, "panic": p.to_json()}));
                return;
            }
            Ok(r) => r,
        };
        let outcome = outcome_name(&r);
        ctx.count(&format!("outcome:{outcome}"));
        ctx.count(&format!("class/outcome:{}/{outcome}", case.class.name()));
        if case.model_visited <= 100_000 && calls > 1_000_000 {
            ctx.violation("step-budget-exceeded", json!({"entry point": entry, "expand_inner calls": calls, "model visits": case.model_visited}));
        }
        match case.class {
            Class::Finite => {
                if let Err(e) = &r {
                    let sig = if matches!(e, ProgramError::RecursiveCalibration(_)) {
                        "recursive-calibration-error-without-repetition".to_string()
                    } else {
                        format!("unexpected-error-without-repetition:{}", error_kind(e))
                    };
                    ctx.violation(&sig, json!({"entry point": entry, "error": e.to_string(), "model": "expansion finishes; no instruction is expanded while it is being expanded"}));
                } else if calls != case.model_visited {
                    // not a requirement of the property: recorded only
                    ctx.count("note:expand_inner-calls-differ-from-model-visits");
                }
            }
            Class::Repetition => match &r {
                Ok(_) => ctx.violation("no-error-although-an-instruction-is-expanded-while-being-expanded", json!({"entry point": entry})),
                Err(ProgramError::RecursiveCalibration(_)) => {}
                Err(e) => ctx.violation(&format!("wrong-error-kind-on-repetition:{}", error_kind(e)), json!({"entry point": entry, "error": e.to_string()})),
            },
            Class::Divergent => {
                if r.is_ok() {
                    ctx.violation("returned-a-program-for-a-divergent-expansion", json!({"entry point": entry}));
                }
            }
            Class::Undecided => {}
        }
        ctx.sample(
            &format!("{}:{}", case.class.name(), outcome),
            json!({"program": case.text, "entry point": entry, "expand_inner calls": calls, "deepest path": depth, "model visits": case.model_visited}),
        );
    }
}

/// Programs over two measurement calibrations (A on qubit 0 or any qubit, B on qubit 1; with or
/// without a target) and one gate calibration `GX q`, whose bodies re-measure or call `GX`.
fn measure_shapes() -> Vec<String> {
    fn bodies(head_q: &str, head_t: Option<&str>) -> Vec<String> {
        let mut qs = vec!["0", "1"];
        if head_q == "q" {
            qs.push("q");
        }
        let mut ts: Vec<Option<&str>> = vec![Some("ro[0]"), None];
        if let Some(t) = head_t {
            ts.push(Some(t));
        }
        let mut v = vec![String::new()];
        for q in &qs {
            for t in &ts {
                v.push(match t {
                    Some(t) => format!("    MEASURE {q} {t}\n"),
                    None => format!("    MEASURE {q}\n"),
                });
            }
            v.push(format!("    GX {q}\n"));
        }
        v
    }
    let head = |q: &str, t: Option<&str>| match t {
        Some(t) => format!("DEFCAL MEASURE {q} {t}:\n    NOP\n"),
        None => format!("DEFCAL MEASURE {q}:\n    NOP\n"),
    };
    let mut out = Vec::new();
    for (aq, at) in [("0", Some("addr")), ("q", Some("addr")), ("0", None), ("q", None)] {
        for abody in bodies(aq, at) {
            let a = format!("{}{}", head(aq, at), abody);
            let mut bs = vec![String::new()];
            for bt in [Some("dest"), None] {
                for bbody in bodies("1", bt) {
                    bs.push(format!("{}{}", head("1", bt), bbody));
                }
            }
            for b in &bs {
                for gbody in ["    NOP\n", "    MEASURE q ro[0]\n", "    MEASURE 0 ro[1]\n", "    MEASURE 1\n"] {
                    for top in ["MEASURE 0 ro[0]\n", "MEASURE 0\n", "GX 0\n", "MEASURE 1 ro[0]\nGX 1\n"] {
                        out.push(format!("DECLARE ro BIT[2]\n{a}{b}DEFCAL GX q:\n{gbody}{top}"));
                    }
                }
            }
        }
    }
    out
}

fn shapes(n_cals: usize, out: &mut Vec<(Vec<C18Cal>, bool, bool)>) {
    // per calibration: target in {none, 0..n}, transform, swapped
    let per: Vec<C18Cal> = {
        let mut v = vec![C18Cal { target: None, transform: 0, swapped: false }];
        for j in 0..n_cals {
            for t in 0..C18_TRANSFORMS.len() {
                for s in [false, true] {
                    v.push(C18Cal { target: Some(j), transform: t, swapped: s });
                }
            }
        }
        v
    };
    let total = per.len().pow(n_cals as u32);
    for code in 0..total {
        let mut c = code;
        let mut cals = Vec::with_capacity(n_cals);
        for _ in 0..n_cals {
            cals.push(per[c % per.len()].clone());
            c /= per.len();
        }
        for fixed in [false, true] {
            for second in [false, true] {
                if second && n_cals == 1 {
                    continue;
                }
                out.push((cals.clone(), fixed, second));
            }
        }
    }
}

fn run(ctx: &mut Ctx) {
    let tier = ctx.tier;
    let mut all_shapes = Vec::new();
    shapes(1, &mut all_shapes);
    shapes(2, &mut all_shapes);
    let n_small = all_shapes.len();
    shapes(3, &mut all_shapes);

    // ---- phase A: classify this shard's share of the small shapes and pick the divergent cases
    // that will be executed; they run first (see the module comment)
    let mut idx = 0u64;
    let mut early: Vec<Case> = Vec::new();
    for (cals, fixed, second) in all_shapes[..n_small].iter() {
        idx += 1;
        if ctx.mine(idx) {
            early.push(classify(c18_shape_text(cals, *fixed, *second), "workload:recursive-shapes"));
        }
    }
    // Divergent cases used to kill the process (stack overflow) on the unrepaired tree, which is why
    // they were capped at a handful per shard; with a bounded expansion depth they return an error
    // quickly, so (nearly) all of them are executed.  The cap only bounds the cost of a tree on which
    // every one of them crashes again.
    let cap = tier.pick(400, 4000);
    let mut executed_divergent = 0u64;
    let mut later_divergent_budget: u64 = tier.pick(300, 3000);
    for c in early.iter().filter(|c| c.class == Class::Divergent).take(cap) {
        executed_divergent += 1;
        execute(ctx, c);
        if ctx.done() {
            return;
        }
    }

    // ---- phase B: everything else, classified on the fly; further divergent cases are counted,
    // not executed
    let mut classified = [0u64; 4];
    let mut tally = |c: &Case| {
        classified[match c.class {
            Class::Finite => 0,
            Class::Repetition => 1,
            Class::Divergent => 2,
            Class::Undecided => 3,
        }] += 1;
    };
    for c in &early {
        tally(c);
        if c.class != Class::Divergent {
            execute(ctx, c);
            if ctx.done() {
                return;
            }
        }
    }
    drop(early);
    // three calibrations: everything in the thorough tier, a deterministic 1/40 slice in quick
    for (k, (cals, fixed, second)) in all_shapes[n_small..].iter().enumerate() {
        if tier.pick(k % 40 != 0, false) {
            continue;
        }
        idx += 1;
        if !ctx.mine(idx) {
            continue;
        }
        let c = classify(c18_shape_text(cals, *fixed, *second), "workload:recursive-shapes");
        tally(&c);
        let run_it = c.class != Class::Divergent || later_divergent_budget > 0;
        if c.class == Class::Divergent && run_it {
            later_divergent_budget -= 1;
            executed_divergent += 1;
        }
        if run_it {
            execute(ctx, &c);
            if ctx.done() {
                return;
            }
        }
    }
    // ---- cycles that run through MEASURE: measurement calibrations re-measuring (themselves,
    // each other) and a gate calibration that measures; enumerated completely in both tiers
    for (k, text) in measure_shapes().into_iter().enumerate() {
        if !ctx.mine(k as u64) {
            continue;
        }
        let c = classify(text, "workload:measure-shapes");
        tally(&c);
        execute(ctx, &c);
        if ctx.done() {
            return;
        }
    }
    let mut rng = ctx.rng(1);
    let n_random = ctx.share(tier.pick(8_000, 150_000));
    for k in 0..n_random {
        let cfg = Cfg { acyclic: false, declare_pct: 3, plain_substitution_only: k % 4 != 0, max_cals: 2 + (k % 5) as usize, max_body: 4, max_top: 3 };
        let text = CalibGen::new(&mut rng, cfg).program().text();
        let c = classify(text, "workload:random-unrestricted");
        tally(&c);
        let run_it = c.class != Class::Divergent || later_divergent_budget > 0;
        if c.class == Class::Divergent && run_it {
            later_divergent_budget -= 1;
            executed_divergent += 1;
        }
        if run_it {
            execute(ctx, &c);
            if ctx.done() {
                return;
            }
        }
    }
    for (k, class) in [Class::Finite, Class::Repetition, Class::Divergent, Class::Undecided].iter().enumerate() {
        ctx.count_n(&format!("classified:{}", class.name()), classified[k]);
    }
    ctx.count_n("divergent-cases-executed", executed_divergent);
    ctx.count_n("divergent-cases-classified-but-not-executed (cap)", classified[2].saturating_sub(executed_divergent));
}
