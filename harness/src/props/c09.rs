//! C09 — all instruction views of a program agree.
//!
//! For every generated sequence (definitions of every kind incl. PRAGMA EXTERN in valid, invalid,
//! nameless and duplicate forms, INCLUDE, labels, jumps, body instructions) the program is built
//! (from_instructions / add_instruction / concatenation of two halves) and judged:
//!
//! 1. `p.to_instructions() == p.clone().into_instructions()`;
//! 2. `r = Program::from_instructions(p.to_instructions())` is `== p`, lists the same
//!    instructions and serializes identically;
//! 3. the body sub-sequence of the listing is the insertion order of the body instructions;
//! 4. every keyed definition kind holds exactly the last value given for each key (compared as a
//!    multiset: the *order* of definitions is C08's subject, not C09's).
//!
//! A difference that consists only of a permutation of DEFFRAME entries is the hash-ordered
//! `FrameSet` (C08's finding `order:DEFFRAME:not-insertion-order`); it is counted under
//! `attributed-to-C08:frame-order` and not reported here a second time.

use crate::core::{clip, guarded, Ctx, Rng};
use crate::gen::container_gen::{describe, ContainerGen, GenCfg, Item, Kind, DEF_KINDS};
use crate::model::container_model::ProgramModel;
use crate::props::container_util::*;
use crate::props::{PropInfo, DEFAULT};
use quil_rs::instruction::Instruction;
use quil_rs::Program;
use serde_json::json;

pub static INFO: PropInfo = PropInfo {
    id: "C09",
    run,
    rule: "random instruction sequences as for C08 (2-6 definitions per kind, >=30 % re-used keys; a kind is absent with probability 15 %) plus PRAGMA EXTERN in valid / invalid / signature-less / nameless / integer-argument / duplicate forms, INCLUDE, LABEL, JUMP, JUMP-WHEN; built by from_instructions, add_instruction or A+B of two halves (chosen per case). distinct = distinct (sequence, build mode); non-trivial = the sequence has >=1 definition and >=1 body instruction.",
    assumptions: &[
        "Instruction::PartialEq and Program::PartialEq are the equalities the property speaks about",
        "PRAGMA EXTERN without an identifier as first argument is keyed as nameless (documented on Program::add_instruction)",
        "differences that are only a permutation of DEFFRAME entries are attributed to C08",
    ],
    min_nontrivial: 100,
    required_counters: &[
        "views:compared",
        "rebuild:compared",
        "has:extern",
        "has:extern-nameless",
        "has:include",
        "has:label",
    ],
    watchdog_s: 120,
    ..DEFAULT
};

struct Case {
    items: Vec<Item>,
    split: usize,
    mode: usize,
}

fn gen_case(seed: u64, shard: usize, k: u64) -> Case {
    let mut rng = Rng::from_parts(&[0xC09, seed, shard as u64, k]);
    let mut cfg = GenCfg::c09();
    // a third of the cases are small (0-2 definitions per kind) so that minimal witnesses occur
    if rng.chance(1, 3) {
        cfg.defs_min = 0;
        cfg.defs_max = 2;
        cfg.drop_kind_percent = 50;
    }
    let items = ContainerGen::new(&mut rng, cfg).sequence();
    let split = rng.below(items.len() + 1);
    let mode = rng.below(3);
    Case { items, split, mode }
}

const MODES: [&str; 3] = ["from_instructions", "add_instruction", "A+B"];

fn build(case: &Case) -> Program {
    match case.mode {
        0 => build_from_instructions(&case.items),
        1 => build_incrementally(&case.items),
        _ => build_from_instructions(&case.items[..case.split]) + build_from_instructions(&case.items[case.split..]),
    }
}

struct Obs {
    to: Vec<Instruction>,
    into: Vec<Instruction>,
    text: String,
    rebuilt_eq: bool,
    rebuilt_parts_differing: Vec<&'static str>,
    rebuilt_used_differs: bool,
    rebuilt_listing: Vec<Instruction>,
    rebuilt_text: String,
    len: usize,
}

/// The first kind (in `to` order) whose block sits at a different block index in `into`.
fn moved_block(to: &[Instruction], into: &[Instruction]) -> String {
    let (a, b) = (block_order(to), block_order(into));
    for (i, k) in a.iter().enumerate() {
        if b.get(i) != Some(k) {
            return k.name().to_string();
        }
    }
    "?".to_string()
}

fn run(ctx: &mut Ctx) {
    let tier = ctx.tier;
    let (seed, shard) = (ctx.seed, ctx.shard);
    let n_cases = ctx.share(tier.pick(400_000, 4_000_000));
    for k in 0..n_cases {
        let case = gen_case(seed, shard, k);
        let desc = format!(
            "case {k} build={}{}:\n{}",
            MODES[case.mode],
            if case.mode == 2 { format!(" split {}", case.split) } else { String::new() },
            describe(&case.items)
        );
        if !ctx.begin(&desc) {
            continue;
        }
        let model = ProgramModel::from_items(&case.items, 0..case.items.len());
        ctx.count(&format!("build:{}", MODES[case.mode]));

        let obs = guarded(|| {
            let p = build(&case);
            let to = p.to_instructions();
            let into = p.clone().into_instructions();
            let text = quil_text(&p);
            let r = Program::from_instructions(to.clone());
            // which publicly visible part differs, if `r != p`
            let mut parts: Vec<&'static str> = Vec::new();
            if r.calibrations != p.calibrations {
                parts.push("calibrations");
            }
            if r.extern_pragma_map != p.extern_pragma_map {
                parts.push("extern_pragma_map");
            }
            if r.frames != p.frames {
                parts.push("frames");
            }
            if r.memory_regions != p.memory_regions {
                parts.push("memory_regions");
            }
            if r.waveforms != p.waveforms {
                parts.push("waveforms");
            }
            if r.gate_definitions != p.gate_definitions {
                parts.push("gate_definitions");
            }
            if r.circuits != p.circuits {
                parts.push("circuits");
            }
            if !r.body_instructions().eq(p.body_instructions()) {
                parts.push("body");
            }
            let used_differs = r.get_used_qubits() != p.get_used_qubits();
            Obs {
                rebuilt_parts_differing: parts,
                rebuilt_used_differs: used_differs,
                rebuilt_eq: r == p,
                rebuilt_listing: r.to_instructions(),
                rebuilt_text: quil_text(&r),
                len: p.len(),
                to,
                into,
                text,
            }
        });
        let o = match obs {
            Ok(o) => o,
            Err(p) => {
                ctx.violation(&p.signature(), panic_value(&p));
                continue;
            }
        };

        // 1. copying vs consuming listing
        ctx.count("views:compared");
        if o.to != o.into {
            let (kinds, arrangement) = differing_kinds(&o.to, &o.into);
            if arrangement {
                ctx.violation(
                    &format!("to-vs-into:block-order:{}-moved", moved_block(&o.to, &o.into)),
                    json!({"to_instructions_blocks": block_order(&o.to).iter().map(|k| k.name()).collect::<Vec<_>>(),
                           "into_instructions_blocks": block_order(&o.into).iter().map(|k| k.name()).collect::<Vec<_>>(),
                           "to_instructions": clip_listing(&o.to, 6), "into_instructions": clip_listing(&o.into, 6)}),
                );
            } else if kinds == [Kind::Frame] && equal_modulo_frame_order(&o.to, &o.into) {
                ctx.count("attributed-to-C08:frame-order");
            } else {
                ctx.violation(
                    &format!("to-vs-into:entries-differ:{}", kinds_label(&kinds)),
                    json!({"to_instructions": clip_listing(&o.to, 30), "into_instructions": clip_listing(&o.into, 30)}),
                );
            }
        } else {
            ctx.count("views:equal");
        }

        // 2. rebuild from the listing
        ctx.count("rebuild:compared");
        if !o.rebuilt_eq {
            if o.rebuilt_parts_differing.is_empty() && o.rebuilt_used_differs {
                // every public component is equal; only the used-qubit cache differs: that is
                // C10's subject (`used-qubits:add_instruction:cache-keeps-unmentioned-qubits`)
                ctx.count("attributed-to-C10:used-qubit-cache");
            } else {
                let what = if o.rebuilt_parts_differing.is_empty() {
                    "hidden-state".to_string()
                } else {
                    o.rebuilt_parts_differing.join("+")
                };
                ctx.violation(
                    &format!("rebuild:not-equal:{what}"),
                    json!({"listing": clip_listing(&o.to, 30), "rebuilt_listing": clip_listing(&o.rebuilt_listing, 30)}),
                );
            }
        } else {
            ctx.count("rebuild:equal");
        }
        if o.rebuilt_listing != o.to {
            if equal_modulo_frame_order(&o.rebuilt_listing, &o.to) {
                ctx.count("attributed-to-C08:frame-order");
            } else {
                let (kinds, arrangement) = differing_kinds(&o.to, &o.rebuilt_listing);
                ctx.violation(
                    &format!(
                        "rebuild:listing-differs:{}",
                        if arrangement { "block-order".to_string() } else { kinds_label(&kinds) }
                    ),
                    json!({"listing": clip_listing(&o.to, 30), "rebuilt_listing": clip_listing(&o.rebuilt_listing, 30)}),
                );
            }
        } else if o.rebuilt_text != o.text {
            ctx.violation(
                "rebuild:same-listing-different-text",
                json!({"text": clip(&o.text, 800), "rebuilt_text": clip(&o.rebuilt_text, 800)}),
            );
        } else {
            ctx.count("rebuild:identical");
        }

        // 3. body order
        let body_expected: Vec<&Instruction> = model.body.iter().map(|&i| &case.items[i].instr).collect();
        for (name, listing) in [("to_instructions", &o.to), ("into_instructions", &o.into)] {
            let d = diff_seq(&of_kind(listing, Kind::Body), &body_expected);
            if d != KindDiff::Equal {
                ctx.violation(
                    &format!("body-order:{}", d.name()),
                    json!({"view": name, "observed_body": clip_listing(&of_kind(listing, Kind::Body).into_iter().cloned().collect::<Vec<_>>(), 30)}),
                );
                break;
            }
        }

        // 4. last value per key (multiset per kind)
        for (kind, d) in diff_listing_with_model(&o.to, &case.items, &model, &DEF_KINDS) {
            if d == KindDiff::Permuted {
                // order is not C09's subject
                ctx.count(&format!("order-differs-from-insertion(not judged here):{}", kind.name()));
                continue;
            }
            let expected: Vec<&str> = model.listing(kind).iter().map(|&i| case.items[i].desc.as_str()).collect();
            ctx.violation(
                &format!("last-value:{}:{}", kind.name(), d.name()),
                json!({"expected_entries": expected,
                       "observed": clip_listing(&of_kind(&o.to, kind).into_iter().cloned().collect::<Vec<_>>(), 12)}),
            );
        }
        // every listed instruction is accounted for (nothing invented, nothing lost)
        let expected_total = model.definitions() + model.body.len();
        if o.to.len() != expected_total {
            ctx.count("listing-length-differs-from-model");
        }
        let _ = o.len;

        // ---- accounting -------------------------------------------------------------------------
        let n_defs = case.items.iter().filter(|i| i.kind != Kind::Body).count();
        let n_body = case.items.len() - n_defs;
        for it in &case.items {
            match (&it.kind, &it.instr) {
                (Kind::Extern, _) => {
                    ctx.count("has:extern");
                    if it.key == "<nameless>" {
                        ctx.count("has:extern-nameless");
                    }
                }
                (_, Instruction::Include(_)) => ctx.count("has:include"),
                (_, Instruction::Label(_)) => ctx.count("has:label"),
                _ => {}
            }
        }
        if n_defs >= 1 && n_body >= 1 {
            ctx.nontrivial(&(describe(&case.items), case.mode, if case.mode == 2 { case.split } else { 0 }));
        }
        ctx.max("items-per-sequence", case.items.len() as u64);
        if k < 2 && shard == 0 {
            ctx.sample(
                "sequence",
                json!({"build": MODES[case.mode], "items": case.items.iter().map(|i| i.desc.clone()).collect::<Vec<_>>(),
                       "to_instructions": clip_listing(&o.to, 40)}),
            );
        }
        if ctx.done() {
            return;
        }
    }
}
