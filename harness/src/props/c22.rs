//! C22 — every block's dependency graph is a well-formed DAG.
//!
//! For every program that `ScheduledProgram::from_program` accepts, on every block's
//! `get_dependency_graph()`:
//!   * every node is the block start, an instruction of the block, or the block end;
//!   * every edge goes from an earlier position to a later one (start < i0 < i1 < ... < end), in
//!     particular there are no self-loops; acyclicity is additionally checked by Kahn's algorithm;
//!   * if every RF-control instruction of the block has a non-empty `matching_frames`
//!     (used ∪ blocked, the implementation's own answer), every instruction node exists, is
//!     reachable from the block start and reaches the block end.

use crate::core::Ctx;
use crate::gen::sched_prog::{
    decode_sequence, random_body, random_header, standard_header, BodyMix, Pool,
};
use crate::model::sched_model::{is_acyclic, reachability};
use crate::props::sched_common::{run_graph_case, BlockObs};
use crate::props::{PropInfo, DEFAULT};
use serde_json::json;

pub static INFO: PropInfo = PropInfo {
    id: "C22",
    run,
    rule: "programs: (a) every block of 1..=3 instructions over a 24-instruction alphabet (blocking/non-blocking PULSE, CAPTURE, RAW-CAPTURE, DELAY with and without frame names, FENCE with and without qubits, SET-PHASE reading memory, SHIFT-FREQUENCY, SWAP-PHASES, RESET with and without qubit, a pulse on an undefined frame, MOVE/ADD/NOP) under a fixed header defining 5 of 8 frames on qubits {0,1,2} x names {a,b}; (b) random multi-block programs of 1..=12 instructions from a 150-instruction pool incl. labels, jumps, conditional jumps, HALT, WAIT, CALL, under random frame subsets. Judged per scheduled block. distinct = (program text, block index); non-trivial = block with >= 2 instructions and >= 1 edge between two instruction nodes.",
    assumptions: &[
        "\"matches at least one defined frame\" is read as: DefaultHandler::matching_frames(program, instruction) returns a non-empty used or blocked set",
        "positions: BlockStart < InstructionIndex(0) < ... < InstructionIndex(n-1) < BlockEnd",
    ],
    exhaustive_quick: false,
    exhaustive_thorough: false,
    exhaustive_note: "sub-space (a) (14 424 blocks) is enumerated completely in both tiers; (b) is sampled",
    min_nontrivial: 1000,
    required_counters: &[
        "outcome:scheduled",
        "premise:all-rf-match-a-frame",
        "premise:some-rf-matches-no-frame",
        "block:multi-block-program",
        "block:with-terminator",
        "edge:stable-ordering",
        "edge:scheduled",
        "edge:await-write",
    ],
    ..DEFAULT
};

fn judge(ctx: &mut Ctx, b: &BlockObs, key: &str) {
    let total = b.n + 2;
    let detail = |extra: serde_json::Value| json!({"block": b.to_json(), "problem": extra});
    if !b.foreign_nodes.is_empty() {
        ctx.violation("node-outside-block", detail(json!(b.foreign_nodes)));
    }
    let pairs: Vec<(usize, usize)> = b.edges.iter().map(|e| (e.from, e.to)).collect();
    for e in &b.edges {
        for l in e.labels() {
            ctx.count(&format!("edge:{l}"));
        }
        if e.from == e.to {
            ctx.violation(
                &format!("self-loop:{}", e.labels().join("+")),
                detail(json!(b.pos_name(e.from))),
            );
        } else if e.from > e.to {
            ctx.violation(
                &format!("backward-edge:{}", e.labels().join("+")),
                detail(json!(format!("{}->{}", b.pos_name(e.from), b.pos_name(e.to)))),
            );
        }
    }
    if !is_acyclic(total, &pairs) {
        ctx.violation("cycle", detail(json!(null)));
    }
    let premise = b.instrs.iter().all(|i| !i.rf || i.touches_frames());
    if premise {
        ctx.count("premise:all-rf-match-a-frame");
        let reach = reachability(total, &pairs);
        for p in 1..=b.n {
            let what = if b.instrs[p - 1].rf {
                "rf"
            } else if b.instrs[p - 1].classical {
                "classical"
            } else {
                "other"
            };
            if !b.nodes_present.contains(&p) {
                ctx.violation(
                    &format!("instruction-node-missing:{what}"),
                    detail(json!(b.pos_name(p))),
                );
                continue;
            }
            if !reach[0][p] {
                ctx.violation(
                    &format!("not-reachable-from-block-start:{what}"),
                    detail(json!(b.pos_name(p))),
                );
            }
            if !reach[p][b.end()] {
                ctx.violation(
                    &format!("does-not-reach-block-end:{what}"),
                    detail(json!(b.pos_name(p))),
                );
            }
        }
    } else {
        ctx.count("premise:some-rf-matches-no-frame");
    }
    if b.terminator.is_some() {
        ctx.count("block:with-terminator");
    }
    if b.n == 0 {
        ctx.count("block:empty");
    }
    let inner_edges = b
        .edges
        .iter()
        .filter(|e| e.from >= 1 && e.to <= b.n && e.from <= b.n && e.to >= 1)
        .count();
    if b.n >= 2 && inner_edges >= 1 {
        ctx.nontrivial(key);
        ctx.sample("scheduled-block", b.to_json());
    }
}

fn run(ctx: &mut Ctx) {
    let pool = match Pool::new() {
        Ok(p) => p,
        Err(e) => {
            // generator text rejected by the parser: nothing can be observed (=> exit 2 via min_nontrivial)
            ctx.inconclusive(&format!("generator: {e}"));
            return;
        }
    };
    let tier = ctx.tier;
    let mut judge_counting = |ctx: &mut Ctx, b: &BlockObs, key: &str| judge(ctx, b, key);

    // (a) exhaustive blocks of length 1..=3 over the 24-instruction alphabet
    let header = standard_header(&pool);
    let mut idx = 0u64;
    for len in 1..=3usize {
        let total = pool.alphabet24.len().pow(len as u32);
        for code in 0..total {
            idx += 1;
            if !ctx.mine(idx) {
                continue;
            }
            let mut case = header.clone();
            case.body = decode_sequence(&pool.alphabet24, len, code);
            run_graph_case(ctx, &pool, &case, "workload:exhaustive-blocks<=3", &mut judge_counting);
            if ctx.done() {
                return;
            }
        }
    }

    // (b) random multi-block programs
    let mut rng = ctx.rng(1);
    let n = ctx.share(tier.pick(1_000_000, 8_000_000));
    for k in 0..n {
        let mut case = random_header(&pool, &mut rng, false, false);
        let mix = match k % 3 {
            0 => BodyMix { rf: 6, classical: 3, control: 2, gates: 0 },
            1 => BodyMix { rf: 8, classical: 2, control: 0, gates: 0 },
            _ => BodyMix { rf: 3, classical: 6, control: 1, gates: 0 },
        };
        case.body = random_body(&pool, &mut rng, 12, mix);
        run_graph_case(ctx, &pool, &case, "workload:random-multi-block", &mut judge_counting);
        if ctx.done() {
            return;
        }
    }
}
