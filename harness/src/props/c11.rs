//! C11 — program concatenation appends bodies and merges definitions.
//!
//! Pairs (A, B) of generated sequences with controlled key overlap per kind (none / partial /
//! total) are built into programs; `A + B` and `A += B` are judged against the ordered-map model:
//! body(A+B) = body(A)·body(B); per kind every key of A or B is present exactly once, with B's
//! value where both define it; used qubits = used(A) ∪ used(B) (both sides observed through
//! `get_used_qubits`); `A + B` and `A += B` agree (`==`, listing, text); concatenation with the
//! empty program is an identity on either side (`==`, listing, text).
//!
//! The position of merged definitions (first-insertion order) is C08's subject; here a kind whose
//! entries are right but permuted is only reported when the kind is *not* DEFFRAME (the
//! hash-ordered `FrameSet` is C08's finding) — for the other kinds the order after a merge is
//! part of "every other definition is kept" only in so far as C08 states it, so it is counted,
//! not judged.

use crate::core::{clip, guarded, Ctx, Rng};
use crate::gen::container_gen::{describe, ContainerGen, GenCfg, Item, Kind, Pool, DEF_KINDS};
use crate::model::container_model::ProgramModel;
use crate::props::container_util::*;
use crate::props::{PropInfo, DEFAULT};
use quil_rs::instruction::{Instruction, Qubit};
use quil_rs::Program;
use serde_json::json;
use std::collections::HashSet;

pub static INFO: PropInfo = PropInfo {
    id: "C11",
    run,
    rule: "random pairs (A, B) of C08-style sequences (0-4 definitions per kind each) with key overlap none (disjoint key universes), partial (shared universe) or total (B redefines exactly A's keys), plus empty A or empty B; distinct = distinct pair; non-trivial = at least one key defined in both, or both bodies non-empty.",
    assumptions: &[
        "used(A) and used(B) are taken from get_used_qubits of the operands (their correctness is C10's subject)",
        "order of merged definitions is not judged here (C08); a DEFFRAME permutation is attributed to C08",
    ],
    min_nontrivial: 100,
    required_counters: &[
        "overlap:none",
        "overlap:partial",
        "overlap:total",
        "identity:right-empty",
        "identity:left-empty",
        "key-overlap-cases",
    ],
    watchdog_s: 120,
    ..DEFAULT
};

struct Case {
    a: Vec<Item>,
    b: Vec<Item>,
    overlap: &'static str,
}

fn gen_case(seed: u64, shard: usize, k: u64) -> Case {
    let mut rng = Rng::from_parts(&[0xC11, seed, shard as u64, k]);
    let mut cfg = GenCfg::c08();
    cfg.defs_min = 0;
    cfg.defs_max = 4;
    cfg.control_flow = true;
    let mode = rng.below(10);
    match mode {
        0..=2 => {
            let a = ContainerGen::new(&mut rng, GenCfg { pool: Pool::LowHalf, ..cfg.clone() }).sequence();
            let b = ContainerGen::new(&mut rng, GenCfg { pool: Pool::HighHalf, ..cfg }).sequence();
            Case { a, b, overlap: "none" }
        }
        3..=6 => {
            let a = ContainerGen::new(&mut rng, cfg.clone()).sequence();
            let b = ContainerGen::new(&mut rng, cfg).sequence();
            Case { a, b, overlap: "partial" }
        }
        7..=8 => {
            let a = ContainerGen::new(&mut rng, cfg.clone()).sequence();
            let b = ContainerGen::new(&mut rng, cfg).sequence_redefining(&a);
            Case { a, b, overlap: "total" }
        }
        _ => {
            let a = ContainerGen::new(&mut rng, cfg).sequence();
            if rng.chance(1, 2) {
                Case { a, b: vec![], overlap: "b-empty" }
            } else {
                Case { a: vec![], b: a, overlap: "a-empty" }
            }
        }
    }
}

struct Side {
    listing: Vec<Instruction>,
    text: String,
    used: HashSet<Qubit>,
}

fn side(p: &Program) -> Side {
    Side {
        listing: p.to_instructions(),
        text: quil_text(p),
        used: p.get_used_qubits().clone(),
    }
}

struct Obs {
    a: Side,
    b: Side,
    sum: Side,
    assign: Side,
    sum_eq_assign: bool,
    a_plus_empty: Side,
    a_plus_empty_eq: bool,
    empty_plus_a: Side,
    empty_plus_a_eq: bool,
}

/// Compare two listings that should be identical; returns Ok, or Err(label) where a DEFFRAME-only
/// permutation is reported as `Ok` with the attribution counter bumped.
fn same_listing(ctx: &mut Ctx, x: &[Instruction], y: &[Instruction]) -> Result<(), String> {
    if x == y {
        return Ok(());
    }
    if equal_modulo_frame_order(x, y) {
        ctx.count("attributed-to-C08:frame-order");
        return Ok(());
    }
    let (kinds, arrangement) = differing_kinds(x, y);
    Err(if arrangement { "block-order".to_string() } else { kinds_label(&kinds) })
}

fn run(ctx: &mut Ctx) {
    let tier = ctx.tier;
    let (seed, shard) = (ctx.seed, ctx.shard);
    let n_cases = ctx.share(tier.pick(480_000, 4_000_000));
    for k in 0..n_cases {
        let case = gen_case(seed, shard, k);
        let desc = format!(
            "case {k} overlap={}\n--- A ---\n{}\n--- B ---\n{}",
            case.overlap,
            describe(&case.a),
            describe(&case.b)
        );
        if !ctx.begin(&desc) {
            continue;
        }
        // arena = A items followed by B items
        let mut arena = case.a.clone();
        arena.extend(case.b.iter().cloned());
        let ma = ProgramModel::from_items(&arena, 0..case.a.len());
        let mb = ProgramModel::from_items(&arena, case.a.len()..arena.len());
        let mut msum = ma.clone();
        msum.concat(&arena, &mb);

        let obs = guarded(|| {
            let a = build_from_instructions(&case.a);
            let b = build_from_instructions(&case.b);
            let sum = a.clone() + b.clone();
            let mut assign = a.clone();
            assign += b.clone();
            let ape = a.clone() + Program::new();
            let epa = Program::new() + a.clone();
            Obs {
                sum_eq_assign: sum == assign,
                a_plus_empty_eq: ape == a,
                empty_plus_a_eq: epa == a,
                a: side(&a),
                b: side(&b),
                sum: side(&sum),
                assign: side(&assign),
                a_plus_empty: side(&ape),
                empty_plus_a: side(&epa),
            }
        });
        let o = match obs {
            Ok(o) => o,
            Err(p) => {
                ctx.violation(&p.signature(), panic_value(&p));
                continue;
            }
        };
        ctx.count(&format!("overlap:{}", case.overlap));

        // ---- body(A+B) = body(A)·body(B) -------------------------------------------------------
        let body_expected: Vec<&Instruction> = msum.body.iter().map(|&i| &arena[i].instr).collect();
        let d = diff_seq(&of_kind(&o.sum.listing, Kind::Body), &body_expected);
        if d != KindDiff::Equal {
            ctx.violation(
                &format!("concat-body:{}", d.name()),
                json!({"observed_body": clip_listing(&of_kind(&o.sum.listing, Kind::Body).into_iter().cloned().collect::<Vec<_>>(), 30)}),
            );
        }

        // ---- definitions: B wins on equal keys, everything else kept ------------------------------
        let mut overlapping_keys = 0usize;
        for kind in DEF_KINDS {
            let ka: Vec<&String> = ma.maps[kind.index()].entries.iter().map(|(k, _)| k).collect();
            overlapping_keys += mb.maps[kind.index()].entries.iter().filter(|(k, _)| ka.contains(&k)).count();
        }
        for (kind, d) in diff_listing_with_model(&o.sum.listing, &arena, &msum, &DEF_KINDS) {
            if d == KindDiff::Permuted {
                if kind == Kind::Frame {
                    ctx.count("attributed-to-C08:frame-order");
                } else {
                    ctx.count(&format!("merged-order-differs-from-model(not judged here):{}", kind.name()));
                }
                continue;
            }
            let expected: Vec<&str> = msum.listing(kind).iter().map(|&i| arena[i].desc.as_str()).collect();
            ctx.violation(
                &format!("concat-merge:{}:{}", kind.name(), d.name()),
                json!({"expected_entries": expected,
                       "observed": clip_listing(&of_kind(&o.sum.listing, kind).into_iter().cloned().collect::<Vec<_>>(), 12)}),
            );
        }

        // ---- used qubits = union -------------------------------------------------------------------
        let union: HashSet<Qubit> = o.a.used.union(&o.b.used).cloned().collect();
        if o.sum.used != union {
            let missing = union.difference(&o.sum.used).count();
            let extra = o.sum.used.difference(&union).count();
            ctx.violation(
                &format!(
                    "concat-used-qubits:{}",
                    match (missing > 0, extra > 0) {
                        (true, false) => "missing",
                        (false, true) => "extra",
                        _ => "missing-and-extra",
                    }
                ),
                json!({"used_a": format!("{:?}", o.a.used), "used_b": format!("{:?}", o.b.used), "used_sum": format!("{:?}", o.sum.used)}),
            );
        }
        if o.assign.used != o.sum.used {
            ctx.violation("add-vs-add-assign:used-qubits", json!({}));
        }

        // ---- A + B vs A += B -------------------------------------------------------------------------
        if !o.sum_eq_assign {
            ctx.violation("add-vs-add-assign:not-equal", json!({}));
        }
        match same_listing(ctx, &o.sum.listing, &o.assign.listing) {
            Err(what) => ctx.violation(&format!("add-vs-add-assign:listing:{what}"), json!({})),
            Ok(()) => {
                if o.sum.listing == o.assign.listing && o.sum.text != o.assign.text {
                    ctx.violation("add-vs-add-assign:text", json!({"a+b": clip(&o.sum.text, 600), "a+=b": clip(&o.assign.text, 600)}));
                }
            }
        }

        // ---- identity ----------------------------------------------------------------------------------
        for (name, s, eq) in [
            ("right-empty", &o.a_plus_empty, o.a_plus_empty_eq),
            ("left-empty", &o.empty_plus_a, o.empty_plus_a_eq),
        ] {
            ctx.count(&format!("identity:{name}"));
            if !eq {
                ctx.violation(&format!("identity:{name}:not-equal"), json!({"a": clip(&o.a.text, 600), "sum": clip(&s.text, 600)}));
            }
            match same_listing(ctx, &s.listing, &o.a.listing) {
                Err(what) => ctx.violation(
                    &format!("identity:{name}:listing:{what}"),
                    json!({"a": clip_listing(&o.a.listing, 30), "sum": clip_listing(&s.listing, 30)}),
                ),
                Ok(()) => {
                    if s.listing == o.a.listing && s.text != o.a.text {
                        ctx.violation(&format!("identity:{name}:text"), json!({}));
                    }
                }
            }
            if s.used != o.a.used {
                ctx.violation(&format!("identity:{name}:used-qubits"), json!({}));
            }
        }

        // ---- accounting ------------------------------------------------------------------------------------
        if overlapping_keys > 0 {
            ctx.count("key-overlap-cases");
            ctx.max("overlapping-keys", overlapping_keys as u64);
        }
        let both_bodies = !ma.body.is_empty() && !mb.body.is_empty();
        if both_bodies {
            ctx.count("both-bodies-non-empty");
        }
        if overlapping_keys > 0 || both_bodies {
            ctx.nontrivial(&(describe(&case.a), describe(&case.b)));
        }
        if !o.sum.used.is_empty() {
            ctx.count("used-qubits-non-empty");
        }
        if k < 2 && shard == 0 {
            ctx.sample(
                "pair",
                json!({"overlap": case.overlap,
                       "a": case.a.iter().map(|i| i.desc.clone()).collect::<Vec<_>>(),
                       "b": case.b.iter().map(|i| i.desc.clone()).collect::<Vec<_>>(),
                       "a+b": clip_listing(&o.sum.listing, 40)}),
            );
        }
        if ctx.done() {
            return;
        }
    }
}
