//! C05 — numeric literals are parsed to their exact value or rejected.
//!
//! Value-first oracle: a literal *spelling* is built from a chosen mathematical value (integers
//! as u128 in radix 2/8/10/16 with prefix case, leading zeros and `_` separators; reals from
//! decimal digit strings with optional fraction/exponent forms), placed in an operand position,
//! parsed by the real parser, and the operand that comes out is compared with the value the
//! spelling denotes.  Rejection is always acceptable; a different value, or an integer spelling
//! turning into a real operand (or vice versa), is a violation.

use crate::core::{guarded, Ctx, Rng, Tier};
use crate::props::{PropInfo, DEFAULT};
use quil_rs::expression::{Expression, PrefixExpression, PrefixOperator};
use quil_rs::instruction::{
    ArithmeticOperand, AttributeValue, BinaryOperand, ComparisonOperand, GateSpecification,
    Instruction, PragmaArgument, Qubit, UnresolvedCallArgument,
};
use quil_rs::Program;
use serde_json::json;
use std::str::FromStr;

pub static INFO: PropInfo = PropInfo {
    id: "C05",
    run,
    rule: "value-first: pick a value (boundary values around 2^31, 2^32, 2^53, 2^63, 2^64 and random), spell it as a binary/octal/decimal/hex integer (random prefix case, leading zeros, '_' separators) or as a decimal real (fraction/exponent forms, separators), optionally signed, and place it in one of ~40 operand positions (MOVE/ADD/../comparison/logic/STORE/LOAD/CALL/expression leaves in gates, DEFGATE matrix, DEFWAVEFORM, DEFFRAME attribute, SET-*, DELAY, RAW-CAPTURE, waveform arguments/permutation entries/PRAGMA integers/qubits/DECLARE lengths/indices/OFFSET). distinct = distinct (position, signed spelling); non-trivial = the parser accepted it, so the resulting operand was compared with the value.",
    assumptions: &[
        "Rust's str::parse::<f64> on the separator-free decimal spelling is the correctly rounded reference for reals",
        "integer literals in expression positions may legitimately become the nearest f64 (expressions hold complex doubles only)",
        "rejecting a literal is always acceptable under the property; acceptance rates per position are reported as coverage and required to be non-zero",
    ],
    min_nontrivial: 500,
    required_counters: &[
        "accepted:int-operand", "accepted:real-operand", "accepted:u64-slot", "accepted:expression-leaf",
        "rejected:out-of-range-int-operand", "accepted:real-with-20+-digits",
    ],
    ..DEFAULT
};

#[derive(Clone, Copy, Debug, PartialEq)]
enum Slot {
    /// i64 operand that may also be a real (MOVE, ADD.., comparison, STORE)
    ArithOperand,
    /// i64-only operand (logical instructions)
    IntOperand,
    /// unsigned 64-bit slot
    U64,
    /// expression leaf (complex double)
    Expr,
}

struct Position {
    name: &'static str,
    template: &'static str,
    slot: Slot,
}

const POSITIONS: &[Position] = &[
    Position { name: "MOVE", template: "MOVE ro {}", slot: Slot::ArithOperand },
    Position { name: "ADD", template: "ADD ro {}", slot: Slot::ArithOperand },
    Position { name: "SUB", template: "SUB ro[1] {}", slot: Slot::ArithOperand },
    Position { name: "MUL", template: "MUL ro {}", slot: Slot::ArithOperand },
    Position { name: "DIV", template: "DIV ro {}", slot: Slot::ArithOperand },
    Position { name: "EQ", template: "EQ a b {}", slot: Slot::ArithOperand },
    Position { name: "GE", template: "GE a b {}", slot: Slot::ArithOperand },
    Position { name: "LT", template: "LT a b[2] {}", slot: Slot::ArithOperand },
    Position { name: "STORE", template: "STORE m ro {}", slot: Slot::ArithOperand },
    Position { name: "AND", template: "AND ro {}", slot: Slot::IntOperand },
    Position { name: "IOR", template: "IOR ro {}", slot: Slot::IntOperand },
    Position { name: "XOR", template: "XOR ro {}", slot: Slot::IntOperand },
    Position { name: "SHL", template: "SHL ro {}", slot: Slot::IntOperand },
    Position { name: "ASHR", template: "ASHR ro {}", slot: Slot::IntOperand },
    Position { name: "memref-index", template: "MOVE ro[{}] 1", slot: Slot::U64 },
    Position { name: "LOAD-offset-index", template: "LOAD a m ro[{}]", slot: Slot::U64 },
    Position { name: "qubit", template: "X {}", slot: Slot::U64 },
    Position { name: "measure-qubit", template: "MEASURE {} ro", slot: Slot::U64 },
    Position { name: "DECLARE-length", template: "DECLARE ro BIT[{}]", slot: Slot::U64 },
    Position { name: "OFFSET-count", template: "DECLARE ro REAL[1] SHARING b OFFSET {} BIT", slot: Slot::U64 },
    Position { name: "PRAGMA-int", template: "PRAGMA p a {} b", slot: Slot::U64 },
    Position { name: "permutation-entry", template: "DEFGATE G AS PERMUTATION:\n    {}, 1", slot: Slot::U64 },
    Position { name: "frame-qubit", template: "SET-PHASE {} \"f\" 1.0", slot: Slot::U64 },
    Position { name: "CALL-immediate", template: "CALL f {}", slot: Slot::Expr },
    Position { name: "gate-param", template: "RX({}) 0", slot: Slot::Expr },
    Position { name: "gate-param-2nd", template: "CPHASE(pi, {}) 0 1", slot: Slot::Expr },
    Position { name: "DEFGATE-matrix", template: "DEFGATE G:\n    {}, 0\n    0, 1", slot: Slot::Expr },
    Position { name: "DEFWAVEFORM", template: "DEFWAVEFORM w:\n    {}, 1", slot: Slot::Expr },
    Position { name: "DEFFRAME-attr", template: "DEFFRAME 0 \"f\":\n    SAMPLE-RATE: {}", slot: Slot::Expr },
    Position { name: "SET-PHASE", template: "SET-PHASE 0 \"f\" {}", slot: Slot::Expr },
    Position { name: "SHIFT-FREQUENCY", template: "SHIFT-FREQUENCY 0 \"f\" {}", slot: Slot::Expr },
    Position { name: "DELAY-named", template: "DELAY 0 \"f\" {}", slot: Slot::Expr },
    Position { name: "DELAY-qubit", template: "DELAY 0 {}", slot: Slot::Expr },
    Position { name: "DELAY-bare", template: "DELAY {}", slot: Slot::Expr },
    Position { name: "RAW-CAPTURE", template: "RAW-CAPTURE 0 \"f\" {} ro", slot: Slot::Expr },
    Position { name: "waveform-arg", template: "PULSE 0 \"f\" w(a: {})", slot: Slot::Expr },
    Position { name: "pauli-coeff", template: "DEFGATE G q AS PAULI-SUM:\n    X({}) q", slot: Slot::Expr },
];

#[derive(Debug, Clone)]
enum Observed {
    Int(i128),
    Real(f64),
    /// expression leaf: optional prefix minus, complex number
    Number { negated: bool, re: f64, im: f64 },
    Other(String),
}

fn expr_leaf(e: &Expression) -> Observed {
    match e {
        Expression::Number(c) => Observed::Number { negated: false, re: c.re, im: c.im },
        Expression::Prefix(PrefixExpression { operator: PrefixOperator::Minus, expression }) => {
            match &**expression {
                Expression::Number(c) => Observed::Number { negated: true, re: c.re, im: c.im },
                other => Observed::Other(format!("{other:?}")),
            }
        }
        other => Observed::Other(format!("{other:?}")),
    }
}

fn arith(o: &ArithmeticOperand) -> Observed {
    match o {
        ArithmeticOperand::LiteralInteger(i) => Observed::Int(*i as i128),
        ArithmeticOperand::LiteralReal(r) => Observed::Real(*r),
        ArithmeticOperand::MemoryReference(m) => Observed::Other(format!("{m:?}")),
    }
}

fn observe(pos: &Position, program: &Program) -> Observed {
    let instrs = program.to_instructions();
    let Some(first) = instrs.first() else {
        return Observed::Other("no instruction".into());
    };
    if instrs.len() != 1 {
        return Observed::Other(format!("{} instructions", instrs.len()));
    }
    match (pos.name, first) {
        (_, Instruction::Move(m)) if pos.name == "MOVE" => arith(&m.source),
        (_, Instruction::Arithmetic(a)) => arith(&a.source),
        (_, Instruction::Comparison(c)) => match &c.rhs {
            ComparisonOperand::LiteralInteger(i) => Observed::Int(*i as i128),
            ComparisonOperand::LiteralReal(r) => Observed::Real(*r),
            ComparisonOperand::MemoryReference(m) => Observed::Other(format!("{m:?}")),
        },
        (_, Instruction::Store(s)) => arith(&s.source),
        (_, Instruction::BinaryLogic(b)) => match &b.source {
            BinaryOperand::LiteralInteger(i) => Observed::Int(*i as i128),
            BinaryOperand::MemoryReference(m) => Observed::Other(format!("{m:?}")),
        },
        ("memref-index", Instruction::Move(m)) => Observed::Int(m.destination.index as i128),
        ("LOAD-offset-index", Instruction::Load(l)) => Observed::Int(l.offset.index as i128),
        ("qubit", Instruction::Gate(g)) => match g.qubits.as_slice() {
            [Qubit::Fixed(q)] => Observed::Int(*q as i128),
            other => Observed::Other(format!("{other:?}")),
        },
        ("measure-qubit", Instruction::Measurement(m)) => match &m.qubit {
            Qubit::Fixed(q) => Observed::Int(*q as i128),
            other => Observed::Other(format!("{other:?}")),
        },
        ("DECLARE-length", Instruction::Declaration(d)) => Observed::Int(d.size.length as i128),
        ("OFFSET-count", Instruction::Declaration(d)) => match &d.sharing {
            Some(s) if s.offsets.len() == 1 => Observed::Int(s.offsets[0].offset as i128),
            other => Observed::Other(format!("{other:?}")),
        },
        ("PRAGMA-int", Instruction::Pragma(p)) => match p.arguments.as_slice() {
            [PragmaArgument::Identifier(_), PragmaArgument::Integer(i), PragmaArgument::Identifier(_)] => {
                Observed::Int(*i as i128)
            }
            other => Observed::Other(format!("{other:?}")),
        },
        ("permutation-entry", Instruction::GateDefinition(g)) => match &g.specification {
            GateSpecification::Permutation(p) if p.len() == 2 => Observed::Int(p[0] as i128),
            other => Observed::Other(format!("{other:?}")),
        },
        ("frame-qubit", Instruction::SetPhase(s)) => match s.frame.qubits.as_slice() {
            [Qubit::Fixed(q)] => Observed::Int(*q as i128),
            other => Observed::Other(format!("{other:?}")),
        },
        ("CALL-immediate", Instruction::Call(c)) => match c.arguments.as_slice() {
            [UnresolvedCallArgument::Immediate(c)] => {
                Observed::Number { negated: false, re: c.re, im: c.im }
            }
            other => Observed::Other(format!("{other:?}")),
        },
        ("gate-param", Instruction::Gate(g)) if g.parameters.len() == 1 => expr_leaf(&g.parameters[0]),
        ("gate-param-2nd", Instruction::Gate(g)) if g.parameters.len() == 2 => expr_leaf(&g.parameters[1]),
        ("DEFGATE-matrix", Instruction::GateDefinition(g)) => match &g.specification {
            GateSpecification::Matrix(m) if m.len() == 2 && m[0].len() == 2 => expr_leaf(&m[0][0]),
            other => Observed::Other(format!("{other:?}")),
        },
        ("pauli-coeff", Instruction::GateDefinition(g)) => match &g.specification {
            GateSpecification::PauliSum(p) if p.terms.len() == 1 => expr_leaf(&p.terms[0].expression),
            other => Observed::Other(format!("{other:?}")),
        },
        ("DEFWAVEFORM", Instruction::WaveformDefinition(w)) if w.definition.matrix.len() == 2 => {
            expr_leaf(&w.definition.matrix[0])
        }
        ("DEFFRAME-attr", Instruction::FrameDefinition(f)) => match f.attributes.get("SAMPLE-RATE") {
            Some(AttributeValue::Expression(e)) => expr_leaf(e),
            other => Observed::Other(format!("{other:?}")),
        },
        ("SET-PHASE", Instruction::SetPhase(s)) => expr_leaf(&s.phase),
        ("SHIFT-FREQUENCY", Instruction::ShiftFrequency(s)) => expr_leaf(&s.frequency),
        ("DELAY-named", Instruction::Delay(d)) if d.qubits.len() == 1 && d.frame_names.len() == 1 => {
            expr_leaf(&d.duration)
        }
        ("DELAY-qubit", Instruction::Delay(d)) if d.qubits.len() == 1 && d.frame_names.is_empty() => {
            expr_leaf(&d.duration)
        }
        ("DELAY-bare", Instruction::Delay(d)) if d.qubits.is_empty() && d.frame_names.is_empty() => {
            expr_leaf(&d.duration)
        }
        ("RAW-CAPTURE", Instruction::RawCapture(r)) => expr_leaf(&r.duration),
        ("waveform-arg", Instruction::Pulse(p)) => match p.waveform.parameters.get("a") {
            Some(e) => expr_leaf(e),
            None => Observed::Other("no parameter a".into()),
        },
        (_, other) => Observed::Other(format!("{other:?}")),
    }
}

// ------------------------------------------------------------------------------------------
// Spellings

#[derive(Clone, Debug)]
enum Lit {
    Int { value: u128, spelling: String },
    Real { clean: String, spelling: String },
}

fn insert_separators(rng: &mut Rng, digits: &str) -> String {
    // separators only between or after digits (never leading)
    let mut out = String::new();
    for (i, c) in digits.chars().enumerate() {
        out.push(c);
        if i + 1 < digits.len() && rng.chance(1, 6) {
            out.push('_');
            if rng.chance(1, 5) {
                out.push('_');
            }
        }
    }
    out
}

fn spell_int(rng: &mut Rng, value: u128) -> String {
    let radix = *rng.pick(&[10u32, 10, 10, 16, 16, 2, 8]);
    let mut digits = match radix {
        2 => format!("{value:b}"),
        8 => format!("{value:o}"),
        16 => {
            if rng.chance(1, 2) {
                format!("{value:x}")
            } else {
                format!("{value:X}")
            }
        }
        _ => format!("{value}"),
    };
    if rng.chance(1, 5) {
        digits = format!("{}{digits}", "0".repeat(1 + rng.below(3)));
    }
    if rng.chance(1, 4) {
        digits = insert_separators(rng, &digits);
    }
    let prefix = match radix {
        2 => *rng.pick(&["0b", "0B"]),
        8 => *rng.pick(&["0o", "0O"]),
        16 => *rng.pick(&["0x", "0X"]),
        _ => "",
    };
    format!("{prefix}{digits}")
}

const INT_BOUNDARIES: &[u128] = &[
    0, 1, 2, 7, 8, 9, 10, 15, 16, 255, 256, 65535,
    (1 << 31) - 1, 1 << 31, (1 << 31) + 1, (1 << 32) - 1, 1 << 32, (1 << 32) + 1,
    (1 << 53) - 1, 1 << 53, (1 << 53) + 1, (1 << 53) + 2, (1 << 62), (1 << 63) - 1, 1 << 63,
    (1 << 63) + 1, (1 << 64) - 1, 1 << 64, (1 << 64) + 1, 1 << 65, 1 << 100, u128::MAX,
    9007199254740993, 18014398509481985, 4611686018427387905,
];

fn gen_int(rng: &mut Rng) -> Lit {
    let value = match rng.below(10) {
        0..=3 => *rng.pick(INT_BOUNDARIES),
        4 => (rng.next() as u128) + (rng.next() as u128 % 3) * (1u128 << 63),
        5 => (rng.next() >> rng.below(64)) as u128,
        6 => {
            let b = *rng.pick(INT_BOUNDARIES);
            b.wrapping_add(rng.below(5) as u128).wrapping_sub(2)
        }
        _ => rng.below(1000) as u128,
    };
    Lit::Int { value, spelling: spell_int(rng, value) }
}

const REAL_CLEAN: &[&str] = &[
    "1.0", "0.5", "1e300", "1e308", "1.7976931348623157e308", "1.7976931348623159e308", "1e309",
    "4.9e-324", "2.5e-324", "2e-324", "1e-400", ".5", "5.", "0.1", "0.30000000000000004", "1E+2",
    "1e-7", "123456789012345680.0", "9007199254740993.0", "9007199254740992.5", "1e15", "1e16",
    "3.141592653589793", "2.2250738585072014e-308", "2.2250738585072011e-308", "0.0", "0e0",
    "1.e5", "00.5", "1e0005", "18446744073709551616.0", "9223372036854775808.0", "1e22", "1e23",
    "8.5e-5", "0.000001", "100000000000000000000000.0", "6.02214076e23", "1.0e-10",
    // more than 19 significant digits, at and around ties between adjacent doubles
    "9007199254740993.0000000000000000001", "9007199254740992.9999999999999999999",
    "9007199254740993.0", "0.1000000000000000055511151231257827021181583404541015625",
    "1.00000000000000011102230246251565404236316680908203125",
    "1.00000000000000011102230246251565404236316680908203124",
    "1.00000000000000011102230246251565404236316680908203126",
    "0.500000000000000166533453693773481063544750213623046875",
    "123456789012345678901234567890.123456789", "2.22507385850720113605740979670913197593481954635164564e-308",
    "1.7976931348623158079372897140530341507993413271003782693617377898044496829276475094664901797758720709633028641669288791094655554785194040263065748867150582068190890200070838367627385484581771153176447573027006985557136695962284291481986083493647529271907416844436551070434271155969950809304288017790417449779e308",
];

/// Exact decimal expansion of `n * 2^e` (n < 2^64, -1100 <= e <= 80), by schoolbook arithmetic on
/// decimal digits.  Used to spell the exact midpoint between two adjacent doubles.
fn exact_decimal(n: u64, e: i32) -> String {
    // little-endian decimal digits
    let mut digits: Vec<u8> = n.to_string().bytes().rev().map(|b| b - b'0').collect();
    let mul_small = |digits: &mut Vec<u8>, m: u32| {
        let mut carry = 0u32;
        for d in digits.iter_mut() {
            let v = *d as u32 * m + carry;
            *d = (v % 10) as u8;
            carry = v / 10;
        }
        while carry > 0 {
            digits.push((carry % 10) as u8);
            carry /= 10;
        }
    };
    let mut point = 0usize; // number of digits after the decimal point
    if e >= 0 {
        for _ in 0..e {
            mul_small(&mut digits, 2);
        }
    } else {
        for _ in 0..(-e) {
            mul_small(&mut digits, 5);
        }
        point = (-e) as usize;
    }
    while digits.len() <= point {
        digits.push(0);
    }
    let mut s = String::new();
    for (i, d) in digits.iter().enumerate().rev() {
        s.push((b'0' + d) as char);
        if i == point && point > 0 {
            s.push('.');
        }
    }
    s
}

/// A real literal that is hard to round: the exact tie between two adjacent doubles, or a hair
/// above / below it (20..60 significant digits), optionally in exponent notation.
fn hard_real(rng: &mut Rng) -> Lit {
    let mantissa = (1u64 << 52) | (rng.next() >> 12); // 53-bit significand
    let e = rng.range(-75, 20) as i32; // value = mantissa * 2^e, roughly 1e-7 .. 1e22
    // midpoint between mantissa*2^e and (mantissa+1)*2^e = (2*mantissa+1) * 2^(e-1)
    let tie = exact_decimal(2 * mantissa + 1, e - 1);
    let mut clean = match rng.below(4) {
        0 => tie.clone(), // exact tie: round-half-even
        1 => {
            // a hair above the tie
            if tie.contains('.') {
                format!("{tie}{}1", "0".repeat(rng.below(12)))
            } else {
                format!("{tie}.{}1", "0".repeat(rng.below(12)))
            }
        }
        2 => {
            // a hair below the tie (the expansion of a tie with a fraction always ends in 5)
            if tie.contains('.') && tie.ends_with('5') {
                format!("{}4{}", &tie[..tie.len() - 1], "9".repeat(1 + rng.below(12)))
            } else {
                tie.clone()
            }
        }
        _ => {
            // many digits, not near a tie: the exact expansion of a double, truncated to 20..40 digits
            let exact = exact_decimal(mantissa, e);
            let keep = 20 + rng.below(21);
            let sig_start = exact.find(|c: char| c.is_ascii_digit() && c != '0').unwrap_or(0);
            let end = (sig_start + keep + 1).min(exact.len());
            let mut t = exact[..end].to_string();
            if !t.contains('.') {
                // truncated inside the integer part: pad with zeros to keep the magnitude
                t.push_str(&"0".repeat(exact.split('.').next().unwrap_or("").len().saturating_sub(t.len())));
                t.push_str(".0");
            }
            t
        }
    };
    if !clean.contains('.') {
        clean.push_str(".0");
    }
    // optionally move the decimal point and compensate with an exponent
    if rng.chance(1, 3) {
        let shift = rng.range(-20, 20);
        clean = format!("{clean}e{shift}");
        // compensate so that the value is of a similar magnitude (not required for the oracle)
    }
    Lit::Real { clean: clean.clone(), spelling: clean }
}

fn gen_real(rng: &mut Rng) -> Lit {
    if rng.chance(1, 3) {
        return hard_real(rng);
    }
    let clean = match rng.below(4) {
        3 => {
            // around and beyond the largest double, in every lexical form of a real literal
            // (integer part only, both parts, trailing dot, leading dot): the value either is
            // representable (just below the boundary) or must be rejected (overflow)
            let mant = *rng.pick(&["17976931348623157", "17976931348623159", "18", "1", "5", "9", "25", "179769313486231570000001"]);
            let shift = rng.below(mant.len().min(4) + 1); // digits before the '.'
            let (ip, fp) = mant.split_at(shift);
            // value = 0.mant * 10^(shift + e); 0.1797..e309 is the boundary
            let exp10 = match rng.below(6) {
                0 => 309,
                1 => 308,
                2 => 310 + rng.below(20) as i64,
                3 => 400,
                4 => *rng.pick(&[1000i64, 99999, 4000000000]),
                _ => 300 + rng.below(12) as i64,
            };
            let e = exp10 - shift as i64;
            let body = match (ip.is_empty(), rng.below(3)) {
                (true, _) => format!(".{fp}"),
                (false, 0) if fp.is_empty() => format!("{ip}"),
                (false, 1) if fp.is_empty() => format!("{ip}."),
                (false, _) if fp.is_empty() => format!("{ip}.0"),
                (false, _) => format!("{ip}.{fp}"),
            };
            let sign = *rng.pick(&["", "+"]);
            format!("{body}{}{sign}{e}", *rng.pick(&["e", "E"]))
        }
        0 => rng.pick(REAL_CLEAN).to_string(),
        1 => {
            // digits '.' digits [e[+-]digits]
            let ip = rng.below(100_000);
            let fp = rng.below(100_000);
            let mut s = match rng.below(4) {
                0 => format!("{ip}.{fp:05}"),
                1 => format!("{ip}."),
                2 => format!(".{fp}"),
                _ => format!("{ip}"),
            };
            let has_dot = s.contains('.');
            if !has_dot || rng.chance(1, 2) {
                let e = *rng.pick(&["e", "E"]);
                let sign = *rng.pick(&["", "+", "-"]);
                s.push_str(&format!("{e}{sign}{}", rng.below(40)));
            }
            s
        }
        _ => {
            // shortest repr of a random double
            let bits = rng.next();
            let f = f64::from_bits(bits & 0x7FFF_FFFF_FFFF_FFFF);
            if f.is_finite() {
                let s = format!("{f:e}");
                if s.contains('.') || s.contains('e') { s } else { format!("{s}.0") }
            } else {
                "1.5".to_string()
            }
        }
    };
    let spelling = if rng.chance(1, 5) {
        // separators inside digit runs only
        let mut out = String::new();
        let chars: Vec<char> = clean.chars().collect();
        for (i, c) in chars.iter().enumerate() {
            out.push(*c);
            let next_digit = chars.get(i + 1).is_some_and(|n| n.is_ascii_digit());
            if c.is_ascii_digit() && next_digit && rng.chance(1, 5) {
                out.push('_');
            }
        }
        out
    } else {
        clean.clone()
    };
    Lit::Real { clean, spelling }
}

fn check(ctx: &mut Ctx, pos: &Position, lit: &Lit, negative: bool) {
    let (spelling, kind) = match lit {
        Lit::Int { spelling, .. } => (spelling.clone(), "int"),
        Lit::Real { spelling, .. } => (spelling.clone(), "real"),
    };
    let signed = if negative { format!("-{spelling}") } else { spelling.clone() };
    let text = pos.template.replace("{}", &signed);
    if !ctx.begin(&text) {
        return;
    }
    ctx.count(&format!("position:{}", pos.name));
    let parsed = match guarded(|| Program::from_str(&text)) {
        Err(p) => {
            ctx.violation(&p.signature(), json!({"panic": p.to_json(), "position": pos.name}));
            return;
        }
        Ok(r) => r,
    };
    let program = match parsed {
        Err(_) => {
            // rejection is always acceptable; record the class for coverage
            match (lit, pos.slot) {
                (Lit::Int { value, .. }, Slot::ArithOperand | Slot::IntOperand)
                    if (!negative && *value > i64::MAX as u128)
                        || (negative && *value > (i64::MAX as u128) + 1) =>
                {
                    ctx.count("rejected:out-of-range-int-operand")
                }
                (Lit::Int { value, .. }, Slot::U64) if *value > u64::MAX as u128 => {
                    ctx.count("rejected:out-of-range-u64-slot")
                }
                _ => ctx.count(&format!("rejected:other:{kind}:{:?}", pos.slot)),
            }
            return;
        }
        Ok(p) => p,
    };
    ctx.nontrivial(&(pos.name, &signed));
    let observed = observe(pos, &program);
    let sign = if negative { -1i128 } else { 1 };
    let fail = |ctx: &mut Ctx, class: &str, expected: String| {
        ctx.violation(
            &format!("literal-value:{class}"),
            json!({"position": pos.name, "literal": signed, "expected": expected, "observed": format!("{observed:?}")}),
        );
    };
    match (lit, pos.slot) {
        (Lit::Int { value, .. }, Slot::ArithOperand | Slot::IntOperand) => {
            ctx.count("accepted:int-operand");
            match &observed {
                Observed::Int(i) if i128::try_from(*value).is_ok_and(|v| *i == sign * v) => {}
                Observed::Int(_) => fail(ctx, "integer-operand-wrong-value", format!("{}{}", if negative { "-" } else { "" }, value)),
                Observed::Real(_) => fail(ctx, "integer-literal-became-real-operand", format!("integer {value}")),
                _ => fail(ctx, "integer-operand-unexpected-shape", format!("integer {value}")),
            }
        }
        (Lit::Int { value, .. }, Slot::U64) => {
            if negative {
                // a sign is not part of these slots; whatever the parser made of it is out of scope
                ctx.count("accepted:signed-in-unsigned-slot(not-judged)");
                return;
            }
            ctx.count("accepted:u64-slot");
            match &observed {
                Observed::Int(i) if i128::try_from(*value).is_ok_and(|v| *i == v) => {}
                Observed::Int(_) => fail(ctx, "unsigned-slot-wrong-value", format!("{value}")),
                _ => fail(ctx, "unsigned-slot-unexpected-shape", format!("{value}")),
            }
        }
        (Lit::Int { value, .. }, Slot::Expr) => {
            ctx.count("accepted:expression-leaf");
            let want = *value as f64; // u128 -> f64 rounds to nearest
            match &observed {
                Observed::Number { negated, re, im } if *negated == negative && *im == 0.0 && *re == want => {}
                Observed::Number { negated, re, im } if !*negated && negative && *im == 0.0 && *re == -want => {}
                Observed::Number { .. } => fail(ctx, "expression-integer-literal-wrong-value", format!("{}{want:e}", if negative { "-" } else { "" })),
                _ => fail(ctx, "expression-leaf-unexpected-shape", format!("{want:e}")),
            }
        }
        (Lit::Real { clean, .. }, slot) => {
            let want: f64 = match clean.parse::<f64>() {
                Ok(v) => v,
                Err(_) => {
                    ctx.inconclusive("reference-cannot-parse-real-spelling");
                    return;
                }
            };
            if !want.is_finite() {
                fail(ctx, "non-finite-real-accepted", "rejection (value overflows f64)".into());
                return;
            }
            if clean.bytes().filter(u8::is_ascii_digit).count() >= 20 {
                ctx.count("accepted:real-with-20+-digits");
            }
            match slot {
                Slot::ArithOperand => {
                    ctx.count("accepted:real-operand");
                    let w = if negative { -want } else { want };
                    match &observed {
                        Observed::Real(r) if *r == w => {}
                        Observed::Real(_) => fail(ctx, "real-operand-wrong-value", format!("{w:e}")),
                        Observed::Int(_) => fail(ctx, "real-literal-became-integer-operand", format!("real {w:e}")),
                        _ => fail(ctx, "real-operand-unexpected-shape", format!("{w:e}")),
                    }
                }
                Slot::Expr => {
                    ctx.count("accepted:expression-leaf");
                    match &observed {
                        Observed::Number { negated, re, im } if *negated == negative && *im == 0.0 && *re == want => {}
                        Observed::Number { negated, re, im } if !*negated && negative && *im == 0.0 && *re == -want => {}
                        Observed::Number { .. } => fail(ctx, "expression-real-literal-wrong-value", format!("{want:e}")),
                        _ => fail(ctx, "expression-leaf-unexpected-shape", format!("{want:e}")),
                    }
                }
                Slot::IntOperand | Slot::U64 => {
                    // a real literal where only integers are allowed: acceptance means it was
                    // re-interpreted (e.g. split into two tokens); judge only obvious corruption
                    ctx.count("accepted:real-in-integer-slot");
                    fail(ctx, "real-literal-accepted-in-integer-slot", "rejection".into());
                }
            }
        }
    }
}

fn run(ctx: &mut Ctx) {
    let tier = ctx.tier;
    let mut idx = 0u64;
    // boundary battery: every position x boundary integers x {+,-} in the canonical decimal and hex spellings
    for pos in POSITIONS {
        for &v in INT_BOUNDARIES {
            for (k, spelling) in [format!("{v}"), format!("0x{v:X}"), format!("0b{v:b}"), format!("0o{v:o}")]
                .into_iter()
                .enumerate()
            {
                for negative in [false, true] {
                    idx += 1;
                    if !ctx.mine(idx) {
                        continue;
                    }
                    if negative && k > 1 {
                        continue;
                    }
                    check(ctx, pos, &Lit::Int { value: v, spelling: spelling.clone() }, negative);
                }
            }
        }
        for clean in REAL_CLEAN {
            for negative in [false, true] {
                idx += 1;
                if !ctx.mine(idx) {
                    continue;
                }
                check(
                    ctx,
                    pos,
                    &Lit::Real { clean: clean.to_string(), spelling: clean.to_string() },
                    negative,
                );
            }
        }
        if ctx.done() {
            return;
        }
    }
    // random spellings
    let mut rng = ctx.rng(1);
    let n = ctx.share(tier.pick(600_000, 12_000_000));
    for _ in 0..n {
        let pos = &POSITIONS[rng.below(POSITIONS.len())];
        let lit = if rng.chance(3, 5) { gen_int(&mut rng) } else { gen_real(&mut rng) };
        let negative = rng.chance(1, 3);
        check(ctx, pos, &lit, negative);
        if ctx.done() {
            return;
        }
    }
    if ctx.shard == 0 {
        ctx.sample("boundary", json!("MOVE ro 18446744073709551615"));
        let mut r = ctx.global_rng(3);
        for _ in 0..3 {
            let pos = &POSITIONS[r.below(POSITIONS.len())];
            let lit = if r.chance(1, 2) { gen_int(&mut r) } else { gen_real(&mut r) };
            let s = match &lit {
                Lit::Int { spelling, value } => json!({"text": pos.template.replace("{}", spelling), "value": value.to_string()}),
                Lit::Real { spelling, clean } => json!({"text": pos.template.replace("{}", spelling), "value": clean}),
            };
            ctx.sample("random-spelling", s);
        }
    }
    let _ = Tier::Quick;
}
