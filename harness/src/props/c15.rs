//! C15 — gate modifiers, daggers and program unitaries compose correctly.
//!
//! Part A (modifier stacks).  Reference semantics (`model::numeric_gates::apply_mods`), applied
//! outermost-first to the leading qubits: DAGGER = conjugate transpose, CONTROLLED =
//! |0><0| (x) I + |1><1| (x) M, FORKED = |0><0| (x) M(first half of the parameters) +
//! |1><1| (x) M(second half).  The statement is relational ("adding DAGGER conjugate-transposes a
//! gate's unitary", "applies the base gate when the control is 1"), so `M` of the unmodified base
//! gate is the matrix the library itself reports for it (observed through `Gate::to_unitary` in the
//! canonical placement); whether that base matrix equals the specification is C14's business.
//! The reference for the modified gate is then built without any arithmetic (block placement,
//! conjugate transposition, bit-arithmetic lifting), observed through `Gate::to_unitary` for the
//! gate built directly and for the gate built with `Gate::dagger/controlled/forked`.
//! Every observed matrix must also be unitary.
//!
//! Part B (programs).  Random gate-only programs: `Program::to_unitary` must equal the ordered
//! product of the matrices `Gate::to_unitary` reports for its gates (first instruction applied
//! first), must be unitary, and `Program::dagger()` must have the adjoint unitary.

use crate::core::{guarded, Ctx, Rng};
use crate::gen::numeric_gates::{
    all_stacks, random_angle, random_placement, stack_letters, to_mat, GateCase, ParamForm,
};
use crate::model::numeric_gates::{
    apply_mods, gate_shape, lift, param_count, qubit_count, self_check, Mat, Mod, STANDARD_GATES,
};
use crate::props::{PropInfo, DEFAULT};
use quil_rs::instruction::Instruction;
use quil_rs::Program;
use serde_json::json;
use std::collections::HashMap;

pub static INFO: PropInfo = PropInfo {
    id: "C15",
    run,
    rule: "part A: every modifier stack of depth 0..=4 over {DAGGER, CONTROLLED, FORKED} (121 stacks, enumerated completely) x base gates (quick: X, H, RX, PHASE, CNOT, CPHASE, RZ, ISWAP, PSWAP, CCNOT; thorough: all 22 standard gates) that fit into 5 qubits x 3 (quick) / 4 (thorough) seed-dependent injective placements (one into exactly the qubits needed, the others into 5 qubits) x 3 (quick) / 4 (thorough) parameter draws from [-2pi, 2pi]; each observed for the directly constructed gate and for the gate built with Gate::dagger/controlled/forked. part B: random gate-only programs of 1..=6 gates (all 22 standard gates, modifier stacks of depth <= 2) on n <= 4 (quick) / 5 (thorough) qubits, 12000 (quick) / 200000 (thorough) programs. distinct = distinct (gate text, n) / distinct program text; non-trivial = stack depth >= 1 (part A) or program length >= 2 (part B) with a matrix returned.",
    assumptions: &[
        "the unmodified base gate's matrix is taken from the library itself (Gate::to_unitary in the canonical placement k-1..0 of a k-qubit space); its agreement with the specification is C14",
        "FORKED on a gate without parameters forks an empty parameter list (both branches are the base gate)",
        "unitarity and product comparisons use 1e-9 * max(1, largest |entry|) after a perturbation filter (relative 1e-13 on every factor; spread must stay below a tenth of the tolerance)",
    ],
    exhaustive_quick: false,
    exhaustive_thorough: false,
    exhaustive_note: "the space of modifier stacks up to depth 4 is enumerated completely; placements, parameters and programs are sampled",
    min_nontrivial: 1500,
    required_counters: &[
        "A:depth:1", "A:depth:2", "A:depth:3", "A:depth:4", "A:has:D", "A:has:C", "A:has:F",
        "A:mixed-controlled-forked", "A:builder:compared", "A:builder:same-gate-as-direct", "B:program:matrix", "B:dagger:matrix",
        "B:len:6",
    ],
    ..DEFAULT
};

const TOL: f64 = 1e-9;

fn tol_for(m: &Mat) -> f64 {
    TOL * m.max_abs().max(1.0)
}

/// Cache of the library's own matrix for an unmodified base gate at one parameter value.
struct BaseCache {
    map: HashMap<(&'static str, u64), Result<Mat, String>>,
}

impl BaseCache {
    fn get(&mut self, name: &'static str, param: Option<f64>) -> Result<Mat, String> {
        let key = (name, param.map(|p| p.to_bits()).unwrap_or(u64::MAX));
        if let Some(m) = self.map.get(&key) {
            return m.clone();
        }
        let (k, _) = gate_shape(name).ok_or("unknown gate")?;
        let case = GateCase {
            name,
            mods: vec![],
            params: param.map(ParamForm::Num).into_iter().collect(),
            qubits: (0..k).rev().collect(),
        };
        let res = (|| {
            let mut g = case.build_direct()?;
            let r = guarded(move || g.to_unitary(k as u64))
                .map_err(|p| format!("panic: {}", p.message))?
                .map_err(|e| format!("{e}"))?;
            let m = to_mat(&r).ok_or("not square")?;
            if m.n != 1 << k {
                return Err(format!("base matrix has dimension {}", m.n));
            }
            Ok(m)
        })();
        self.map.insert(key, res.clone());
        res
    }
}

fn run(ctx: &mut Ctx) {
    if let Err(e) = self_check() {
        ctx.inconclusive(&format!("model-self-check-failed:{e}"));
        return;
    }
    let mut cache = BaseCache { map: HashMap::new() };
    part_a(ctx, &mut cache);
    if ctx.done() {
        return;
    }
    part_b(ctx);
}

// ---------------------------------------------------------------------------------------------
// Part A: modifier stacks

const QUICK_BASES: &[&str] = &["X", "H", "RX", "PHASE", "CNOT", "CPHASE", "RZ", "ISWAP", "PSWAP", "CCNOT"];

fn part_a(ctx: &mut Ctx, cache: &mut BaseCache) {
    let tier = ctx.tier;
    let bases: &[&'static str] = tier.pick(QUICK_BASES, STANDARD_GATES);
    let n_place = tier.pick(3usize, 4usize);
    let n_draw = tier.pick(3usize, 4usize);
    let stacks = all_stacks(4);

    // a fixed battery of small readable cases first (shard 0 only)
    if ctx.shard == 0 {
        use Mod::{Controlled as C, Dagger as D, Forked as F};
        let num = |xs: &[f64]| xs.iter().map(|x| ParamForm::Num(*x)).collect::<Vec<_>>();
        let battery: Vec<(&'static str, Vec<Mod>, Vec<f64>, Vec<usize>)> = vec![
            ("PSWAP", vec![], vec![1.0], vec![0, 1]),
            ("RX", vec![D], vec![1.0], vec![0]),
            ("X", vec![C], vec![], vec![1, 0]),
            ("PHASE", vec![F], vec![0.0, std::f64::consts::PI], vec![0, 1]),
            ("RX", vec![F, C], vec![1.0, 2.0], vec![0, 1, 2]),
            ("RX", vec![C, F], vec![1.0, 2.0], vec![0, 1, 2]),
            ("RX", vec![C, D, F], vec![1.0, 2.0], vec![0, 1, 2]),
            ("RX", vec![F, C, F], vec![1.0, 2.0, 3.0, 4.0], vec![0, 1, 2, 3]),
            ("RX", vec![C, C, F], vec![1.0, 2.0], vec![0, 1, 2, 3]),
        ];
        for (name, mods, params, qubits) in battery {
            let n = qubits.len();
            let case = GateCase { name, mods, params: num(&params), qubits };
            stack_case(ctx, cache, &case, n);
            if ctx.done() {
                return;
            }
        }
    }

    let mut idx = 0u64;
    for mods in &stacks {
        for name in bases {
            let (k, np) = gate_shape(name).expect("standard gate");
            let kq = qubit_count(k, mods);
            if kq > 5 {
                continue;
            }
            let npar = param_count(np, mods);
            for place in 0..n_place {
                for draw in 0..n_draw {
                    idx += 1;
                    if !ctx.mine(idx) {
                        continue;
                    }
                    // a gate without parameters has nothing to draw: one draw only
                    if npar == 0 && draw > 0 {
                        continue;
                    }
                    // generation is a function of (seed, idx) only
                    let mut rng = ctx.global_rng(1_000_000 + idx);
                    let n = if place == 0 { kq } else { 5 };
                    let qubits = random_placement(&mut rng, kq, n);
                    let params: Vec<ParamForm> =
                        (0..npar).map(|_| ParamForm::Num(random_angle(&mut rng))).collect();
                    let case = GateCase { name, mods: mods.clone(), params, qubits };
                    stack_case(ctx, cache, &case, n);
                    if ctx.done() {
                        return;
                    }
                }
            }
        }
    }
}

fn stack_case(ctx: &mut Ctx, cache: &mut BaseCache, case: &GateCase, n: usize) {
    let text = case.text();
    let desc = json!({"part": "A", "gate": text, "n_qubits": n}).to_string();
    let direct = case.build_direct();
    let built = case.build_with_builders();
    if !ctx.begin(&desc) {
        return;
    }
    let depth = case.mods.len();
    ctx.count(&format!("A:depth:{depth}"));
    ctx.count(&format!("A:base:{}", case.name));
    for (m, tag) in [(Mod::Dagger, "D"), (Mod::Controlled, "C"), (Mod::Forked, "F")] {
        if case.mods.contains(&m) {
            ctx.count(&format!("A:has:{tag}"));
        }
    }
    let mixed = case.mods.contains(&Mod::Controlled) && case.mods.contains(&Mod::Forked);
    if mixed {
        ctx.count("A:mixed-controlled-forked");
    }
    let direct = match direct {
        Ok(g) => g,
        Err(e) => {
            ctx.inconclusive(&format!("gate-constructor-rejected:{e}"));
            return;
        }
    };

    // reference: modifier semantics over the library's own base matrices
    let values = case.param_values();
    let name = case.name;
    let mut base_err: Option<String> = None;
    let mut base = |p: &[f64]| -> Result<Mat, String> {
        let r = cache.get(name, p.first().copied());
        if let Err(e) = &r {
            base_err = Some(e.clone());
        }
        r
    };
    let own_ref = apply_mods(&case.mods, &values, &mut base);
    let own_ref = match own_ref {
        Ok(m) => m,
        Err(e) => {
            // the library gives no matrix for the unmodified base gate: nothing to relate to
            ctx.inconclusive(&format!("no-base-matrix:{}", base_err.unwrap_or(e)));
            return;
        }
    };
    let expected = lift(&own_ref, &case.qubits, n);
    // what an implementation that hands the leading qubits to the modifiers innermost-first
    // would compute; used only to name the root cause of a mismatch
    let reversed: Vec<Mod> = case.mods.iter().rev().copied().collect();
    let mut base2 = |p: &[f64]| cache.get(name, p.first().copied());
    let reversed_expected =
        apply_mods(&reversed, &values, &mut base2).ok().map(|m| lift(&m, &case.qubits, n));

    let mut got_matrix = false;
    // mismatches that are not the stack reversal: (how, diff, row, col, observed entry, expected entry)
    let mut other_mismatches: Vec<(String, f64, usize, usize, String, String)> = Vec::new();
    let mut observe = |ctx: &mut Ctx, gate: &quil_rs::instruction::Gate, how: &str| {
        let mut g = gate.clone();
        match guarded(move || g.to_unitary(n as u64)) {
            Err(p) => {
                ctx.count(&format!("A:{how}:panic"));
                ctx.violation(&p.signature(), json!({"how": how, "panic": p.to_json()}));
            }
            Ok(Err(e)) => {
                ctx.count(&format!("A:{how}:error"));
                ctx.violation(
                    &format!("unexpected-error:{}", error_class(&format!("{e:?}"))),
                    json!({"how": how, "error": format!("{e}")}),
                );
            }
            Ok(Ok(a)) => match to_mat(&a) {
                Some(m) if m.n == expected.n => {
                    got_matrix = true;
                    ctx.count(&format!("A:{how}:matrix"));
                    let (d, r, c) = m.max_abs_diff(&expected);
                    if d > tol_for(&expected) {
                        ctx.count(&format!("A:{how}:mismatch"));
                        let is_reversal = reversed_expected
                            .as_ref()
                            .map(|re| m.max_abs_diff(re).0 <= tol_for(re))
                            .unwrap_or(false);
                        if is_reversal && mixed {
                            ctx.violation(
                                "modifier-order:innermost-modifier-takes-leading-qubit",
                                json!({
                                    "how": how, "stack": stack_letters(&case.mods),
                                    "max_abs_diff": d, "at": [r, c],
                                    "observed_entry": format!("{}", m.at(r, c)),
                                    "expected_entry": format!("{}", expected.at(r, c)),
                                    "matches_reversed_stack": true,
                                    "observed": m.show(), "expected": expected.show(),
                                }),
                            );
                        } else {
                            other_mismatches.push((
                                how.to_string(), d, r, c,
                                format!("{}", m.at(r, c)), format!("{}", expected.at(r, c)),
                            ));
                        }
                    } else {
                        ctx.count(&format!("A:{how}:match"));
                    }
                    // "every computed unitary is unitary"
                    if m.all_finite() {
                        let defect = m.unitarity_defect();
                        if defect > tol_for(&m) * 10.0 {
                            ctx.count(&format!("A:{how}:not-unitary"));
                            ctx.violation(
                                &format!("not-unitary:{}", case.name),
                                json!({"how": how, "unitarity_defect": defect, "matrix": m.show()}),
                            );
                        }
                    } else {
                        ctx.violation(
                            &format!("non-finite-entries:{}", case.name),
                            json!({"how": how}),
                        );
                    }
                }
                _ => {
                    ctx.violation(
                        &format!("wrong-dimension:{how}"),
                        json!({"shape": format!("{:?}", a.dim()), "expected": expected.n}),
                    );
                }
            },
        }
    };

    observe(ctx, &direct, "direct");
    match built {
        Ok(b) => {
            if depth >= 1 {
                ctx.count("A:builder:compared");
                if b == direct {
                    // the builders produced exactly the gate whose matrix was just judged
                    ctx.count("A:builder:same-gate-as-direct");
                } else {
                    ctx.count("A:builder:different-gate");
                    observe(ctx, &b, "builders");
                }
            }
        }
        Err(e) => {
            // the builders refused a well-formed stack (only `forked` can fail)
            ctx.violation(
                &format!("builder-rejected:{}", error_class(&e)),
                json!({"error": e}),
            );
        }
    }
    if !other_mismatches.is_empty() {
        // name the modifier whose semantics is broken: the head of the shortest innermost
        // sub-stack that already disagrees with the reference
        let sig = culprit(cache, case);
        for (how, d, r, c, obs, exp) in other_mismatches {
            let sig = if how == "direct" { sig.clone() } else { format!("{sig}:via-builders-only") };
            ctx.violation(
                &sig,
                json!({
                    "how": how, "stack": stack_letters(&case.mods), "max_abs_diff": d, "at": [r, c],
                    "observed_entry": obs, "expected_entry": exp, "expected_own_matrix": own_ref.show(),
                }),
            );
        }
    }
    if got_matrix && depth >= 1 {
        ctx.nontrivial_input();
    }
    ctx.sample(
        &format!("stack-depth-{depth}"),
        json!({"gate": text, "n_qubits": n, "expected_own_matrix": own_ref.show()}),
    );
}

/// Localise a modifier mismatch: observe the innermost sub-stacks `mods[j..]` (canonical
/// placement, where lifting is the identity) from the inside out; the first one that disagrees
/// with the reference has a correct tail, so its head modifier is the one that misbehaves.
fn culprit(cache: &mut BaseCache, case: &GateCase) -> String {
    let Some((k, np)) = gate_shape(case.name) else {
        return "modifier-mismatch:unknown-base".into();
    };
    let values = case.param_values();
    let name = case.name;
    for j in (0..case.mods.len()).rev() {
        let suffix = &case.mods[j..];
        let kq = qubit_count(k, suffix);
        let npar = param_count(np, suffix);
        if npar > case.params.len() {
            continue;
        }
        let sub = GateCase {
            name,
            mods: suffix.to_vec(),
            params: case.params[..npar].to_vec(),
            qubits: (0..kq).rev().collect(),
        };
        let Ok(mut g) = sub.build_direct() else { continue };
        let observed = guarded(move || g.to_unitary(kq as u64))
            .ok()
            .and_then(|r| r.ok())
            .and_then(|a| to_mat(&a));
        let mut base = |p: &[f64]| cache.get(name, p.first().copied());
        let Ok(reference) = apply_mods(suffix, &values[..npar], &mut base) else { continue };
        let agrees = match &observed {
            Some(m) if m.n == reference.n => m.max_abs_diff(&reference).0 <= tol_for(&reference),
            _ => false,
        };
        if !agrees {
            return format!("modifier-semantics:{}", suffix[0].word());
        }
    }
    "modifier-mismatch:only-in-the-full-placement".into()
}

fn error_class(debug: &str) -> String {
    debug.chars().take_while(|c| c.is_ascii_alphanumeric()).collect()
}

// ---------------------------------------------------------------------------------------------
// Part B: gate-only programs

fn random_gate(rng: &mut Rng, n: usize) -> GateCase {
    loop {
        let name = *rng.pick(STANDARD_GATES);
        let (k, np) = gate_shape(name).expect("standard gate");
        let depth = match rng.below(10) {
            0..=4 => 0,
            5..=7 => 1,
            _ => 2,
        };
        let mods: Vec<Mod> = (0..depth)
            .map(|_| *rng.pick(&[Mod::Dagger, Mod::Dagger, Mod::Controlled, Mod::Forked]))
            .collect();
        let kq = qubit_count(k, &mods);
        if kq > n {
            continue;
        }
        let qubits = random_placement(rng, kq, n);
        let params = (0..param_count(np, &mods))
            .map(|_| {
                if rng.chance(1, 8) {
                    *rng.pick(&[ParamForm::Pi, ParamForm::PiDiv(2.0), ParamForm::Num(0.0), ParamForm::Neg(1.25)])
                } else {
                    ParamForm::Num(random_angle(rng))
                }
            })
            .collect();
        return GateCase { name, mods, params, qubits };
    }
}

fn part_b(ctx: &mut Ctx) {
    let tier = ctx.tier;
    let n_max = tier.pick(4usize, 5usize);
    let budget = ctx.share(tier.pick(60_000, 400_000));
    let mut rng = ctx.rng(2);
    for _ in 0..budget {
        let n = 1 + rng.below(n_max);
        let len = 1 + rng.below(6);
        let gates: Vec<GateCase> = (0..len).map(|_| random_gate(&mut rng, n)).collect();
        let pert_seed = rng.next();
        program_case(ctx, &gates, n, pert_seed);
        if ctx.done() {
            return;
        }
    }
}

/// Relative entry-wise perturbation of a matrix (conditioning filter).
fn perturbed(m: &Mat, rng: &mut Rng, rel: f64) -> Mat {
    Mat::from_fn(m.n, |r, c| m.at(r, c) * (1.0 + rel * (rng.f64() * 2.0 - 1.0)))
}

fn program_case(ctx: &mut Ctx, gates: &[GateCase], n: usize, pert_seed: u64) {
    let lines: Vec<String> = gates.iter().map(|g| g.text()).collect();
    let text = lines.join("\n");
    let desc = json!({"part": "B", "program": text, "n_qubits": n}).to_string();
    let built: Result<Vec<_>, String> = gates.iter().map(|g| g.build_direct()).collect();
    if !ctx.begin(&desc) {
        return;
    }
    ctx.count(&format!("B:len:{}", gates.len()));
    ctx.count(&format!("B:n:{n}"));
    let built = match built {
        Ok(b) => b,
        Err(e) => {
            ctx.inconclusive(&format!("gate-constructor-rejected:{e}"));
            return;
        }
    };

    // the library's matrix for every gate on its own
    let mut factors: Vec<Mat> = Vec::new();
    let dim = 1usize << n;
    for (g, case) in built.iter().zip(gates) {
        let mut gc = g.clone();
        match guarded(move || gc.to_unitary(n as u64)) {
            Err(p) => {
                ctx.violation(&p.signature(), json!({"gate": case.text(), "panic": p.to_json()}));
                return;
            }
            Ok(Err(e)) => {
                ctx.count("B:gate:error");
                ctx.violation(
                    &format!("unexpected-error:{}", error_class(&format!("{e:?}"))),
                    json!({"gate": case.text(), "error": format!("{e}")}),
                );
                return;
            }
            Ok(Ok(a)) => match to_mat(&a) {
                Some(m) if m.n == dim => factors.push(m),
                _ => {
                    ctx.violation("wrong-dimension:gate-in-program", json!({"gate": case.text()}));
                    return;
                }
            },
        }
    }
    // every computed unitary is unitary (per gate)
    let mut all_factors_unitary = true;
    for (m, case) in factors.iter().zip(gates) {
        if !m.all_finite() || m.unitarity_defect() > tol_for(m) * 10.0 {
            all_factors_unitary = false;
            ctx.count("B:gate:not-unitary");
            ctx.violation(
                &format!("not-unitary:{}", case.name),
                json!({"gate": case.text(), "unitarity_defect": m.unitarity_defect()}),
            );
        }
    }

    // ordered product: the first instruction is applied first, so U = U_last ... U_2 U_1
    let product = |fs: &[Mat]| -> Mat {
        let mut u = Mat::eye(dim);
        for f in fs {
            u = f.mul(&u);
        }
        u
    };
    let expected = product(&factors);
    let mut prng = Rng::new(pert_seed);
    let mut spread = 0.0f64;
    for _ in 0..4 {
        let pf: Vec<Mat> = factors.iter().map(|f| perturbed(f, &mut prng, 1e-13)).collect();
        spread = spread.max(product(&pf).max_abs_diff(&expected).0);
    }
    let tol = tol_for(&expected);
    if !expected.all_finite() || spread > tol / 10.0 {
        ctx.inconclusive("ill-conditioned-product");
        return;
    }

    // Program::to_unitary
    let instrs: Vec<Instruction> = built.iter().cloned().map(Instruction::Gate).collect();
    let program = {
        let instrs = instrs.clone();
        guarded(move || {
            let mut p = Program::new();
            for i in instrs {
                p.add_instruction(i);
            }
            p
        })
    };
    let program = match program {
        Ok(p) => p,
        Err(p) => {
            ctx.violation(&p.signature(), json!({"stage": "build program", "panic": p.to_json()}));
            return;
        }
    };
    let pu = {
        let p = program.clone();
        guarded(move || p.to_unitary(n as u64))
    };
    let observed = match pu {
        Err(p) => {
            ctx.violation(&p.signature(), json!({"stage": "Program::to_unitary", "panic": p.to_json()}));
            return;
        }
        Ok(Err(e)) => {
            ctx.count("B:program:error");
            ctx.violation(
                "program-unitary-error-although-every-gate-has-a-matrix",
                json!({"error": format!("{e}")}),
            );
            return;
        }
        Ok(Ok(a)) => match to_mat(&a) {
            Some(m) if m.n == dim => m,
            _ => {
                ctx.violation("wrong-dimension:program", json!({"shape": format!("{:?}", a.dim())}));
                return;
            }
        },
    };
    ctx.count("B:program:matrix");
    let (d, r, c) = observed.max_abs_diff(&expected);
    if d > tol {
        ctx.count("B:program:product-mismatch");
        // does it look like the product in the opposite order?
        let mut rev = factors.clone();
        rev.reverse();
        let reversed_order = product(&rev).max_abs_diff(&observed).0 <= tol;
        ctx.violation(
            if reversed_order { "program-product:reverse-order" } else { "program-product:mismatch" },
            json!({
                "max_abs_diff": d, "at": [r, c],
                "observed_entry": format!("{}", observed.at(r, c)),
                "expected_entry": format!("{}", expected.at(r, c)),
            }),
        );
    } else {
        ctx.count("B:program:product-match");
    }
    if all_factors_unitary && observed.all_finite() && observed.unitarity_defect() > tol * 10.0 {
        ctx.violation(
            "not-unitary:program-of-unitary-gates",
            json!({"unitarity_defect": observed.unitarity_defect()}),
        );
    }

    // Program::dagger
    let pd = {
        let p = program.clone();
        guarded(move || p.dagger().map(|d| d.to_unitary(n as u64)))
    };
    match pd {
        Err(p) => {
            ctx.violation(&p.signature(), json!({"stage": "Program::dagger", "panic": p.to_json()}));
        }
        Ok(Err(e)) => {
            ctx.count("B:dagger:error");
            ctx.violation("dagger-rejected-gate-only-program", json!({"error": format!("{e}")}));
        }
        Ok(Ok(Err(e))) => {
            ctx.count("B:dagger:unitary-error");
            ctx.violation("dagger-program-has-no-unitary", json!({"error": format!("{e}")}));
        }
        Ok(Ok(Ok(a))) => match to_mat(&a) {
            Some(m) if m.n == dim => {
                ctx.count("B:dagger:matrix");
                let want = observed.adjoint();
                let (d, r, c) = m.max_abs_diff(&want);
                if d > tol {
                    ctx.count("B:dagger:mismatch");
                    ctx.violation(
                        "program-dagger-not-adjoint",
                        json!({
                            "max_abs_diff": d, "at": [r, c],
                            "observed_entry": format!("{}", m.at(r, c)),
                            "expected_entry": format!("{}", want.at(r, c)),
                        }),
                    );
                } else {
                    ctx.count("B:dagger:match");
                }
            }
            _ => ctx.violation("wrong-dimension:dagger-program", json!({})),
        },
    }

    if gates.len() >= 2 {
        ctx.nontrivial_input();
    }
    if gates.len() >= 3 {
        ctx.sample("program", json!({"program": text, "n_qubits": n}));
    }
}
