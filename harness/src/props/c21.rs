//! C21 — the gate-sequence source map matches the expansion; both entry points agree.
//!
//! Second monitor over exactly the executions of C20 (`c20::run_shared`: same generator, same
//! seed stream, all 8 filters, both entry points).  Judged here:
//!
//! * `expand_defgate_sequences` and `expand_defgate_sequences_with_source_map` return `==`
//!   programs, or errors of the same class;
//! * the returned source map has exactly one entry per source body instruction, in order;
//! * `Unmodified(t)` ⇒ the output instruction `t` is identical to the source instruction (top
//!   level: `==` with the real source instruction; nested levels: the image of the definition's
//!   element — same gate name, modifiers and operand counts; whether the substituted operands
//!   are right is judged by C20, so that one substitution defect is not reported twice);
//! * `Rewritten` ranges are increasing, contiguous (each starts where the previous entry ended),
//!   their length is the number of instructions the model says the invocation produced, and the
//!   union of all entries is the whole output body;
//! * nested maps satisfy the same invariants relative to `0..len(range)` of their parent, have one
//!   entry per element of the definition used, and follow the model's nested expansion;
//! * `list_sources` / `list_targets` (by instruction index) are inverse of each other on every
//!   level.
//! Only the first broken invariant of a case is reported (one root cause, one signature);
//! signatures of nested levels carry the suffix `:nested`.

use crate::core::Ctx;
use crate::props::c20::{run_shared, Which};
use crate::props::{PropInfo, DEFAULT};

pub static INFO: PropInfo = PropInfo {
    id: "C21",
    run,
    rule: "same executions as C20 (random programs over sequence-definition names {A,B,C}, all 8 selection filters, both entry points; one case = (program, filter)). distinct = distinct (program text, filter); non-trivial = expand_defgate_sequences_with_source_map returned a source map containing >= 1 Rewritten entry (so ranges, nesting and the inverse queries are actually exercised).",
    assumptions: &[
        "the number of instructions an invocation produces and the substituted elements of nested levels are taken from the reference model (model::seq_model); when the model expects an error but the library returns a map, only the model-free invariants are checked (the disagreement itself belongs to C20)",
        "the definition an expansion names (source_signature) is not observable through the public Rust API and is not judged",
        "list_sources/list_targets are queried by instruction index only (GateSignature is crate-private)",
    ],
    crash_is_violation: false,
    min_nontrivial: 2000,
    required_counters: &[
        "agreement:both-expanded",
        "agreement:both-error",
        "map:entries-rewritten",
        "map:entries-rewritten-nested",
        "map:entries-unmodified-nested",
        "map:entries-unmodified-top-level",
        "map:empty-ranges",
        "map:list_sources/list_targets-queries",
    ],
    watchdog_s: 120,
    ..DEFAULT
};

fn run(ctx: &mut Ctx) {
    run_shared(ctx, Which::C21)
}
