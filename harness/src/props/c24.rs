//! C24 — frame conflicts are ordered and every frame edge is justified.
//!
//! With F(i) = the implementation's own `matching_frames(i)` (used, blocked) and timed(i) =
//! `DefaultHandler::is_scheduled(i)`, conflict(i, j) <=> used(i) ∩ (used(j) ∪ blocked(j)) ≠ ∅ or
//! used(j) ∩ blocked(i) ≠ ∅.  For every scheduled block:
//!   * every conflicting pair i < j of RF-control instructions has j reachable from i through edges
//!     carrying `StableOrdering`, and — if both are timed — through edges carrying `Scheduled`;
//!   * every `StableOrdering` / `Scheduled` edge between two RF-control instruction nodes joins a
//!     conflicting pair, and a `Scheduled` edge joins two timed instructions (edges at the block
//!     start / end are the "block boundaries" the statement allows);
//!   * hence instructions that only block the same frames have no direct frame edge.
//! Queue level (hook `drive_frame_queue`): as C23(a) for `InstructionFrameInteraction`, including
//! the implicit block-start initial user.

use crate::core::{guarded, Ctx};
use crate::gen::sched_prog::{
    decode_sequence, random_body, random_header, standard_header, BodyMix, Pool,
};
use crate::model::sched_model::{queue_guarantee, queue_model, reachability, Access};
use crate::props::sched_common::{run_graph_case, BlockObs};
use crate::props::{PropInfo, DEFAULT};
use quil_rs::program::scheduling::verif_hooks::{drive_frame_queue, InstructionFrameInteraction};
use quil_rs::program::scheduling::ScheduledGraphNode;
use serde_json::json;
use std::collections::BTreeSet;

pub static INFO: PropInfo = PropInfo {
    id: "C24",
    run,
    rule: "(a) graph level: every block of 1..=3 instructions over the 24-instruction RF/classical alphabet of C22 under a fixed header (5 of 8 frames on qubits {0,1,2} x names {a,b} defined), plus random multi-block programs of 1..=10 instructions from a 150-instruction pool under random frame subsets; judged per scheduled block; distinct = (program text, block); non-trivial = block with at least one pair of RF-control instructions where one uses a frame the other uses or blocks. (b) queue level: every sequence of 1..=8 (thorough 1..=10) interactions over {Blocking, Using} x {same node, next node} driven through the real DependencyQueue<InstructionFrameInteraction>.",
    assumptions: &[
        "\"uses / blocks a frame\" is taken from DefaultHandler::matching_frames (its correctness is C26's subject); \"timed\" is DefaultHandler::is_scheduled",
        "\"ordering edges\" = edges whose label set contains StableOrdering, \"timed edges\" = edges whose label set contains Scheduled",
        "StableOrdering / Scheduled edges with an end at BlockStart or BlockEnd are the block-boundary edges the statement allows; such edges between an RF-control and a non-RF instruction node are only counted (expected 0)",
    ],
    exhaustive_quick: false,
    exhaustive_thorough: false,
    exhaustive_note: "the 14 424 blocks of length <= 3 and the queue-level sequence space are enumerated completely; random programs are sampled",
    min_nontrivial: 1000,
    required_counters: &[
        "pair:use-use",
        "pair:use-block",
        "pair:block-block-only",
        "pair:conflict-both-timed",
        "pair:conflict-with-untimed",
        "frame-edge:joins-conflicting-pair",
        "queue:sequences",
        "queue:step:use-with-blockers-drained",
    ],
    ..DEFAULT
};

// ---------------------------------------------------------------------------------------------
// graph level

fn judge_graph(ctx: &mut Ctx, b: &BlockObs, key: &str) {
    let total = b.n + 2;
    let stable: Vec<(usize, usize)> = b.edges.iter().filter(|e| e.stable).map(|e| (e.from, e.to)).collect();
    let sched: Vec<(usize, usize)> = b.edges.iter().filter(|e| e.scheduled).map(|e| (e.from, e.to)).collect();
    let reach_stable = reachability(total, &stable);
    let reach_sched = reachability(total, &sched);
    let mut conflicts = 0u64;
    for i in 0..b.n {
        for j in (i + 1)..b.n {
            let (a, c) = (&b.instrs[i], &b.instrs[j]);
            if !(a.rf && c.rf) {
                continue;
            }
            let use_use = a.used.iter().any(|f| c.used.contains(f));
            let use_block = a.used.iter().any(|f| c.blocked.contains(f))
                || c.used.iter().any(|f| a.blocked.contains(f));
            let block_block = a.blocked.iter().any(|f| c.blocked.contains(f));
            if !(use_use || use_block) {
                if block_block {
                    ctx.count("pair:block-block-only");
                }
                continue;
            }
            conflicts += 1;
            let pair = if use_use { "use-use" } else { "use-block" };
            ctx.count(&format!("pair:{pair}"));
            if !reach_stable[i + 1][j + 1] {
                ctx.violation(
                    &format!("conflicting-pair-not-ordered-by-stable-ordering-edges:{pair}"),
                    json!({"block": b.to_json(), "earlier": b.pos_name(i + 1), "later": b.pos_name(j + 1),
                           "earlier_frames": {"used": a.used, "blocked": a.blocked}, "later_frames": {"used": c.used, "blocked": c.blocked}}),
                );
            }
            if a.timed && c.timed {
                ctx.count("pair:conflict-both-timed");
                if !reach_sched[i + 1][j + 1] {
                    ctx.violation(
                        &format!("timed-conflicting-pair-not-ordered-by-scheduled-edges:{pair}"),
                        json!({"block": b.to_json(), "earlier": b.pos_name(i + 1), "later": b.pos_name(j + 1),
                               "earlier_frames": {"used": a.used, "blocked": a.blocked}, "later_frames": {"used": c.used, "blocked": c.blocked}}),
                    );
                }
            } else {
                ctx.count("pair:conflict-with-untimed");
            }
        }
    }
    for e in &b.edges {
        if !(e.stable || e.scheduled) {
            continue;
        }
        if e.from == 0 || e.to == b.n + 1 || e.from > b.n || e.to == 0 {
            ctx.count("frame-edge:at-block-boundary");
            continue;
        }
        let (i, j) = (e.from - 1, e.to - 1);
        let (a, c) = (&b.instrs[i], &b.instrs[j]);
        if !(a.rf && c.rf) {
            ctx.count("frame-edge:between-instructions-not-both-rf(not judged)");
            continue;
        }
        for (present, label) in [(e.stable, "stable-ordering"), (e.scheduled, "scheduled")] {
            if !present {
                continue;
            }
            if b.frame_conflict(i, j) {
                ctx.count("frame-edge:joins-conflicting-pair");
            } else {
                let block_block = a.blocked.iter().any(|f| c.blocked.contains(f));
                let why = if block_block { "pair-only-blocks-common-frames" } else { "pair-shares-no-frame" };
                ctx.violation(
                    &format!("frame-edge-between-non-conflicting-pair:{label}:{why}"),
                    json!({"block": b.to_json(), "edge": format!("{}->{}", b.pos_name(e.from), b.pos_name(e.to)),
                           "from_frames": {"used": a.used, "blocked": a.blocked}, "to_frames": {"used": c.used, "blocked": c.blocked}}),
                );
            }
        }
        if e.scheduled && !(a.timed && c.timed) {
            ctx.violation(
                "scheduled-edge-at-untimed-instruction",
                json!({"block": b.to_json(), "edge": format!("{}->{}", b.pos_name(e.from), b.pos_name(e.to))}),
            );
        }
    }
    if conflicts > 0 {
        ctx.nontrivial(key);
        ctx.sample("block-with-frame-conflicts", b.to_json());
    }
    ctx.max("conflicting-pairs-per-block", conflicts);
}

// ---------------------------------------------------------------------------------------------
// queue level

fn decode_interactions(len: usize, mut code: u64) -> Vec<Access> {
    let mut v = Vec::with_capacity(len);
    let mut node = 0i64;
    for k in 0..len {
        let (using, same) = if k == 0 {
            let s = code % 2;
            code /= 2;
            (s == 1, false)
        } else {
            let s = code % 4;
            code /= 4;
            (s % 2 == 1, s >= 2)
        };
        if k > 0 && !same {
            node += 1;
        }
        v.push(Access { node, write: using, tag: 0 });
    }
    v
}

fn describe(accesses: &[Access]) -> String {
    let parts: Vec<String> = accesses
        .iter()
        .map(|a| format!("{}{}", if a.write { "U" } else { "B" }, a.node))
        .collect();
    format!("frame-queue: {}", parts.join(" "))
}

fn node_id(n: ScheduledGraphNode) -> i64 {
    match n {
        ScheduledGraphNode::BlockStart => -1,
        ScheduledGraphNode::InstructionIndex(k) => k as i64,
        ScheduledGraphNode::BlockEnd => i64::MAX,
    }
}

fn queue_case(ctx: &mut Ctx, accesses: &[Access]) {
    let input = describe(accesses);
    if !ctx.begin(&input) {
        return;
    }
    ctx.count("queue:sequences");
    let driven: Vec<(ScheduledGraphNode, InstructionFrameInteraction)> = accesses
        .iter()
        .map(|a| {
            (
                ScheduledGraphNode::InstructionIndex(a.node as usize),
                if a.write { InstructionFrameInteraction::Using } else { InstructionFrameInteraction::Blocking },
            )
        })
        .collect();
    let (steps, pending) = match guarded(|| drive_frame_queue(&driven)) {
        Ok(x) => x,
        Err(p) => {
            ctx.violation(&format!("queue-frame:{}", p.signature()), json!({"panic": p.to_json()}));
            return;
        }
    };
    let (model_steps, model_pending) = queue_model(Some(-1), accesses, true);
    if steps.len() != accesses.len() {
        ctx.violation("queue-frame:wrong-number-of-steps", json!({"steps": steps.len()}));
        return;
    }
    let name = |n: i64| if n == -1 { "block-start" } else { "instruction" };
    let mut reported: Vec<BTreeSet<i64>> = Vec::new();
    for (k, (got, want)) in steps.iter().zip(model_steps.iter()).enumerate() {
        let got_set: BTreeSet<i64> = got.iter().map(|n| node_id(*n)).collect();
        let want_set: BTreeSet<i64> = want.iter().map(|d| d.1).collect();
        let acc = if accesses[k].write { "use" } else { "block" };
        if accesses[k].write && want_set.len() >= 2 {
            ctx.count("queue:step:use-with-blockers-drained");
        }
        for d in want_set.difference(&got_set) {
            ctx.violation(
                &format!("queue-frame:missing-dependency-on-{}-for-{acc}", name(*d)),
                json!({"step": k, "expected": format!("{want_set:?}"), "reported": format!("{got_set:?}")}),
            );
        }
        for d in got_set.difference(&want_set) {
            ctx.violation(
                &format!("queue-frame:extra-dependency-on-{}-for-{acc}", name(*d)),
                json!({"step": k, "expected": format!("{want_set:?}"), "reported": format!("{got_set:?}")}),
            );
        }
        reported.push(got_set);
    }
    let got_pending: BTreeSet<i64> = pending.iter().map(|n| node_id(*n)).collect();
    let want_pending: BTreeSet<i64> = model_pending.iter().map(|d| d.1).collect();
    if got_pending != want_pending {
        let dir = if want_pending.difference(&got_pending).next().is_some() { "missing" } else { "extra" };
        ctx.violation(
            &format!("queue-frame:pending-{dir}"),
            json!({"expected": format!("{want_pending:?}"), "reported": format!("{got_pending:?}")}),
        );
    }
    if let Err(clause) = queue_guarantee(Some(-1), accesses, &reported) {
        ctx.violation(&format!("queue-frame:guarantee:{clause}"), json!({"reported": format!("{reported:?}")}));
    }
    let distinct_nodes = accesses.iter().map(|a| a.node).collect::<BTreeSet<_>>().len();
    if accesses.iter().any(|a| a.write) && distinct_nodes >= 2 {
        ctx.nontrivial(&input);
    }
    ctx.max("queue:sequence-length", accesses.len() as u64);
}

fn run(ctx: &mut Ctx) {
    let tier = ctx.tier;
    let mut idx = 0u64;

    // queue level
    let max_len = tier.pick(8usize, 10usize);
    for len in 1..=max_len {
        let total = 2u64 * 4u64.pow(len as u32 - 1);
        for code in 0..total {
            idx += 1;
            if !ctx.mine(idx) {
                continue;
            }
            queue_case(ctx, &decode_interactions(len, code));
            if ctx.done() {
                return;
            }
        }
    }
    if ctx.shard == 0 {
        ctx.sample("queue-sequence", json!(describe(&decode_interactions(7, 4321))));
    }

    // graph level
    let pool = match Pool::new() {
        Ok(p) => p,
        Err(e) => {
            ctx.inconclusive(&format!("generator: {e}"));
            return;
        }
    };
    let mut judge = |ctx: &mut Ctx, b: &BlockObs, key: &str| judge_graph(ctx, b, key);
    let header = standard_header(&pool);
    for len in 1..=3usize {
        let total = pool.alphabet24.len().pow(len as u32);
        for code in 0..total {
            idx += 1;
            if !ctx.mine(idx) {
                continue;
            }
            let mut case = header.clone();
            case.body = decode_sequence(&pool.alphabet24, len, code);
            run_graph_case(ctx, &pool, &case, "workload:exhaustive-blocks<=3", &mut judge);
            if ctx.done() {
                return;
            }
        }
    }
    let mut rng = ctx.rng(1);
    let n = ctx.share(tier.pick(750_000, 6_000_000));
    for k in 0..n {
        let mut case = random_header(&pool, &mut rng, false, false);
        let mix = match k % 3 {
            0 => BodyMix { rf: 10, classical: 1, control: 1, gates: 0 },
            1 => BodyMix { rf: 10, classical: 0, control: 0, gates: 0 },
            _ => BodyMix { rf: 6, classical: 3, control: 1, gates: 0 },
        };
        case.body = random_body(&pool, &mut rng, 10, mix);
        run_graph_case(ctx, &pool, &case, "workload:random-programs", &mut judge);
        if ctx.done() {
            return;
        }
    }
}
