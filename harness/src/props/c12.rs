//! C12 — expression simplification preserves the expression's value.
//!
//! For every generated tree `e`: `Expression::simplify` (in place) and `into_simplified` are run on
//! the real expression.  Checked:
//!  * both entry points give the same result,
//!  * the result is not the symbolic constant `pi` (root only: a depth-limited simplifier may
//!    legitimately leave `pi` inside an unsimplified subtree),
//!  * the result mentions no variable / memory reference that `e` does not mention,
//!  * for each sampled assignment where `e.evaluate(..)` is finite, `simplified.evaluate(..)` is
//!    within 1e-6*max(1,|a|) of it.  A differing point is asserted only if the reference
//!    evaluator's conditioning filter (DESIGN §3.3, eta = 1e-10 = the simplifier's own `is_zero`
//!    threshold, zero band (0,1e-9), no non-finite / huge intermediate) calls it well defined and
//!    well conditioned; otherwise it is inconclusive.
//!  * for constant trees the folded constant is also observed through `Gate::to_unitary`
//!    (`RX(e) 0` against `RX(<evaluate(e)>) 0`) and `CalibrationIdentifier::matches`
//!    (a calibration `RX(c) 0` may match `RX(e) 0` only if c is the value of e).
//!
//! Signatures: a failing tree is reduced (failing subtree, subtrees replaced by fresh atoms or by
//! their own simplified form while the failure persists) and the signature is the shape of the
//! reduced witness with atoms and non-zero literals abstracted, e.g. `value-changed:(_/Neg(_))`.

use crate::core::{guarded, hash_of, Ctx, Rng};
use crate::gen::expr_gen::{inf, leaves_c12, mem, num, pre, random_tree, var, Depth2, InOp, LeafProfile, PreOp, Tree};
use crate::model::expr_eval::{abs, assess, c, close, generic_env, random_env, Env, Filter, Verdict, C};
use crate::props::{PropInfo, DEFAULT};
use quil_rs::expression::Expression;
use quil_rs::instruction::{CalibrationIdentifier, Gate, Qubit};
use quil_rs::quil::Quil;
use serde_json::{json, Value};
use std::collections::HashMap;

pub static INFO: PropInfo = PropInfo {
    id: "C12",
    run,
    rule: "inputs: (a) every expression tree of depth <= 2 over the 10-leaf alphabet {0, 1, -1, 2, 0.5, 2i, pi, %x, %y, m[0]} x 5 functions x 2 prefix x 5 infix operators (1.69 M trees, enumerated completely in both tiers; literals are dyadic so constant folding is exact), (b) random trees up to depth 6 over dyadic literals (real, imaginary, complex, negative), pi, 4 variables, 5 memory cells, (c) random +,-,*,/ trees of depth <= 4 whose leaves come from a pool of only 2-4 atoms so that equal subterms (the precondition of the factoring / cancelling / affine-combination rewrites) are frequent, (d) directed rule shapes: (P1 + b1) +/- (P2 + b2), P1 +/- P2, P1 / P2 and (P1 * P2) with P = x, x*a, a*x in every operand orientation and every summand order. Each tree is simplified with Expression::simplify and into_simplified and both original and result are evaluated with Expression::evaluate under 3 assignments (generic values in 0.3..3, one with complex variables; one random assignment for random trees); constant trees are additionally pushed through Gate::to_unitary and CalibrationIdentifier::matches. Additionally every innermost node that applies one operator directly to literals is simplified and evaluated on its own and must agree with its evaluation (no conditioning filter there: same operation, same exact operands), and a whole tree of that form is asserted without the filter. distinct = distinct tree; non-trivial = the simplifier changed the tree (a rewrite or folding fired).",
    assumptions: &[
        "value preservation is asserted only where the original evaluates to a finite value and, when the two evaluations differ by more than 1e-6*max(1,|a|), the reference evaluator's perturbation filter (rel 1e-11, abs 1e-10, K=16, no intermediate that is non-finite, larger than 1e100 or inside the simplifier's zero band (0,1e-9)) classifies the point as well defined and well conditioned",
        "'never returns pi' is checked at the root of the result only",
    ],
    exhaustive_quick: false,
    exhaustive_thorough: false,
    exhaustive_note: "sub-space (a) (all trees of depth <= 2 over the 10-leaf alphabet) is enumerated completely; (b), (c), (d) are sampled",
    crash_is_violation: false,
    min_nontrivial: 100_000,
    required_counters: &[
        "workload:depth2-exhaustive",
        "workload:random-depth6",
        "workload:shared-subterm",
        "workload:rule-shapes",
        "innermost-constant-operation:checked",
        "points:preserved",
        "result:changed",
        "result:unchanged",
        "entry:to_unitary:agrees",
        "entry:calibration:matches-correct-constant",
        "entry:calibration:rejects-wrong-constant",
    ],
    watchdog_s: 120,
    ..DEFAULT
};

const TOL: f64 = 1e-6;

struct Assignment {
    env: Env,
    vars: HashMap<String, C>,
    mem: HashMap<String, Vec<f64>>,
}

impl Assignment {
    fn new(env: Env) -> Self {
        let vars = env.var_map();
        let mem = env.mem_map();
        Assignment { env, vars, mem }
    }
}

fn c_json(v: C) -> Value {
    json!([v.re, v.im])
}

fn finite(v: C) -> bool {
    v.re.is_finite() && v.im.is_finite()
}

fn quil(e: &Expression) -> String {
    guarded(|| e.to_quil_or_debug()).unwrap_or_else(|_| "<unprintable>".into())
}

/// Result of comparing original and simplified expression at one assignment.
enum Point {
    /// original not finite / not evaluable: outside the property's quantifier
    OutOfScope(&'static str),
    Preserved,
    Inconclusive(&'static str),
    Violated(Value),
    Panicked(String, Value),
}

fn compare_at(tree: &Tree, expr: &Expression, simplified: &Expression, a: &Assignment, seed: u64) -> Point {
    let orig = match guarded(|| expr.evaluate(&a.vars, &a.mem)) {
        Err(p) => return Point::Panicked(p.signature(), json!({"stage": "evaluate(original)", "panic": p.to_json()})),
        Ok(Err(_)) => return Point::OutOfScope("original-not-evaluable"),
        Ok(Ok(v)) => v,
    };
    if !finite(orig) {
        return Point::OutOfScope("original-not-finite");
    }
    let simp = match guarded(|| simplified.evaluate(&a.vars, &a.mem)) {
        Err(p) => return Point::Panicked(p.signature(), json!({"stage": "evaluate(simplified)", "panic": p.to_json()})),
        Ok(r) => r,
    };
    if let Ok(s) = simp {
        if close(orig, s, TOL) {
            return Point::Preserved;
        }
    }
    // One operator applied directly to literals: both evaluations are the same single operation
    // on the same exact operands (no rewriting, no folded intermediate whose zero could change
    // sign), so there is no "other side of a cut" to excuse a difference; the conditioning filter
    // is not consulted.
    if single_operation_on_literals(tree) {
        return Point::Violated(json!({
            "assignment": a.env.to_json(),
            "original_value": c_json(orig),
            "simplified_value": match simp { Ok(s) => c_json(s), Err(e) => json!(format!("{e:?}")) },
            "class": "one operator on literal operands: constant folding disagrees with evaluation",
        }));
    }
    let mut prng = Rng::from_parts(&[seed, 0xC12]);
    match assess(tree, &a.env, &Filter::SIMPLIFY, &mut prng) {
        Verdict::Good { value, .. } => {
            if !close(value, orig, 1e-9) {
                return Point::Inconclusive("reference-evaluator-disagrees-with-evaluate");
            }
            Point::Violated(json!({
                "assignment": a.env.to_json(),
                "original_value": c_json(orig),
                "simplified_value": match simp { Ok(s) => c_json(s), Err(e) => json!(format!("{e:?}")) },
                "reference_value": c_json(value),
            }))
        }
        v => Point::Inconclusive(v.reason()),
    }
}

fn single_operation_on_literals(t: &Tree) -> bool {
    let lit = |t: &Tree| matches!(t, Tree::Num(..) | Tree::Pi);
    match t {
        Tree::Inf(l, _, r) => lit(l) && lit(r),
        Tree::Fun(_, a) | Tree::Pre(_, a) => lit(a),
        _ => false,
    }
}

// ---------------------------------------------------------------------------------------------
// Witness reduction

/// The assignment under which the violation was observed, extended by fresh atoms p0..p11
/// (generic, pairwise distinct, alternately real and complex) for the witness reduction.
fn reduction_env(failing: &Env) -> Assignment {
    let mut env = failing.clone();
    for k in 0..12 {
        let re = 0.41 + 0.23 * k as f64;
        let im = if k % 2 == 1 { 0.37 + 0.11 * k as f64 } else { 0.0 };
        env.vars.push((format!("p{k}"), c(re, im)));
    }
    Assignment::new(env)
}

fn simplify_real(t: &Tree) -> Option<Expression> {
    let e = t.to_expression();
    guarded(move || e.into_simplified()).ok()
}

fn fails(t: &Tree, a: &Assignment, seed: u64) -> bool {
    let e = t.to_expression();
    let Some(s) = simplify_real(t) else { return false };
    matches!(compare_at(t, &e, &s, a, seed), Point::Violated(_))
}

/// Greedy reduction of a failing tree; returns the reduced witness (which still fails under the
/// reduction assignment) or `None` if the failure does not reproduce under that assignment.
fn reduce(tree: &Tree, a: &Assignment, seed: u64) -> Option<Tree> {
    let mut t = tree.clone();
    if !fails(&t, a, seed) {
        return None;
    }
    let mut fresh = 0usize;
    'outer: for _round in 0..400 {
        let paths = t.paths();
        // A: a proper subtree that fails by itself
        for p in paths.iter().skip(1) {
            let sub = t.at(p);
            if sub.operators() >= 1 && fails(sub, a, seed) {
                t = sub.clone();
                continue 'outer;
            }
        }
        for p in paths.iter().skip(1) {
            let sub = t.at(p).clone();
            let is_fresh = matches!(&sub, Tree::Var(n) if n.starts_with('p') && n[1..].parse::<u32>().is_ok());
            if is_fresh {
                continue;
            }
            // B: the subtree is irrelevant: replace it by a fresh atom
            if fresh < 12 {
                let cand = t.replaced(p, &Tree::Var(format!("p{fresh}")));
                if fails(&cand, a, seed) {
                    t = cand;
                    fresh += 1;
                    continue 'outer;
                }
            }
            // B': one of its children in its place
            for ch in sub.children() {
                let cand = t.replaced(p, ch);
                if fails(&cand, a, seed) {
                    t = cand;
                    continue 'outer;
                }
            }
            // C: only its simplified form matters
            if sub.operators() >= 1 {
                if let Some(s) = simplify_real(&sub) {
                    let s = Tree::from_expression(&s);
                    if s.size() < sub.size() {
                        let cand = t.replaced(p, &s);
                        if fails(&cand, a, seed) {
                            t = cand;
                            continue 'outer;
                        }
                    }
                }
            }
        }
        break;
    }
    Some(t)
}

// ---------------------------------------------------------------------------------------------
// Secondary entry points (constant trees)

struct EntryObs {
    notes: Vec<String>,
    violations: Vec<(String, Value)>,
}

/// `value` is `evaluate(e)` (finite).  Observes the folded constant through to_unitary and through
/// calibration matching.
fn entry_points(expr: &Expression, simplified: &Expression, value: C) -> EntryObs {
    let mut obs = EntryObs { notes: Vec::new(), violations: Vec::new() };
    let scale = abs(value).max(1.0);
    let gate = |param: Expression| Gate::new("RX", vec![param], vec![Qubit::Fixed(0)], vec![]);
    // to_unitary
    let got = guarded(|| gate(expr.clone()).map_err(|e| format!("{e:?}")).and_then(|mut g| g.to_unitary(1).map_err(|e| format!("{e:?}"))));
    let want = guarded(|| gate(Expression::Number(value)).map_err(|e| format!("{e:?}")).and_then(|mut g| g.to_unitary(1).map_err(|e| format!("{e:?}"))));
    match (got, want) {
        (Err(p), _) | (_, Err(p)) => obs.violations.push((p.signature(), json!({"stage": "to_unitary", "panic": p.to_json()}))),
        (Ok(Ok(m)), Ok(Ok(r))) => {
            let maxr = r.iter().map(|z| abs(*z)).fold(0.0f64, f64::max);
            if !maxr.is_finite() || m.iter().any(|z| !finite(*z)) {
                obs.notes.push("entry:to_unitary:non-finite-entries".into());
            } else {
                let tol = 4.0 * TOL * scale * maxr.max(1.0);
                let worst = m.iter().zip(r.iter()).map(|(x, y)| abs(*x - *y)).fold(0.0f64, f64::max);
                if m.dim() == r.dim() && worst <= tol {
                    obs.notes.push("entry:to_unitary:agrees".into());
                } else {
                    obs.notes.push("entry:to_unitary:differs".into());
                    obs.violations.push((
                        "to_unitary-folded-parameter-differs-from-evaluate".into(),
                        json!({"gate": format!("RX({}) 0", quil(expr)), "parameter_value": c_json(value), "max_entry_difference": worst, "tolerance": tol}),
                    ));
                }
            }
        }
        (Ok(Err(e)), _) => {
            // not folded to a number (simplification limit reached): nothing promised by C12
            let _ = e;
            obs.notes.push("entry:to_unitary:parameter-not-folded".into());
        }
        (_, Ok(Err(_))) => obs.notes.push("entry:to_unitary:reference-gate-rejected".into()),
    }
    // calibration matching: a calibration with a constant parameter c may match only if c is the value
    let folded = match simplified {
        Expression::Number(s) => Some(*s),
        _ => None,
    };
    let mut candidates = vec![value, value + c(1.0, 0.0), -value - c(0.5, 0.0)];
    if let Some(s) = folded {
        candidates.push(s);
    }
    for cand in candidates {
        let matched = guarded(|| {
            let cal = CalibrationIdentifier::new("RX".to_string(), vec![], vec![Expression::Number(cand)], vec![Qubit::Fixed(0)]).ok()?;
            let g = gate(expr.clone()).ok()?;
            Some(cal.matches(&g))
        });
        match matched {
            Err(p) => obs.violations.push((p.signature(), json!({"stage": "CalibrationIdentifier::matches", "panic": p.to_json()}))),
            Ok(None) => obs.notes.push("entry:calibration:not-constructible".into()),
            Ok(Some(m)) => {
                let is_value = close(value, cand, TOL);
                if m && !is_value {
                    obs.notes.push("entry:calibration:matched-wrong-constant".into());
                    obs.violations.push((
                        "calibration-matches-constant-that-is-not-the-parameter-value".into(),
                        json!({"calibration": format!("DEFCAL RX({}) 0", quil(&Expression::Number(cand))), "gate": format!("RX({}) 0", quil(expr)), "parameter_value": c_json(value)}),
                    ));
                } else if m {
                    obs.notes.push("entry:calibration:matches-correct-constant".into());
                } else if is_value {
                    // exact-equality matching may legitimately miss by a rounding error
                    obs.notes.push("entry:calibration:misses-correct-constant-by-rounding".into());
                } else {
                    obs.notes.push("entry:calibration:rejects-wrong-constant".into());
                }
            }
        }
    }
    obs
}

// ---------------------------------------------------------------------------------------------

fn check_tree(ctx: &mut Ctx, tree: &Tree, assignments: &[Assignment], workload: &str) {
    let desc = tree.describe();
    if !ctx.begin(&desc) {
        return;
    }
    ctx.count(workload);
    let seed = hash_of(&desc);
    let expr = tree.to_expression();

    // the two entry points
    let in_place = guarded(|| {
        let mut e = expr.clone();
        e.simplify();
        e
    });
    let consumed = guarded(|| expr.clone().into_simplified());
    let (simplified, consumed) = match (in_place, consumed) {
        (Err(p), _) | (_, Err(p)) => {
            ctx.count("outcome:panic");
            ctx.violation(&p.signature(), json!({"tree": desc, "quil": quil(&expr), "stage": "simplify", "panic": p.to_json()}));
            return;
        }
        (Ok(a), Ok(b)) => (a, b),
    };
    let stree = Tree::from_expression(&simplified);
    ctx.max("tree-depth", tree.depth() as u64);
    ctx.max("tree-size", tree.size() as u64);
    if !stree.same(&Tree::from_expression(&consumed)) {
        ctx.violation(
            "simplify-and-into_simplified-disagree",
            json!({"tree": desc, "simplify": quil(&simplified), "into_simplified": quil(&consumed)}),
        );
    }
    if matches!(stree, Tree::Pi) {
        ctx.violation("returned-symbolic-pi", json!({"tree": desc, "quil": quil(&expr)}));
    }
    // no new names
    let (ov, om) = (tree.variable_set(), tree.memory_ref_set());
    let new_vars: Vec<String> = stree.variable_set().into_iter().filter(|v| !ov.contains(v)).collect();
    let new_mem: Vec<(String, u64)> = stree.memory_ref_set().into_iter().filter(|m| !om.contains(m)).collect();
    if !new_vars.is_empty() || !new_mem.is_empty() {
        ctx.violation(
            "introduced-new-name",
            json!({"tree": desc, "quil": quil(&expr), "simplified": quil(&simplified), "new_variables": new_vars, "new_memory_references": new_mem}),
        );
    }
    let changed = !stree.same(tree);
    if changed {
        ctx.count("result:changed");
        ctx.count(&format!("fired:{}->{}", tree.kind(), stree.kind()));
        ctx.nontrivial(&desc);
        if stree.size() > tree.size() {
            ctx.count("result:grew");
        }
    } else {
        ctx.count("result:unchanged");
    }

    // constant folding of every innermost operation: each node that applies one operator directly
    // to literals is simplified and evaluated on its own (no assignment needed, no conditioning
    // involved: same operation, same exact operands)
    if tree.size() > 3 {
        let empty_v: HashMap<String, C> = HashMap::new();
        let empty_m: HashMap<String, Vec<f64>> = HashMap::new();
        let mut seen_nodes: Vec<String> = Vec::new();
        for path in tree.paths() {
            let node = tree.at(&path);
            if path.is_empty() || !single_operation_on_literals(node) {
                continue;
            }
            let nd = node.describe();
            if seen_nodes.contains(&nd) {
                continue;
            }
            seen_nodes.push(nd.clone());
            let ne = node.to_expression();
            let r = guarded(|| {
                let o = ne.evaluate(&empty_v, &empty_m);
                let s = ne.clone().into_simplified().evaluate(&empty_v, &empty_m);
                (o, s)
            });
            if let Ok((Ok(o), s)) = r {
                if !finite(o) {
                    continue;
                }
                ctx.count("innermost-constant-operation:checked");
                let same = matches!(s, Ok(v) if close(o, v, TOL));
                if !same {
                    ctx.violation(
                        &format!("constant-folding-disagrees-with-evaluation:{}", node.kind()),
                        json!({"tree": desc, "node": nd, "evaluate": c_json(o),
                               "simplified_then_evaluate": match s { Ok(v) => c_json(v), Err(e) => json!(format!("{e:?}")) }}),
                    );
                }
            }
        }
    }

    // value preservation
    let mut violated: Option<Value> = None;
    let mut violated_under: Option<&Assignment> = None;
    let mut all_preserved = true;
    for a in assignments {
        match compare_at(tree, &expr, &simplified, a, seed) {
            Point::OutOfScope(r) => {
                all_preserved = false;
                ctx.count(&format!("points:out-of-scope:{r}"));
            }
            Point::Preserved => ctx.count("points:preserved"),
            Point::Inconclusive(r) => {
                all_preserved = false;
                ctx.count(&format!("points:inconclusive:{r}"));
                ctx.inconclusive(r);
            }
            Point::Panicked(sig, d) => {
                all_preserved = false;
                ctx.violation(&sig, json!({"tree": desc, "detail": d}));
            }
            Point::Violated(d) => {
                all_preserved = false;
                ctx.count("points:violated");
                if violated.is_none() {
                    violated = Some(d);
                    violated_under = Some(a);
                }
            }
        }
        // constant trees evaluate identically under every assignment
        if ov.is_empty() && om.is_empty() {
            break;
        }
    }

    // secondary entry points, constant trees only
    let constant = ov.is_empty() && om.is_empty();
    let mut entry_json = Value::Null;
    if constant && (all_preserved || violated.is_some()) {
        if let Ok(Ok(value)) = guarded(|| expr.evaluate(&assignments[0].vars, &assignments[0].mem)) {
            if finite(value) {
                let obs = entry_points(&expr, &simplified, value);
                for n in &obs.notes {
                    ctx.count(n);
                }
                if violated.is_some() {
                    // the same defect seen through the other entry points: recorded, not re-reported
                    entry_json = json!({"notes": obs.notes, "also_visible_as": obs.violations.iter().map(|(s, _)| s.clone()).collect::<Vec<_>>()});
                } else {
                    for (sig, d) in obs.violations {
                        ctx.violation(&sig, json!({"tree": desc, "detail": d}));
                    }
                }
            }
        }
    }

    if let Some(d) = violated {
        // reduce the witness to name the defect
        let red = reduction_env(&violated_under.unwrap_or(&assignments[0]).env);
        let (sig, reduced) = match reduce(tree, &red, seed) {
            Some(w) => {
                let ws = simplify_real(&w);
                (
                    format!("value-changed:{}", w.skeleton()),
                    json!({"witness": quil(&w.to_expression()), "witness_shape": w.shape(), "witness_tree": w.describe(),
                           "simplifies_to": ws.as_ref().map(quil), "under": "the assignment of the violation; p_k generic"}),
                )
            }
            None => {
                // does not reproduce under the reduction assignment: name it by its own top-level shape
                let kids: Vec<&str> = tree.children().iter().map(|k| k.kind()).collect();
                (format!("value-changed:unreduced:{}({})", tree.kind(), kids.join(",")), Value::Null)
            }
        };
        ctx.violation(
            &sig,
            json!({"tree": desc, "quil": quil(&expr), "simplified": quil(&simplified), "point": d, "reduced": reduced, "other_entry_points": entry_json}),
        );
    } else if changed && ctx.case_no() % 40_000 == 1 {
        ctx.sample(workload, json!({"tree": desc, "quil": quil(&expr), "simplified": quil(&simplified)}));
    }
}

fn run(ctx: &mut Ctx) {
    let tier = ctx.tier;
    let fixed: Vec<Assignment> = (0..3).map(|k| Assignment::new(generic_env(k))).collect();

    // (a) exhaustive depth <= 2
    let space = Depth2::new(&leaves_c12());
    ctx.count_n("depth2-space-size", if ctx.shard == 0 { space.count() } else { 0 });
    for idx in 0..space.index_space() {
        if !ctx.mine(idx) {
            continue;
        }
        let Some(tree) = space.get(idx) else { continue };
        check_tree(ctx, &tree, &fixed, "workload:depth2-exhaustive");
        if ctx.done() {
            return;
        }
    }

    // (b) random depth <= 6
    let mut rng = ctx.rng(12);
    let n = ctx.share(tier.pick(100_000, 8_000_000));
    let mut assignments: Vec<Assignment> = (0..2).map(|k| Assignment::new(generic_env(k + 2))).collect();
    for _ in 0..n {
        let depth = 2 + rng.below(5);
        let tree = random_tree(&mut rng, depth, LeafProfile::Dyadic);
        let extra = Assignment::new(random_env(&mut rng));
        assignments.truncate(2);
        assignments.push(extra);
        check_tree(ctx, &tree, &assignments, "workload:random-depth6");
        if ctx.done() {
            return;
        }
    }
    // (c) random trees over a tiny atom pool: equal subterms are frequent, which is the
    // precondition of the factoring / cancelling / affine rewrites.
    let mut rng = ctx.rng(13);
    let n = ctx.share(tier.pick(60_000, 3_000_000));
    for _ in 0..n {
        let pool = atom_pool(&mut rng);
        let depth = 2 + rng.below(3);
        let tree = pool_tree(&mut rng, depth, &pool);
        let extra = Assignment::new(random_env(&mut rng));
        assignments.truncate(2);
        assignments.push(extra);
        check_tree(ctx, &tree, &assignments, "workload:shared-subterm");
        if ctx.done() {
            return;
        }
    }

    // (d) directed rule shapes in every orientation.
    let mut rng = ctx.rng(14);
    let n = ctx.share(tier.pick(40_000, 2_000_000));
    for _ in 0..n {
        let tree = rule_shape(&mut rng);
        let extra = Assignment::new(random_env(&mut rng));
        assignments.truncate(2);
        assignments.push(extra);
        check_tree(ctx, &tree, &assignments, "workload:rule-shapes");
        if ctx.done() {
            return;
        }
    }
}

fn atom(rng: &mut Rng) -> Tree {
    match rng.below(9) {
        0 => var("x"),
        1 => var("y"),
        2 => var("z"),
        3 => mem("m", 0),
        4 => mem("m", 1),
        5 => mem("q", 0),
        6 => mem("theta", 3),
        7 => Tree::Pi,
        _ => var("a-b"),
    }
}

fn small_const(rng: &mut Rng) -> Tree {
    const V: [f64; 10] = [2.0, 3.0, 4.0, 5.0, 0.5, 0.25, 1.5, 8.0, 1.0, 0.0];
    let span = if rng.chance(1, 8) { 10 } else { 8 };
    let v = V[rng.below(span)];
    let v = if rng.chance(1, 5) { -v } else { v };
    if rng.chance(1, 10) {
        num(0.0, v)
    } else {
        num(v, 0.0)
    }
}

fn atom_pool(rng: &mut Rng) -> Vec<Tree> {
    let mut pool = vec![atom(rng)];
    if rng.chance(2, 3) {
        pool.push(atom(rng));
    }
    pool.push(small_const(rng));
    if rng.chance(1, 2) {
        pool.push(small_const(rng));
    }
    pool
}

fn pool_tree(rng: &mut Rng, depth: usize, pool: &[Tree]) -> Tree {
    if depth == 0 || rng.chance(1, depth as u32 + 3) {
        return pool[rng.below(pool.len())].clone();
    }
    let op = match rng.below(13) {
        0..=3 => InOp::Plus,
        4..=7 => InOp::Star,
        8..=9 => InOp::Minus,
        10..=11 => InOp::Slash,
        _ => return pre(PreOp::Minus, pool_tree(rng, depth - 1, pool)),
    };
    let l = pool_tree(rng, depth - 1, pool);
    let r = pool_tree(rng, depth - 1, pool);
    inf(l, op, r)
}

/// `x`, `x*a` or `a*x` (or, rarely, `x/a`), with `a` a constant or another atom.
fn term(rng: &mut Rng, x: &Tree) -> Tree {
    let a = if rng.chance(3, 4) { small_const(rng) } else { atom(rng) };
    match rng.below(8) {
        0 => x.clone(),
        1..=3 => inf(x.clone(), InOp::Star, a),
        4..=6 => inf(a, InOp::Star, x.clone()),
        _ => inf(x.clone(), InOp::Slash, a),
    }
}

fn either_order(rng: &mut Rng, l: Tree, op: InOp, r: Tree) -> Tree {
    if rng.chance(1, 2) {
        inf(l, op, r)
    } else {
        inf(r, op, l)
    }
}

fn rule_shape(rng: &mut Rng) -> Tree {
    let x = if rng.chance(1, 6) {
        // a compound shared factor
        let (l, r) = (atom(rng), small_const(rng));
        either_order(rng, l, InOp::Plus, r)
    } else {
        atom(rng)
    };
    // the second operand usually mentions the same x, sometimes a different atom
    let x2 = if rng.chance(5, 6) { x.clone() } else { atom(rng) };
    let p1 = term(rng, &x);
    let p2 = term(rng, &x2);
    let addsub = |rng: &mut Rng| if rng.chance(2, 3) { InOp::Plus } else { InOp::Minus };
    match rng.below(8) {
        0..=3 => {
            // (P1 + b1) +/- (P2 + b2) with each sum in either order
            let b1 = if rng.chance(3, 4) { small_const(rng) } else { atom(rng) };
            let b2 = if rng.chance(3, 4) { small_const(rng) } else { atom(rng) };
            let o1 = addsub(rng);
            let o2 = addsub(rng);
            let l = if o1 == InOp::Plus { either_order(rng, p1, o1, b1) } else { inf(p1, o1, b1) };
            let r = if o2 == InOp::Plus { either_order(rng, p2, o2, b2) } else { inf(p2, o2, b2) };
            let o = addsub(rng);
            inf(l, o, r)
        }
        4 => {
            let o = addsub(rng);
            inf(p1, o, p2)
        }
        5 => inf(p1, InOp::Slash, p2),
        6 => inf(p1, InOp::Star, p2),
        _ => {
            // (P1 +/- P2) +/- b, P1 +/- (P2 +/- b)
            let b = small_const(rng);
            let (o1, o2) = (addsub(rng), addsub(rng));
            if rng.chance(1, 2) {
                inf(inf(p1, o1, p2), o2, b)
            } else {
                inf(p1, o1, inf(p2, o2, b))
            }
        }
    }
}
