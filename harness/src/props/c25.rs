//! C25 — computed schedules are as-soon-as-possible and frame-exclusive.
//!
//! Single-block programs.  When `ScheduledBasicBlock::as_schedule_seconds` is `Ok`:
//!   * the items are exactly the block's instruction indices, once each;
//!   * every item has the documented duration (generator-side model: `duration + pad_left +
//!     pad_right` of a template waveform, samples / SAMPLE-RATE of the used frame for a DEFWAVEFORM
//!     waveform, the literal of DELAY / RAW-CAPTURE, 0 for FENCE / SET-* / SHIFT-* / SWAP-PHASES);
//!   * start(i) = max(0, end(j) for j < i conflicting with i) — conflicts from the implementation's
//!     own `matching_frames`, ends from the reported durations;
//!   * no two conflicting items overlap on an interval of positive length;
//!   * `duration()` = the latest end (0 for an empty schedule).
//! With calibrations (`BasicBlock::as_schedule_seconds`): the model-expanded block (calibration
//! bodies substituted by the generator, which knows them) is scheduled by the same code, and every
//! source instruction's span must be exactly the hull of the spans of what it expanded to.
//!
//! All durations / rates are dyadic, so all arithmetic is exact and comparisons use `==`.

use crate::core::{guarded, Ctx};
use crate::gen::sched_prog::{
    decode_sequence, random_body, random_header, standard_header, BodyMix, Case, Kind, Pool,
};
use crate::model::sched_model::asap_starts;
use crate::props::sched_common::{
    observe_block, panic_inconclusive, sched_obs, BlockObs, SchedObs,
};
use crate::props::{PropInfo, DEFAULT};
use quil_rs::instruction::{DefaultHandler, ExternSignatureMap, Instruction};
use quil_rs::program::analysis::BasicBlock;
use quil_rs::program::scheduling::ScheduledBasicBlock;
use quil_rs::Program;
use serde_json::{json, Value};

pub static INFO: PropInfo = PropInfo {
    id: "C25",
    run,
    rule: "single-block programs: (a) every block of 1..=3 (thorough 1..=4) instructions over a 16-instruction timed alphabet (blocking / non-blocking PULSE with flat, erf_square+pads and DEFWAVEFORM waveforms, CAPTURE, RAW-CAPTURE, DELAY with and without frame names, FENCE with and without qubits, SET-PHASE, SWAP-PHASES, a pulse on an undefined frame) with durations from {0, 0.5, 1, 1.5, 2, 2.5}; (b) random RF blocks of 1..=10 instructions from the 130 RF instructions of the pool under random frame subsets with SAMPLE-RATE 1, 2, absent or a string; (c) programs with calibrations (7 DEFCALs expanding to 1-4 instructions incl. FENCE-first, nested, variable-qubit and zero-duration bodies, one DEFCAL MEASURE) whose bodies mix gates, measurements and RF instructions, scheduled through BasicBlock::as_schedule_seconds. distinct = program text; non-trivial = computed schedule with >= 2 items of positive duration.",
    assumptions: &[
        "\"uses / blocks a frame\" is taken from DefaultHandler::matching_frames (C26's subject)",
        "\"documented duration\" is what the doc comments of instruction_duration_seconds / waveform_duration_seconds state; instructions for which the generator knows no documented duration are not duration-checked (counted as duration:unmodelled)",
        "all durations and sample rates are dyadic rationals, so f64 sums and maxima are exact and compared with ==; durations are non-negative",
        "for calibrated programs the generator's own expansion must coincide (instruction by instruction) with Program::expand_calibrations; otherwise the case is inconclusive (expansion correctness is C17's subject)",
    ],
    exhaustive_quick: false,
    exhaustive_thorough: false,
    exhaustive_note: "sub-space (a) is enumerated completely up to the stated length; (b), (c) are sampled",
    min_nontrivial: 1000,
    required_counters: &[
        "schedule:ok",
        "schedule:err:UnknownDuration",
        "duration:checked:PULSE:fixed",
        "duration:checked:PULSE:custom",
        "duration:checked:CAPTURE:custom",
        "duration:checked:RAW-CAPTURE:fixed",
        "duration:checked:DELAY:fixed",
        "duration:checked:FENCE:fixed",
        "start:after-predecessor",
        "start:at-zero",
        "calibrated:ok",
        "calibrated:source-expanded-to-several",
        "calibrated:span-differs-from-sum-of-part-durations",
    ],
    ..DEFAULT
};

fn dur_class(d: &crate::gen::sched_prog::DurModel) -> &'static str {
    match d {
        crate::gen::sched_prog::DurModel::Fixed(_) => "fixed",
        crate::gen::sched_prog::DurModel::Custom { .. } => "custom",
        crate::gen::sched_prog::DurModel::Unknown => "unknown",
    }
}

/// What was observed for one single-block program.
enum Obs {
    NotSingleBlock,
    BuildError(String),
    ObserveError(String),
    ScheduleErr(String, BlockObs),
    Ok(BlockObs, SchedObs),
}

fn observe_single_block(program: &Program) -> Obs {
    let block = match BasicBlock::try_from(program) {
        Ok(b) => b,
        Err(_) => return Obs::NotSingleBlock,
    };
    let scheduled = match ScheduledBasicBlock::build(block, program, &DefaultHandler) {
        Ok(s) => s,
        Err(e) => return Obs::BuildError(format!("{:?}", e.variant)),
    };
    let sigs = match ExternSignatureMap::try_from(program.extern_pragma_map.clone()) {
        Ok(s) => s,
        Err(_) => return Obs::ObserveError("extern-signature-map".into()),
    };
    let b = match observe_block(program, &sigs, &scheduled) {
        Ok(b) => b,
        Err(e) => return Obs::ObserveError(e),
    };
    match scheduled.as_schedule_seconds(program, &DefaultHandler) {
        Ok(s) => Obs::Ok(b, sched_obs(&s)),
        Err(e) => {
            let v = match e {
                quil_rs::program::scheduling::ComputedScheduleError::UnknownDuration { .. } => "UnknownDuration",
                quil_rs::program::scheduling::ComputedScheduleError::InvalidDependencyGraph => "InvalidDependencyGraph",
            };
            Obs::ScheduleErr(v.to_string(), b)
        }
    }
}

/// Clauses a–e of the header comment on one computed schedule.  `model` = (documented duration if
/// known, kind name, duration class) per instruction.  Returns the number of positive-duration items.
fn judge_schedule(
    ctx: &mut Ctx,
    b: &BlockObs,
    s: &SchedObs,
    model: &[(Option<f64>, &'static str, &'static str)],
    tag: &str,
) -> usize {
    let detail = |extra: Value| json!({"block": b.to_json(), "schedule": s.to_json(), "problem": extra});
    let n = b.n;
    // a. exactly the block's instructions, once each
    let idxs: Vec<usize> = s.items.iter().map(|it| it.0).collect();
    let want: Vec<usize> = (0..n).collect();
    if idxs != want {
        ctx.violation(
            &format!("{tag}items-are-not-exactly-the-block-instructions"),
            detail(json!({"item_indices": idxs})),
        );
        return 0;
    }
    let start: Vec<f64> = s.items.iter().map(|it| it.1).collect();
    let dur: Vec<f64> = s.items.iter().map(|it| it.2).collect();
    // b. documented durations
    for i in 0..n {
        let (m, kind, class) = model[i];
        match m {
            Some(d) => {
                ctx.count(&format!("duration:checked:{kind}:{class}"));
                if dur[i] != d {
                    ctx.violation(
                        &format!("{tag}duration-mismatch:{kind}:{class}"),
                        detail(json!({"instruction": i, "documented": d, "reported": dur[i]})),
                    );
                }
            }
            None => ctx.count(&format!("duration:unmodelled:{kind}")),
        }
        if !(dur[i] >= 0.0) {
            ctx.inconclusive("negative or NaN duration reported; ASAP clauses not applicable");
            return 0;
        }
    }
    // c. ASAP starts over the implementation's conflict relation, with the reported durations
    let conflict = |j: usize, i: usize| b.frame_conflict(j, i);
    let want_start = asap_starts(&dur, &conflict);
    for i in 0..n {
        if start[i] != want_start[i] {
            let dir = if start[i] < want_start[i] { "earlier-than-last-predecessor-end" } else { "later-than-last-predecessor-end" };
            ctx.violation(
                &format!("{tag}start-not-asap:{dir}"),
                detail(json!({"instruction": i, "expected_start": want_start[i], "reported_start": start[i]})),
            );
        } else if want_start[i] > 0.0 {
            ctx.count("start:after-predecessor");
        } else {
            ctx.count("start:at-zero");
        }
    }
    // d. frame exclusivity
    for i in 0..n {
        for j in (i + 1)..n {
            if !b.frame_conflict(i, j) {
                continue;
            }
            let lo = start[i].max(start[j]);
            let hi = (start[i] + dur[i]).min(start[j] + dur[j]);
            if lo < hi {
                ctx.violation(
                    &format!("{tag}conflicting-instructions-overlap"),
                    detail(json!({"pair": [i, j], "overlap": [lo, hi]})),
                );
            } else {
                ctx.count("exclusive:conflicting-pair-disjoint");
            }
        }
    }
    // e. total duration
    let latest = (0..n).map(|i| start[i] + dur[i]).fold(0.0f64, f64::max);
    if s.duration != latest {
        ctx.violation(
            &format!("{tag}schedule-duration-is-not-latest-end"),
            detail(json!({"latest_end": latest, "reported": s.duration})),
        );
    }
    dur.iter().filter(|d| **d > 0.0).count()
}

fn model_of(case: &Case, pool: &Pool) -> Vec<(Option<f64>, &'static str, &'static str)> {
    case.body
        .iter()
        .map(|&i| {
            let it = &pool.items[i];
            (case.model_duration(pool, &it.dur), it.kind.name(), dur_class(&it.dur))
        })
        .collect()
}

fn plain_case(ctx: &mut Ctx, pool: &Pool, case: &Case, workload: &str) {
    let text = case.text(pool);
    if !ctx.begin(&text) {
        return;
    }
    ctx.count(workload);
    let obs = match guarded(|| observe_single_block(&case.build(pool))) {
        Ok(o) => o,
        Err(p) => return panic_inconclusive(ctx, &p),
    };
    match obs {
        Obs::NotSingleBlock => ctx.count("outcome:not-a-single-block"),
        Obs::BuildError(v) => ctx.count(&format!("outcome:graph-error:{v}")),
        Obs::ObserveError(e) => ctx.inconclusive(&format!("could not observe the block: {e}")),
        Obs::ScheduleErr(v, _) => {
            ctx.count(&format!("schedule:err:{v}"));
            let model = model_of(case, pool);
            if model.iter().all(|m| m.0.is_some()) {
                // not a violation: the property only speaks about schedules that can be computed
                ctx.count("schedule:err-although-all-durations-documented");
            }
        }
        Obs::Ok(b, s) => {
            ctx.count("schedule:ok");
            let model = model_of(case, pool);
            let positive = judge_schedule(ctx, &b, &s, &model, "");
            ctx.max("items-per-schedule", s.items.len() as u64);
            if positive >= 2 {
                ctx.nontrivial(&text);
                ctx.sample("computed-schedule", json!({"program": text, "schedule": s.to_json()}));
            }
        }
    }
}

/// What was observed for a calibrated program.
struct CalObs {
    /// `BasicBlock::as_schedule_seconds` on the original program
    source: Result<SchedObs, String>,
    /// the implementation's expansion, for the model/implementation agreement check
    impl_expansion: Result<Vec<Instruction>, String>,
    /// schedule of the model-expanded program
    expanded: Option<Obs>,
}

fn calibrated_case(ctx: &mut Ctx, pool: &mut Pool, case: &Case, workload: &str) {
    let text = case.text(pool);
    if !ctx.begin(&text) {
        return;
    }
    ctx.count(workload);
    let expansion = match pool.model_expand(case) {
        Ok(e) => e,
        Err(e) => return ctx.inconclusive(&format!("generator: {e}")),
    };
    let expanded_body: Vec<Instruction> = expansion.iter().map(|e| e.instr.clone()).collect();
    let pool: &Pool = pool;
    let obs = guarded(|| {
        let program = case.build(pool);
        let source = match BasicBlock::try_from(&program) {
            Err(_) => Err("not-a-single-block".to_string()),
            Ok(block) => block
                .as_schedule_seconds(&program, &DefaultHandler)
                .map(|s| sched_obs(&s))
                .map_err(|e| {
                    use quil_rs::program::analysis::BasicBlockScheduleError as E;
                    match e {
                        E::ScheduleError(e) => format!("ScheduleError:{:?}", e.variant),
                        E::ComputedScheduleError(_) => "ComputedScheduleError".to_string(),
                        E::ProgramError(_) => "ProgramError".to_string(),
                    }
                }),
        };
        let impl_expansion = program
            .expand_calibrations()
            .map(|p| p.body_instructions().cloned().collect::<Vec<_>>())
            .map_err(|e| format!("{e}"));
        let expanded_program = case.build_with_body(pool, &expanded_body);
        let expanded = Some(observe_single_block(&expanded_program));
        CalObs { source, impl_expansion, expanded }
    });
    let obs = match obs {
        Ok(o) => o,
        Err(p) => return panic_inconclusive(ctx, &p),
    };
    // model expansion must be the implementation's expansion, or the case decides nothing here
    match &obs.impl_expansion {
        Ok(instrs) if *instrs == expanded_body => ctx.count("calibrated:model-expansion-agrees"),
        Ok(_) => {
            ctx.count("calibrated:model-expansion-differs");
            return ctx.inconclusive("generator's calibration expansion differs from Program::expand_calibrations (C17's subject)");
        }
        Err(_) => {
            ctx.count("calibrated:expand_calibrations-err");
            return ctx.inconclusive("Program::expand_calibrations failed on a generated program");
        }
    }
    let expanded = match obs.expanded {
        Some(Obs::Ok(b, s)) => Some((b, s)),
        Some(Obs::ScheduleErr(v, _)) => {
            ctx.count(&format!("calibrated:expanded-block:schedule-err:{v}"));
            None
        }
        Some(Obs::BuildError(v)) => {
            ctx.count(&format!("calibrated:expanded-block:graph-error:{v}"));
            None
        }
        _ => {
            ctx.count("calibrated:expanded-block:not-observable");
            None
        }
    };
    let source = match obs.source {
        Ok(s) => s,
        Err(v) => {
            ctx.count(&format!("calibrated:err:{v}"));
            if expanded.is_some() {
                ctx.count("calibrated:err-although-expanded-block-schedules");
            }
            return;
        }
    };
    ctx.count("calibrated:ok");
    let Some((b, s)) = expanded else {
        return ctx.inconclusive("calibrated schedule computed but the expanded block does not schedule");
    };
    // the expanded block is itself a schedule to judge
    let model: Vec<(Option<f64>, &'static str, &'static str)> = expansion
        .iter()
        .map(|e| (case.model_duration(pool, &e.dur), e.kind.name(), dur_class(&e.dur)))
        .collect();
    judge_schedule(ctx, &b, &s, &model, "expanded:");
    if s.items.len() != expansion.len() {
        return; // already reported by judge_schedule
    }
    // hull per source instruction
    let detail = |extra: Value| {
        json!({"program": text, "expanded_schedule": s.to_json(), "source_schedule": source.to_json(),
               "expansion": expansion.iter().map(|e| format!("{} <- source {}", e.text, e.source)).collect::<Vec<_>>(),
               "problem": extra})
    };
    let n_sources = case.body.len();
    let mut expected: Vec<Option<(f64, f64)>> = vec![None; n_sources];
    let mut parts = vec![0usize; n_sources];
    let mut sum_of_parts = vec![0.0f64; n_sources];
    for (k, e) in expansion.iter().enumerate() {
        let (st, en) = (s.items[k].1, s.items[k].1 + s.items[k].2);
        parts[e.source] += 1;
        sum_of_parts[e.source] += s.items[k].2;
        expected[e.source] = Some(match expected[e.source] {
            None => (st, en),
            Some((a, z)) => (a.min(st), z.max(en)),
        });
    }
    let mut seen = vec![0usize; n_sources];
    for (idx, st, du) in &source.items {
        if *idx >= n_sources {
            ctx.violation("calibrated:item-for-nonexistent-source-instruction", detail(json!({"index": idx})));
            continue;
        }
        seen[*idx] += 1;
        match expected[*idx] {
            None => ctx.violation("calibrated:item-for-source-that-expanded-to-nothing", detail(json!({"index": idx}))),
            Some((a, z)) => {
                if *st != a {
                    ctx.violation("calibrated:source-span-start-is-not-earliest-expanded-start", detail(json!({"source": idx, "expected": [a, z], "reported": [st, st + du]})));
                } else if *st + *du != z {
                    ctx.violation("calibrated:source-span-end-is-not-latest-expanded-end", detail(json!({"source": idx, "expected": [a, z], "reported": [st, st + du]})));
                } else {
                    ctx.count("calibrated:span-is-hull");
                    if parts[*idx] > 1 {
                        ctx.count("calibrated:source-expanded-to-several");
                        if z - a != sum_of_parts[*idx] {
                            // gaps (e.g. FENCE-first bodies: the span starts at the fence, long before the pulse) or overlaps
                            ctx.count("calibrated:span-differs-from-sum-of-part-durations");
                        }
                    }
                }
            }
        }
    }
    for u in 0..n_sources {
        if expected[u].is_some() && seen[u] != 1 {
            ctx.violation(
                if seen[u] == 0 { "calibrated:source-instruction-missing-from-schedule" } else { "calibrated:source-instruction-appears-more-than-once" },
                detail(json!({"source": u})),
            );
        }
    }
    let latest = source.items.iter().map(|(_, st, du)| st + du).fold(0.0f64, f64::max);
    if source.duration != latest {
        ctx.violation("calibrated:schedule-duration-is-not-latest-end", detail(json!({"latest_end": latest, "reported": source.duration})));
    }
    if source.items.iter().filter(|it| it.2 > 0.0).count() >= 2 {
        ctx.nontrivial(&text);
        ctx.sample("calibrated-schedule", json!({"program": text, "source_schedule": source.to_json(), "expanded_schedule": s.to_json()}));
    }
}

fn run(ctx: &mut Ctx) {
    let mut pool = match Pool::new() {
        Ok(p) => p,
        Err(e) => {
            ctx.inconclusive(&format!("generator: {e}"));
            return;
        }
    };
    let tier = ctx.tier;
    let mut idx = 0u64;

    // (a) exhaustive timed blocks
    let header = standard_header(&pool);
    for len in 1..=tier.pick(3usize, 4usize) {
        let total = pool.alphabet_timed.len().pow(len as u32);
        for code in 0..total {
            idx += 1;
            if !ctx.mine(idx) {
                continue;
            }
            let mut case = header.clone();
            case.body = decode_sequence(&pool.alphabet_timed, len, code);
            plain_case(ctx, &pool, &case, "workload:exhaustive-timed-blocks");
            if ctx.done() {
                return;
            }
        }
    }

    // (b) random RF blocks
    let mut rng = ctx.rng(1);
    let n = ctx.share(tier.pick(400_000, 4_000_000));
    for _ in 0..n {
        let mut case = random_header(&pool, &mut rng, false, false);
        case.body = random_body(&pool, &mut rng, 10, BodyMix { rf: 1, classical: 0, control: 0, gates: 0 });
        // RESET has no duration: keep it rare so that most schedules can be computed
        if rng.chance(9, 10) {
            case.body.retain(|&i| pool.items[i].kind != Kind::Reset);
            if case.body.is_empty() {
                case.body.push(pool.alphabet_timed[0]);
            }
        }
        plain_case(ctx, &pool, &case, "workload:random-rf-blocks");
        if ctx.done() {
            return;
        }
    }

    // (c) calibrated programs
    let n = ctx.share(tier.pick(250_000, 2_500_000));
    for k in 0..n {
        let mut case = random_header(&pool, &mut rng, true, true);
        let mix = if k % 2 == 0 {
            BodyMix { rf: 3, classical: 0, control: 0, gates: 4 }
        } else {
            BodyMix { rf: 1, classical: 0, control: 0, gates: 3 }
        };
        case.body = random_body(&pool, &mut rng, 8, mix);
        if rng.chance(9, 10) {
            let header = case.clone();
            case.body.retain(|&i| {
                let it = &pool.items[i];
                it.kind != Kind::Reset && it.kind != Kind::Call && it.text != "CX 2" && pool.is_calibrated(&header, i)
            });
            if case.body.is_empty() {
                continue;
            }
        }
        calibrated_case(ctx, &mut pool, &case, "workload:calibrated-programs");
        if ctx.done() {
            return;
        }
    }
}
