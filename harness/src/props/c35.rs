//! C35 — dead-code removal (`Program::simplify`) keeps execution and removes exactly unused
//! definitions.
//!
//! With E = `P.expand_calibrations()` (the implementation's expansion; its correctness is C17's
//! subject) and S = `P.simplify(&DefaultHandler)`:
//!   * body(S) = body(E) and S has no calibrations;
//!   * frames(S) = { f defined in P : f ∈ used(matching_frames(E, i)) for some body instruction i },
//!     each with P's attributes;
//!   * waveforms(S) = P's waveform definitions invoked by a PULSE or CAPTURE of body(E), unchanged;
//!   * extern pragmas(S) = P's `PRAGMA EXTERN`s named by a CALL of body(E), unchanged;
//!   * declarations, gate definitions and circuits of S are P's;
//!   * every block schedule that can be computed for S or for E is computed for both and equal.

use crate::core::{guarded, Ctx};
use crate::gen::sched_prog::{random_body, random_header, BodyMix, Case, Kind, Pool};
use crate::props::sched_common::{frame_key, panic_inconclusive, sched_obs, SchedObs};
use crate::props::{PropInfo, DEFAULT};
use quil_rs::instruction::{DefaultHandler, Instruction, InstructionHandler, PragmaArgument};
use quil_rs::program::scheduling::ScheduledProgram;
use quil_rs::quil::Quil;
use quil_rs::Program;
use serde_json::json;
use std::collections::{BTreeMap, BTreeSet};

pub static INFO: PropInfo = PropInfo {
    id: "C35",
    run,
    rule: "random programs of 1..=8 body instructions mixing calibrated and uncalibrated gates, measurements, RF instructions, classical instructions, CALLs (declared and undeclared externs) and control flow, over headers with random subsets of 8 frames (qubits {0,1,2} x names {a,b}), 5 DEFWAVEFORMs (two only invoked inside calibration bodies, one never), 3 PRAGMA EXTERNs (one only called inside a calibration body, one never), 7 DEFCALs + 1 DEFCAL MEASURE, a DEFGATE and a DEFCIRCUIT; plus a deterministic battery where each single definition is used only through a calibration / only by CAPTURE / only blocked. distinct = program text; non-trivial = simplify removed at least one and kept at least one frame / waveform / extern definition.",
    assumptions: &[
        "\"the calibration-expanded body\" is Program::expand_calibrations of the same program (C17 owns its correctness)",
        "\"frames used by that body\" is the union of DefaultHandler::matching_frames(E, i).used over the body instructions i of E (C26 owns matching)",
        "\"waveforms it invokes\" = names in PULSE / CAPTURE waveform invocations of the expanded body, found by the monitor's own walk over the public AST",
        "schedules are compared only when at least one side computes one; two errors are not compared",
    ],
    exhaustive_quick: false,
    exhaustive_thorough: false,
    min_nontrivial: 1000,
    required_counters: &[
        "simplify:ok",
        "frames:removed-some",
        "frames:some-defined-frame-only-blocked",
        "waveforms:removed-some",
        "waveforms:kept-used-only-by-capture",
        "waveforms:kept-used-only-inside-calibration",
        "externs:removed-some",
        "externs:kept-used-only-inside-calibration",
        "schedule:block-compared-ok",
        "schedule:block-both-err",
        "body:expansion-changed-body",
        "unchanged:gate-definitions-present",
        "unchanged:circuits-present",
    ],
    ..DEFAULT
};

type BlockSched = Result<SchedObs, String>;

fn schedules(p: &Program) -> Result<Vec<BlockSched>, String> {
    let sp = ScheduledProgram::from_program(p, &DefaultHandler).map_err(|e| format!("{:?}", e.variant))?;
    Ok(sp
        .basic_blocks()
        .iter()
        .map(|b| {
            b.as_schedule_seconds(p, &DefaultHandler)
                .map(|s| sched_obs(&s))
                .map_err(|e| match e {
                    quil_rs::program::scheduling::ComputedScheduleError::UnknownDuration { .. } => "UnknownDuration".to_string(),
                    quil_rs::program::scheduling::ComputedScheduleError::InvalidDependencyGraph => "InvalidDependencyGraph".to_string(),
                })
        })
        .collect())
}

fn extern_name(i: &Instruction) -> Option<String> {
    match i {
        Instruction::Pragma(p) => match p.arguments.first() {
            Some(PragmaArgument::Identifier(n)) => Some(n.clone()),
            _ => None,
        },
        _ => None,
    }
}

/// Plain-data view of one program's definitions.
#[derive(Default)]
struct Defs {
    frames: BTreeMap<String, String>,
    waveforms: BTreeMap<String, String>,
    externs: BTreeMap<String, String>,
    calibrations: usize,
}

fn defs(p: &Program) -> Defs {
    let mut d = Defs::default();
    for (id, attrs) in p.frames.iter() {
        d.frames.insert(frame_key(id), format!("{attrs:?}"));
    }
    for (name, w) in &p.waveforms {
        d.waveforms.insert(name.clone(), format!("{w:?}"));
    }
    for i in p.extern_pragma_map.to_instructions() {
        d.externs.insert(extern_name(&i).unwrap_or_default(), i.to_quil_or_debug());
    }
    d.calibrations = p.calibrations.len();
    d
}

struct Observed {
    original: Defs,
    simplified: Defs,
    body_equal: bool,
    expanded_body: Vec<String>,
    simplified_body: Vec<String>,
    original_body_len: usize,
    /// frames used by the expanded body (implementation's matching on E)
    frames_used: BTreeSet<String>,
    /// frames that the expanded body only blocks
    frames_only_blocked: BTreeSet<String>,
    waveforms_invoked: BTreeSet<String>,
    waveforms_invoked_by_pulse: BTreeSet<String>,
    externs_called: BTreeSet<String>,
    decls_equal: bool,
    gates_equal: bool,
    circuits_equal: bool,
    n_gate_defs: usize,
    n_circuits: usize,
    sched_simplified: Result<Vec<BlockSched>, String>,
    sched_expanded: Result<Vec<BlockSched>, String>,
}

enum Outcome {
    BothErr,
    SimplifyErrOnly(String),
    ExpandErrOnly(String),
    Ok(Box<Observed>),
}

fn observe(p: &Program) -> Outcome {
    let e = p.expand_calibrations();
    let s = p.simplify(&DefaultHandler);
    let (e, s) = match (e, s) {
        (Err(_), Err(_)) => return Outcome::BothErr,
        (Ok(_), Err(err)) => return Outcome::SimplifyErrOnly(format!("{err}")),
        (Err(err), Ok(_)) => return Outcome::ExpandErrOnly(format!("{err}")),
        (Ok(e), Ok(s)) => (e, s),
    };
    let mut o = Observed {
        original: defs(p),
        simplified: defs(&s),
        body_equal: e.body_instructions().eq(s.body_instructions()),
        expanded_body: e.body_instructions().map(|i| i.to_quil_or_debug()).collect(),
        simplified_body: s.body_instructions().map(|i| i.to_quil_or_debug()).collect(),
        original_body_len: p.body_instructions().count(),
        frames_used: BTreeSet::new(),
        frames_only_blocked: BTreeSet::new(),
        waveforms_invoked: BTreeSet::new(),
        waveforms_invoked_by_pulse: BTreeSet::new(),
        externs_called: BTreeSet::new(),
        decls_equal: s.memory_regions == p.memory_regions,
        gates_equal: s.gate_definitions == p.gate_definitions,
        circuits_equal: s.circuits == p.circuits,
        n_gate_defs: p.gate_definitions.len(),
        n_circuits: p.circuits.len(),
        sched_simplified: schedules(&s),
        sched_expanded: schedules(&e),
    };
    let mut blocked = BTreeSet::new();
    for i in e.body_instructions() {
        if let Some(m) = DefaultHandler.matching_frames(&e, i) {
            o.frames_used.extend(m.used.iter().map(|f| frame_key(f)));
            blocked.extend(m.blocked.iter().map(|f| frame_key(f)));
        }
        match i {
            Instruction::Pulse(x) => {
                o.waveforms_invoked.insert(x.waveform.name.clone());
                o.waveforms_invoked_by_pulse.insert(x.waveform.name.clone());
            }
            Instruction::Capture(x) => {
                o.waveforms_invoked.insert(x.waveform.name.clone());
            }
            Instruction::Call(c) => {
                o.externs_called.insert(c.name.clone());
            }
            _ => {}
        }
    }
    o.frames_only_blocked = blocked.difference(&o.frames_used).cloned().collect();
    Outcome::Ok(Box::new(o))
}

/// Compare a kept-definition map with the expectation; returns (removed, kept).
fn compare_defs(
    ctx: &mut Ctx,
    what: &str,
    original: &BTreeMap<String, String>,
    simplified: &BTreeMap<String, String>,
    expected_names: &BTreeSet<String>,
    detail: &serde_json::Value,
) -> (usize, usize) {
    let want: BTreeSet<String> = original.keys().filter(|k| expected_names.contains(*k)).cloned().collect();
    let got: BTreeSet<String> = simplified.keys().cloned().collect();
    for k in want.difference(&got) {
        ctx.violation(&format!("{what}:used-definition-removed"), json!({"name": k, "case": detail}));
    }
    for k in got.difference(&want) {
        let sig = if original.contains_key(k) { format!("{what}:unused-definition-kept") } else { format!("{what}:definition-invented") };
        ctx.violation(&sig, json!({"name": k, "case": detail}));
    }
    for k in want.intersection(&got) {
        if original[k] != simplified[k] {
            ctx.violation(&format!("{what}:kept-definition-changed"), json!({"name": k, "before": original[k], "after": simplified[k]}));
        }
    }
    (original.len() - want.len(), want.len())
}

fn one_case(ctx: &mut Ctx, pool: &Pool, case: &Case, workload: &str) {
    let text = case.text(pool);
    if !ctx.begin(&text) {
        return;
    }
    ctx.count(workload);
    let outcome = match guarded(|| observe(&case.build(pool))) {
        Ok(o) => o,
        Err(p) => return panic_inconclusive(ctx, &p),
    };
    let o = match outcome {
        Outcome::BothErr => return ctx.count("simplify:err-and-expansion-err"),
        Outcome::ExpandErrOnly(e) => {
            ctx.count("simplify:ok-but-expansion-err");
            return ctx.inconclusive(&format!("expand_calibrations failed but simplify did not: {e}"));
        }
        Outcome::SimplifyErrOnly(e) => {
            return ctx.violation("simplify-fails-although-calibration-expansion-succeeds", json!({"error": e}));
        }
        Outcome::Ok(o) => o,
    };
    ctx.count("simplify:ok");
    let detail = json!({"expanded_body": o.expanded_body, "frames_used": o.frames_used, "frames_only_blocked": o.frames_only_blocked,
                        "waveforms_invoked": o.waveforms_invoked, "externs_called": o.externs_called});
    if !o.body_equal {
        ctx.violation("body-is-not-the-calibration-expanded-body", json!({"expanded": o.expanded_body, "simplified": o.simplified_body}));
    }
    if o.expanded_body.len() != o.original_body_len {
        ctx.count("body:expansion-changed-body");
    }
    if o.simplified.calibrations != 0 {
        ctx.violation("calibrations-kept", json!({"count": o.simplified.calibrations}));
    }
    let (fr_removed, fr_kept) = compare_defs(ctx, "frames", &o.original.frames, &o.simplified.frames, &o.frames_used, &detail);
    let (wf_removed, wf_kept) = compare_defs(ctx, "waveforms", &o.original.waveforms, &o.simplified.waveforms, &o.waveforms_invoked, &detail);
    let (ex_removed, ex_kept) = compare_defs(ctx, "externs", &o.original.externs, &o.simplified.externs, &o.externs_called, &detail);
    if !o.decls_equal {
        ctx.violation("declarations-changed", json!({}));
    }
    if !o.gates_equal {
        ctx.violation("gate-definitions-changed", json!({}));
    }
    if !o.circuits_equal {
        ctx.violation("circuits-changed", json!({}));
    }
    if o.n_gate_defs > 0 {
        ctx.count("unchanged:gate-definitions-present");
    }
    if o.n_circuits > 0 {
        ctx.count("unchanged:circuits-present");
    }
    // coverage of the interesting situations
    if fr_removed > 0 {
        ctx.count("frames:removed-some");
    }
    if o.frames_only_blocked.iter().any(|f| o.original.frames.contains_key(f)) {
        ctx.count("frames:some-defined-frame-only-blocked");
    }
    if wf_removed > 0 {
        ctx.count("waveforms:removed-some");
    }
    if o.waveforms_invoked.iter().any(|w| o.original.waveforms.contains_key(w) && !o.waveforms_invoked_by_pulse.contains(w)) {
        ctx.count("waveforms:kept-used-only-by-capture");
    }
    let body_names: BTreeSet<String> = case.body.iter().filter_map(|&i| pool.items[i].waveform.clone()).collect();
    if o.waveforms_invoked.iter().any(|w| o.original.waveforms.contains_key(w) && !body_names.contains(w)) {
        ctx.count("waveforms:kept-used-only-inside-calibration");
    }
    if ex_removed > 0 {
        ctx.count("externs:removed-some");
    }
    let body_callees: BTreeSet<String> = case.body.iter().filter_map(|&i| pool.items[i].callee.map(|c| c.to_string())).collect();
    if o.externs_called.iter().any(|c| o.original.externs.contains_key(c) && !body_callees.contains(c)) {
        ctx.count("externs:kept-used-only-inside-calibration");
    }
    // schedules
    match (&o.sched_expanded, &o.sched_simplified) {
        (Err(a), Err(b)) => {
            ctx.count("schedule:program-both-err");
            if a != b {
                ctx.count("schedule:program-both-err-different-variants(not judged)");
            }
        }
        (Ok(_), Err(b)) => ctx.violation("schedule:expanded-program-schedules-but-simplified-does-not", json!({"error": b, "case": detail})),
        (Err(a), Ok(_)) => ctx.violation("schedule:simplified-program-schedules-but-expanded-does-not", json!({"error": a, "case": detail})),
        (Ok(a), Ok(b)) => {
            if a.len() != b.len() {
                ctx.violation("schedule:different-number-of-blocks", json!({"expanded": a.len(), "simplified": b.len()}));
            } else {
                for (k, (x, y)) in a.iter().zip(b.iter()).enumerate() {
                    match (x, y) {
                        (Ok(x), Ok(y)) => {
                            if x == y {
                                ctx.count("schedule:block-compared-ok");
                                if x.items.len() >= 2 {
                                    ctx.count("schedule:block-compared-ok-with-2+-items");
                                }
                            } else {
                                ctx.violation("schedule:block-schedules-differ", json!({"block": k, "expanded": x.to_json(), "simplified": y.to_json(), "case": detail}));
                            }
                        }
                        (Err(_), Err(_)) => ctx.count("schedule:block-both-err"),
                        (Ok(_), Err(e)) => ctx.violation("schedule:block-computed-for-expanded-only", json!({"block": k, "error": e, "case": detail})),
                        (Err(e), Ok(_)) => ctx.violation("schedule:block-computed-for-simplified-only", json!({"block": k, "error": e, "case": detail})),
                    }
                }
            }
        }
    }
    let removed = fr_removed + wf_removed + ex_removed;
    let kept = fr_kept + wf_kept + ex_kept;
    if removed >= 1 && kept >= 1 {
        ctx.nontrivial(&text);
        ctx.sample("simplified-program", json!({"program": text, "kept": {"frames": o.simplified.frames.keys().collect::<Vec<_>>(), "waveforms": o.simplified.waveforms.keys().collect::<Vec<_>>(), "externs": o.simplified.externs.keys().collect::<Vec<_>>()}}));
    }
}

fn run(ctx: &mut Ctx) {
    let pool = match Pool::new() {
        Ok(p) => p,
        Err(e) => {
            ctx.inconclusive(&format!("generator: {e}"));
            return;
        }
    };
    let tier = ctx.tier;
    let mut idx = 0u64;

    // deterministic battery: full header, every single pool item as the whole body, and every pair
    // (gate-or-measure, RF instruction)
    let mut full = Case { decls: true, ..Case::default() };
    for key in crate::gen::sched_prog::candidate_frames() {
        full.frames.push(pool.frame_def(&key, crate::gen::sched_prog::Rate::Num(1.0)));
    }
    full.waves = (0..pool.wave_defs.len()).collect();
    full.externs = (0..pool.extern_defs.len()).collect();
    full.cals = (0..pool.cal_defs.len()).collect();
    full.meas_cals = vec![0];
    full.others = (0..pool.other_defs.len()).collect();
    for i in 0..pool.items.len() {
        idx += 1;
        if !ctx.mine(idx) {
            continue;
        }
        let mut case = full.clone();
        case.body = vec![i];
        one_case(ctx, &pool, &case, "workload:battery-single-instruction");
        if ctx.done() {
            return;
        }
    }
    for &g in &pool.gates {
        for &r in &pool.rf {
            idx += 1;
            if !ctx.mine(idx) {
                continue;
            }
            let mut case = full.clone();
            case.body = vec![g, r];
            one_case(ctx, &pool, &case, "workload:battery-gate-then-rf");
            if ctx.done() {
                return;
            }
        }
    }

    // random programs
    let mut rng = ctx.rng(1);
    let n = ctx.share(tier.pick(500_000, 3_000_000));
    for k in 0..n {
        let mut case = random_header(&pool, &mut rng, true, true);
        let mix = match k % 4 {
            0 => BodyMix { rf: 3, classical: 1, control: 0, gates: 4 },
            1 => BodyMix { rf: 2, classical: 2, control: 1, gates: 3 },
            2 => BodyMix { rf: 1, classical: 0, control: 0, gates: 3 },
            _ => BodyMix { rf: 4, classical: 1, control: 0, gates: 1 },
        };
        case.body = random_body(&pool, &mut rng, 8, mix);
        if k % 4 == 2 {
            // mostly schedulable: drop what can never be scheduled
            let header = case.clone();
            case.body.retain(|&i| {
                let it = &pool.items[i];
                it.kind != Kind::Reset && it.callee != Some("enone") && pool.is_calibrated(&header, i)
            });
            if case.body.is_empty() {
                continue;
            }
        }
        one_case(ctx, &pool, &case, "workload:random-programs");
        if ctx.done() {
            return;
        }
    }
}
