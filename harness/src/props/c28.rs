//! C28 — the control-flow graph partitions the body and locates its blocks.
//!
//! Every body over a small alphabet of labels, jumps, halts and ordinary instructions is turned
//! into a `Program`; `ControlFlowGraph::from(&program)` is observed (labels, instructions,
//! terminators, offsets, `has_dynamic_control_flow`) and judged against the statement:
//!
//!  1. writing the blocks out in order (label, instructions, terminator) gives back the body
//!     (INCLUDE excepted);
//!  2. labels / jumps / halts never hide inside a block's instruction list (they must be the
//!     block's label or terminator — "each block's terminator reflects its JUMP … or HALT");
//!     terminator target / condition / polarity are checked through (1) with the harness' own
//!     terminator→instruction conversion (`jump_if_condition_zero` ⇔ JUMP-UNLESS);
//!  3. `has_dynamic_control_flow` ⇔ the body contains JUMP-WHEN or JUMP-UNLESS;
//!  4. (INCLUDE-free bodies) each block's offset is the body position of its first element, so
//!     `body[offset + has_label + i] == block.instructions[i]`.
//!
//! The maximal-block reference partition (`model::analysis_cfg`) is compared as well, but only as a
//! coverage counter: the statement does not forbid splitting a straight-line run.

use crate::core::{guarded, Ctx, Tier};
use crate::gen::analysis_ast::{declare, frame, gate, kind, mref, num, q, show_instruction};
use crate::model::analysis_cfg::{has_conditional_jump, partition, Elem};
use crate::props::{PropInfo, DEFAULT};
use quil_rs::instruction::*;
use quil_rs::program::analysis::{BasicBlockTerminator, ControlFlowGraph};
use quil_rs::Program;
use serde_json::json;

pub static INFO: PropInfo = PropInfo {
    id: "C28",
    run,
    rule: "cases: every body of length 0..=7 (thorough: 0..=8) over the 8-token alphabet {X 0, NOP, LABEL @a, LABEL @b, JUMP @a, JUMP-WHEN @a r[0], JUMP-UNLESS @b r[0], HALT}, enumerated completely and sharded by index (partition, terminators, dynamic flag, offsets); plus every body of length <=6 (thorough: <=7) over those 8 tokens + INCLUDE that contains at least one INCLUDE (partition / terminator / dynamic-flag clauses only); plus every body of length <=3 (thorough: <=4) over one representative of each of the 27 instruction kinds that can sit inside a block + LABEL @a, JUMP @a, JUMP-UNLESS @a r[0], HALT (all clauses). distinct = distinct body text; non-trivial = the observed graph has >= 2 blocks.",
    assumptions: &[
        "the program body is the instruction list in insertion order (owned by C09)",
        "offsets are asserted on INCLUDE-free bodies only (INCLUDE is in the body but in no block)",
        "the statement does not require maximal blocks: agreement with the maximal-block reference partition is reported as a counter, not asserted",
    ],
    exhaustive_quick: true,
    exhaustive_thorough: true,
    exhaustive_note: "all bodies of length <= 7 (quick) / <= 8 (thorough) over the 8-token alphabet, and all INCLUDE-containing bodies of length <= 6 / <= 7 over the 9-token alphabet, and all bodies of length <= 3 / <= 4 over the 31-instruction every-kind alphabet; nothing is sampled",
    min_nontrivial: 1000,
    required_counters: &[
        "terminator:Continue",
        "terminator:Jump",
        "terminator:JumpWhen",
        "terminator:JumpUnless",
        "terminator:Halt",
        "dynamic:true",
        "dynamic:false",
        "offsets:blocks-checked",
        "workload:with-include",
        "workload:every-instruction-kind",
    ],
    watchdog_s: 120,
    ..DEFAULT
};

const TOKENS: [&str; 9] = [
    "X 0",
    "NOP",
    "LABEL @a",
    "LABEL @b",
    "JUMP @a",
    "JUMP-WHEN @a r[0]",
    "JUMP-UNLESS @b r[0]",
    "HALT",
    "INCLUDE \"f.quil\"",
];
const INCLUDE_TOKEN: usize = 8;

fn elem_of(tok: usize) -> Elem {
    match tok {
        0 | 1 => Elem::Plain,
        2 | 3 => Elem::Label,
        4 => Elem::Jump,
        5 => Elem::JumpWhen,
        6 => Elem::JumpUnless,
        7 => Elem::Halt,
        _ => Elem::Include,
    }
}

fn target(name: &str) -> Target {
    Target::Fixed(name.to_string())
}

fn instruction_of(tok: usize) -> Instruction {
    match tok {
        0 => gate("X", vec![], &[0], vec![]),
        1 => Instruction::Nop(),
        2 => Instruction::Label(Label { target: target("a") }),
        3 => Instruction::Label(Label { target: target("b") }),
        4 => Instruction::Jump(Jump { target: target("a") }),
        5 => Instruction::JumpWhen(JumpWhen {
            target: target("a"),
            condition: mref("r", 0),
        }),
        6 => Instruction::JumpUnless(JumpUnless {
            target: target("b"),
            condition: mref("r", 0),
        }),
        7 => Instruction::Halt(),
        _ => Instruction::Include(Include {
            filename: "f.quil".to_string(),
        }),
    }
}

/// Owned copy of what the graph reported for one block.
struct ObsBlock {
    label: Option<Target>,
    instructions: Vec<Instruction>,
    terminator: ObsTerm,
    offset: usize,
}

enum ObsTerm {
    Continue,
    Jump(Target),
    Conditional {
        condition: MemoryReference,
        target: Target,
        jump_if_condition_zero: bool,
    },
    Halt,
}

impl ObsTerm {
    fn name(&self) -> &'static str {
        match self {
            ObsTerm::Continue => "Continue",
            ObsTerm::Jump(_) => "Jump",
            ObsTerm::Conditional {
                jump_if_condition_zero: false,
                ..
            } => "JumpWhen",
            ObsTerm::Conditional {
                jump_if_condition_zero: true,
                ..
            } => "JumpUnless",
            ObsTerm::Halt => "Halt",
        }
    }
    /// Harness-side reading of a terminator: JUMP-UNLESS jumps when the condition is zero.
    fn instruction(&self) -> Option<Instruction> {
        match self {
            ObsTerm::Continue => None,
            ObsTerm::Jump(t) => Some(Instruction::Jump(Jump { target: t.clone() })),
            ObsTerm::Conditional {
                condition,
                target,
                jump_if_condition_zero,
            } => Some(if *jump_if_condition_zero {
                Instruction::JumpUnless(JumpUnless {
                    target: target.clone(),
                    condition: condition.clone(),
                })
            } else {
                Instruction::JumpWhen(JumpWhen {
                    target: target.clone(),
                    condition: condition.clone(),
                })
            }),
            ObsTerm::Halt => Some(Instruction::Halt()),
        }
    }
}

fn observe(instructions: &[Instruction]) -> (Vec<ObsBlock>, bool) {
    let mut all = vec![declare("r", ScalarType::Bit, 1)];
    all.extend(instructions.iter().cloned());
    let program = Program::from_instructions(all);
    let graph = ControlFlowGraph::from(&program);
    let dynamic = graph.has_dynamic_control_flow();
    let blocks = graph
        .into_blocks()
        .iter()
        .map(|b| ObsBlock {
            label: b.label().cloned(),
            instructions: b.instructions().iter().map(|i| (*i).clone()).collect(),
            terminator: match b.terminator() {
                BasicBlockTerminator::Continue => ObsTerm::Continue,
                BasicBlockTerminator::Jump { target } => ObsTerm::Jump((*target).clone()),
                BasicBlockTerminator::ConditionalJump {
                    condition,
                    target,
                    jump_if_condition_zero,
                } => ObsTerm::Conditional {
                    condition: (*condition).clone(),
                    target: (*target).clone(),
                    jump_if_condition_zero: *jump_if_condition_zero,
                },
                BasicBlockTerminator::Halt => ObsTerm::Halt,
            },
            offset: b.instruction_index_offset(),
        })
        .collect();
    (blocks, dynamic)
}

fn is_control(i: &Instruction) -> bool {
    matches!(
        i,
        Instruction::Label(_)
            | Instruction::Jump(_)
            | Instruction::JumpWhen(_)
            | Instruction::JumpUnless(_)
            | Instruction::Halt()
    )
}

fn judge_tokens(ctx: &mut Ctx, toks: &[usize], text: &str) {
    let body: Vec<Instruction> = toks.iter().map(|t| instruction_of(*t)).collect();
    let elems: Vec<Elem> = toks.iter().map(|t| elem_of(*t)).collect();
    let has_include = toks.contains(&INCLUDE_TOKEN);
    ctx.count(if has_include { "workload:with-include" } else { "workload:include-free" });
    judge(ctx, &body, &elems, text);
}

fn judge(ctx: &mut Ctx, body: &[Instruction], elems: &[Elem], text: &str) {
    let has_include = elems.contains(&Elem::Include);
    ctx.count(&format!("body-length:{}", body.len()));

    let (blocks, dynamic) = match guarded(|| observe(body)) {
        Ok(o) => o,
        Err(p) => {
            ctx.violation(&p.signature(), json!({"panic": p.to_json()}));
            return;
        }
    };
    ctx.count(&format!("blocks:{}", blocks.len().min(6)));
    ctx.max("blocks", blocks.len() as u64);
    if blocks.len() >= 2 {
        ctx.nontrivial(text);
    }
    for b in &blocks {
        ctx.count(&format!("terminator:{}", b.terminator.name()));
        ctx.count(if b.label.is_some() { "block:labeled" } else { "block:unlabeled" });
    }
    let shape = |blocks: &[ObsBlock]| -> Vec<serde_json::Value> {
        blocks
            .iter()
            .map(|b| {
                json!({
                    "label": b.label.as_ref().map(|t| format!("{t:?}")),
                    "n_instructions": b.instructions.len(),
                    "terminator": b.terminator.name(),
                    "offset": b.offset,
                })
            })
            .collect()
    };

    // (2) control-flow instructions never inside a block's instruction list
    let mut structure_ok = true;
    for (k, b) in blocks.iter().enumerate() {
        if let Some(bad) = b.instructions.iter().find(|i| is_control(i)) {
            structure_ok = false;
            ctx.violation(
                &format!("control-instruction-inside-block-instructions:{}", kind(bad)),
                json!({"block": k, "blocks": shape(&blocks)}),
            );
            break;
        }
    }

    // (1) reconstruction
    let expected: Vec<&Instruction> = body
        .iter()
        .filter(|i| !matches!(i, Instruction::Include(_)))
        .collect();
    let mut written: Vec<Instruction> = Vec::new();
    for b in &blocks {
        if let Some(l) = &b.label {
            written.push(Instruction::Label(Label { target: l.clone() }));
        }
        written.extend(b.instructions.iter().cloned());
        if let Some(t) = b.terminator.instruction() {
            written.push(t);
        }
    }
    let same = written.len() == expected.len() && written.iter().zip(&expected).all(|(a, b)| a == *b);
    if !same {
        structure_ok = false;
        let d = (0..written.len().max(expected.len()))
            .find(|&i| written.get(i) != expected.get(i).copied())
            .unwrap_or(0);
        let name = |x: Option<&Instruction>| x.map(kind).unwrap_or("end-of-body");
        ctx.violation(
            &format!(
                "blocks-do-not-reproduce-body:expected-{}:got-{}",
                name(expected.get(d).copied()),
                name(written.get(d))
            ),
            json!({"first_difference_at": d, "blocks": shape(&blocks)}),
        );
    }

    // (3) dynamic flag
    let want_dynamic = has_conditional_jump(elems);
    ctx.count(if dynamic { "dynamic:true" } else { "dynamic:false" });
    if dynamic != want_dynamic {
        ctx.violation(
            &format!("dynamic-control-flow-flag:expected-{want_dynamic}:got-{dynamic}"),
            json!({"blocks": shape(&blocks)}),
        );
    }

    // reference (maximal-block) partition: counter only
    let model = partition(elems);
    let agrees = model.len() == blocks.len()
        && model.iter().zip(&blocks).all(|(m, b)| {
            m.label.is_some() == b.label.is_some()
                && m.instructions.len() == b.instructions.len()
                && m.terminator.is_some() == b.terminator.instruction().is_some()
        });
    ctx.count(if agrees { "partition:equals-maximal-model" } else { "partition:differs-from-maximal-model" });

    // (4) offsets, INCLUDE-free bodies whose partition is sound
    if has_include || !structure_ok {
        return;
    }
    let mut pos = 0usize;
    for (k, b) in blocks.iter().enumerate() {
        ctx.count("offsets:blocks-checked");
        let has_label = usize::from(b.label.is_some());
        if b.offset != pos {
            let prev = if k == 0 {
                "none".to_string()
            } else {
                let p = &blocks[k - 1];
                format!(
                    "{}-{}",
                    if p.label.is_some() { "labeled" } else { "unlabeled" },
                    if p.terminator.instruction().is_some() { "terminated" } else { "fallthrough" }
                )
            };
            let delta = b.offset as i64 - pos as i64;
            // does the offset at least find the instructions?
            let finds = b
                .instructions
                .iter()
                .enumerate()
                .all(|(i, ins)| body.get(b.offset + has_label + i) == Some(ins));
            ctx.violation(
                &format!("block-offset-wrong:delta{delta:+}:previous-block-{prev}"),
                json!({
                    "block": k, "reported_offset": b.offset, "body_position_of_first_element": pos,
                    "offset_based_lookup_finds_instructions": finds, "blocks": shape(&blocks),
                }),
            );
            return;
        }
        for (i, ins) in b.instructions.iter().enumerate() {
            if body.get(b.offset + has_label + i) != Some(ins) {
                ctx.violation(
                    "offset-based-index-misses-instruction",
                    json!({"block": k, "i": i, "blocks": shape(&blocks)}),
                );
                return;
            }
        }
        pos += has_label + b.instructions.len() + usize::from(b.terminator.instruction().is_some());
    }
}

fn enumerate(ctx: &mut Ctx, alphabet: usize, len: usize, need_include: bool, idx: &mut u64) {
    let total = (alphabet as u64).pow(len as u32);
    let mut toks = vec![0usize; len];
    for code in 0..total {
        let mut c = code;
        for t in toks.iter_mut() {
            *t = (c % alphabet as u64) as usize;
            c /= alphabet as u64;
        }
        if need_include && !toks.contains(&INCLUDE_TOKEN) {
            continue;
        }
        *idx += 1;
        if !ctx.mine(*idx) {
            continue;
        }
        let text = toks.iter().map(|t| TOKENS[*t]).collect::<Vec<_>>().join("; ");
        if !ctx.begin(&text) {
            continue;
        }
        judge_tokens(ctx, &toks, &text);
        if ctx.done() {
            return;
        }
    }
}

/// One representative of each of the 27 instruction kinds that live inside a block, followed by
/// LABEL @a, JUMP @a, JUMP-UNLESS @a r[0], HALT (workload (c)).
fn wide_alphabet() -> Vec<(Instruction, Elem)> {
    let r = |i| mref("r", i);
    let fr = |name: &str| frame(name, &[0]);
    let wf = || WaveformInvocation { name: "flat".to_string(), parameters: Default::default() };
    let plain: Vec<Instruction> = vec![
        Instruction::Arithmetic(Arithmetic { operator: ArithmeticOperator::Add, destination: r(0), source: ArithmeticOperand::LiteralInteger(1) }),
        Instruction::BinaryLogic(BinaryLogic { operator: BinaryOperator::And, destination: r(0), source: BinaryOperand::LiteralInteger(1) }),
        Instruction::Call(Call { name: "ext".to_string(), arguments: vec![UnresolvedCallArgument::Identifier("r".to_string())] }),
        Instruction::Capture(Capture { blocking: true, frame: fr("ro"), memory_reference: r(0), waveform: wf() }),
        Instruction::Convert(Convert { destination: r(0), source: r(1) }),
        Instruction::Comparison(Comparison { operator: ComparisonOperator::Equal, destination: r(0), lhs: r(1), rhs: ComparisonOperand::LiteralInteger(0) }),
        Instruction::Delay(Delay { duration: num(1e-6), frame_names: vec![], qubits: vec![q(0)] }),
        Instruction::Fence(Fence { qubits: vec![] }),
        Instruction::Exchange(Exchange { left: r(0), right: r(1) }),
        gate("X", vec![], &[0], vec![]),
        Instruction::Load(Load { destination: r(0), source: "r".to_string(), offset: r(1) }),
        Instruction::Pragma(Pragma { name: "NOTE".to_string(), arguments: vec![], data: None }),
        Instruction::Measurement(Measurement { name: None, qubit: q(0), target: Some(r(0)) }),
        Instruction::Move(Move { destination: r(0), source: ArithmeticOperand::LiteralInteger(1) }),
        Instruction::Nop(),
        Instruction::Pulse(Pulse { blocking: true, frame: fr("rf"), waveform: wf() }),
        Instruction::RawCapture(RawCapture { blocking: true, frame: fr("ro"), duration: num(1e-6), memory_reference: r(0) }),
        Instruction::Reset(Reset { qubit: None }),
        Instruction::SetFrequency(SetFrequency { frame: fr("rf"), frequency: num(1.0) }),
        Instruction::SetPhase(SetPhase { frame: fr("rf"), phase: num(1.0) }),
        Instruction::SetScale(SetScale { frame: fr("rf"), scale: num(1.0) }),
        Instruction::ShiftFrequency(ShiftFrequency { frame: fr("rf"), frequency: num(1.0) }),
        Instruction::ShiftPhase(ShiftPhase { frame: fr("rf"), phase: num(1.0) }),
        Instruction::Store(Store { destination: "r".to_string(), offset: r(0), source: ArithmeticOperand::LiteralInteger(1) }),
        Instruction::SwapPhases(SwapPhases { frame_1: fr("rf"), frame_2: fr("ro") }),
        Instruction::UnaryLogic(UnaryLogic { operator: UnaryOperator::Not, operand: r(0) }),
        Instruction::Wait(),
    ];
    let mut out: Vec<(Instruction, Elem)> = plain.into_iter().map(|i| (i, Elem::Plain)).collect();
    out.push((instruction_of(2), Elem::Label));
    out.push((instruction_of(4), Elem::Jump));
    out.push((
        Instruction::JumpUnless(JumpUnless { target: target("a"), condition: mref("r", 0) }),
        Elem::JumpUnless,
    ));
    out.push((Instruction::Halt(), Elem::Halt));
    out
}

fn enumerate_wide(ctx: &mut Ctx, len: usize, idx: &mut u64) {
    let alphabet = wide_alphabet();
    let n = alphabet.len() as u64;
    for code in 0..n.pow(len as u32) {
        *idx += 1;
        if !ctx.mine(*idx) {
            continue;
        }
        let mut c = code;
        let mut body = Vec::with_capacity(len);
        let mut elems = Vec::with_capacity(len);
        for _ in 0..len {
            let (i, e) = &alphabet[(c % n) as usize];
            body.push(i.clone());
            elems.push(*e);
            c /= n;
        }
        let text = body.iter().map(show_instruction).collect::<Vec<_>>().join("; ");
        if !ctx.begin(&text) {
            continue;
        }
        ctx.count("workload:every-instruction-kind");
        for i in &body {
            ctx.count(&format!("kind-in-body:{}", kind(i)));
        }
        judge(ctx, &body, &elems, &text);
        if ctx.done() {
            return;
        }
    }
}

fn run(ctx: &mut Ctx) {
    let mut idx = 0u64;
    let max_len = ctx.tier.pick(7, 8);
    for len in 0..=max_len {
        enumerate(ctx, 8, len, false, &mut idx);
        if ctx.done() {
            return;
        }
    }
    let max_len_inc = match ctx.tier {
        Tier::Quick => 6,
        Tier::Thorough => 7,
    };
    for len in 1..=max_len_inc {
        enumerate(ctx, 9, len, true, &mut idx);
        if ctx.done() {
            return;
        }
    }
    for len in 1..=ctx.tier.pick(3, 4) {
        enumerate_wide(ctx, len, &mut idx);
        if ctx.done() {
            return;
        }
    }
    if ctx.shard == 0 {
        ctx.sample("body", json!("X 0; LABEL @a; NOP; JUMP-UNLESS @b r[0]; LABEL @b; HALT"));
        ctx.sample("body-with-include", json!("X 0; INCLUDE \"f.quil\"; LABEL @a; JUMP @a"));
    }
}
