//! C10 — a program's used-qubit set and equality depend only on its content.
//!
//! Random histories of public `Program` operations are generated completely up front (every
//! operand — instructions to add, programs to concatenate, filter masks, resolvers, loop
//! parameters — is part of the recorded history), then executed one step at a time.  After
//! **every** step the monitor observes `to_instructions()`, `get_used_qubits()` and judges
//!
//! (a) `get_used_qubits()` == ⋃ `Instruction::get_qubits(i)` over the listing (the library's own
//!     public per-instruction notion of "qubits of an instruction", not a stricter one);
//! (b) a second program with the *same listing* (`Program::from_instructions(listing)`, accepted
//!     only if its own listing is identical) compares `==`;
//! (c) `DefaultHandler::matching_frames` of a bare `RESET` agrees between those two programs.
//!
//! (b) and (c) are reported under their own signature only when (a) holds (otherwise they are
//! consequences of the stale cache and are recorded in the detail of the (a) violation).
//! Signature = operation family of the step at which the program first diverged + direction
//! (cache lacks mentioned qubits / cache keeps qubits no instruction mentions).  After a
//! divergence the state is replaced by the rebuilt (consistent) program so that later steps of
//! the history are judged on their own.

use crate::core::{clip, guarded, Ctx, Rng};
use crate::gen::container_gen::{describe, ContainerGen, GenCfg, Item, Kind, DEF_KINDS};
use crate::props::container_util::*;
use crate::props::{PropInfo, DEFAULT};
use quil_rs::instruction::{
    DefaultHandler, Gate, Instruction, InstructionHandler, MemoryReference, Qubit, Reset, Target,
    TargetPlaceholder,
};
use quil_rs::Program;
use serde_json::json;
use std::collections::{BTreeSet, HashSet};
use std::str::FromStr;

pub static INFO: PropInfo = PropInfo {
    id: "C10",
    run,
    rule: "random histories: one constructor (parse of a serialized generated program / from_instructions / add_instructions on an empty program; 10 % gate-only programs so that dagger applies) followed by 1-7 operations drawn from {add_instruction, add_instructions, p + q, p += q, q + p, clone, clone_without_body_instructions, resolve_placeholders (default / custom total / custom partial), expand_calibrations (with and without source map), expand_defgate_sequences (consuming / with source map, random name filter), simplify, filter_instructions (random mask), wrap_in_loop (0/1/2/5 iterations), dagger, into_instructions+from_instructions}; generated programs have calibrations and measure calibrations that mention qubits 5-7 which body instructions never use, re-used calibration keys, frames on those qubits, qubit and target placeholders. Judged after every step. distinct = distinct history rendering; non-trivial = at least one operation after the constructor changed the listing.",
    assumptions: &[
        "\"qubits mentioned by an instruction\" is Instruction::get_qubits (DESIGN section 4 C10)",
        "a rebuilt program is used for the equality clause only when its listing is identical to the original's (up to 6 rebuilds are tried because FrameSet iteration order varies per instance)",
        "an operation that returns Err leaves the state unchanged; a panic inside an operation is not this property's subject (recorded as inconclusive, history abandoned)",
    ],
    min_nontrivial: 100,
    required_counters: &[
        "op-ok:parse",
        "op-ok:from_instructions",
        "op-ok:add_instruction",
        "op-ok:add",
        "op-ok:add_assign",
        "op-ok:clone",
        "op-ok:clone_without_body_instructions",
        "op-ok:resolve_placeholders",
        "op-ok:resolve_placeholders_with_custom_resolvers",
        "op-ok:expand_calibrations",
        "op-ok:expand_calibrations_with_source_map",
        "op-ok:expand_defgate_sequences",
        "op-ok:expand_defgate_sequences_with_source_map",
        "op-ok:simplify",
        "op-ok:filter_instructions",
        "op-ok:wrap_in_loop",
        "op-ok:dagger",
        "equality-clause:judged",
        "reset-clause:judged-with-frames",
        "calibration-expanded",
        "defgate-sequence-expanded",
        "placeholder-resolved",
    ],
    watchdog_s: 120,
    ..DEFAULT
};

#[derive(Clone, Debug)]
enum Op {
    Parse(Vec<Item>),
    FromInstructions(Vec<Item>),
    AddInstructionsOnEmpty(Vec<Item>),
    AddInstruction(Item),
    AddInstructions(Vec<Item>),
    /// p + q
    Add(Vec<Item>),
    /// q + p
    AddLeft(Vec<Item>),
    /// p += q
    AddAssign(Vec<Item>),
    Clone,
    CloneWithoutBody,
    ResolveDefault,
    /// custom resolvers: qubit placeholders -> this fixed index (None = leave), targets resolved or not
    ResolveCustom(Option<u64>, bool),
    ExpandCalibrations(bool),
    /// (with source map, mask over the sequence-gate names the filter answers `true` for)
    ExpandDefgate(bool, u8),
    Simplify,
    Filter(u64),
    /// (iterations, placeholder target, memory region name index)
    WrapInLoop(u32, bool, usize),
    Dagger,
    IntoFrom,
}

impl Op {
    /// Operation name as in the public API.
    fn name(&self) -> &'static str {
        match self {
            Op::Parse(_) => "parse",
            Op::FromInstructions(_) => "from_instructions",
            Op::AddInstructionsOnEmpty(_) | Op::AddInstructions(_) => "add_instructions",
            Op::AddInstruction(_) => "add_instruction",
            Op::Add(_) | Op::AddLeft(_) => "add",
            Op::AddAssign(_) => "add_assign",
            Op::Clone => "clone",
            Op::CloneWithoutBody => "clone_without_body_instructions",
            Op::ResolveDefault => "resolve_placeholders",
            Op::ResolveCustom(..) => "resolve_placeholders_with_custom_resolvers",
            Op::ExpandCalibrations(false) => "expand_calibrations",
            Op::ExpandCalibrations(true) => "expand_calibrations_with_source_map",
            Op::ExpandDefgate(false, _) => "expand_defgate_sequences",
            Op::ExpandDefgate(true, _) => "expand_defgate_sequences_with_source_map",
            Op::Simplify => "simplify",
            Op::Filter(_) => "filter_instructions",
            Op::WrapInLoop(..) => "wrap_in_loop",
            Op::Dagger => "dagger",
            Op::IntoFrom => "into_instructions+from_instructions",
        }
    }
    /// Family used in violation signatures: operations that share one code path for the cache.
    fn family(&self) -> &'static str {
        match self {
            Op::Parse(_)
            | Op::FromInstructions(_)
            | Op::AddInstructionsOnEmpty(_)
            | Op::AddInstructions(_)
            | Op::AddInstruction(_)
            | Op::IntoFrom => "add_instruction",
            Op::Add(_) | Op::AddLeft(_) | Op::AddAssign(_) => "concatenation",
            Op::ExpandCalibrations(_) => "expand_calibrations",
            Op::ExpandDefgate(..) => "expand_defgate_sequences",
            Op::ResolveDefault | Op::ResolveCustom(..) => "resolve_placeholders",
            other => other.name(),
        }
    }
    fn render(&self) -> String {
        let items = |v: &Vec<Item>| format!("[\n    {}\n  ]", describe(v).replace('\n', "\n    "));
        match self {
            Op::Parse(v) => format!("parse(serialization of {})", items(v)),
            Op::FromInstructions(v) => format!("from_instructions {}", items(v)),
            Op::AddInstructionsOnEmpty(v) => format!("new + add_instructions {}", items(v)),
            Op::AddInstruction(i) => format!("add_instruction [{}]", i.desc),
            Op::AddInstructions(v) => format!("add_instructions {}", items(v)),
            Op::Add(v) => format!("p = p + from_instructions {}", items(v)),
            Op::AddLeft(v) => format!("p = from_instructions {} + p", items(v)),
            Op::AddAssign(v) => format!("p += from_instructions {}", items(v)),
            Op::ResolveCustom(q, t) => format!("resolve_placeholders_with_custom_resolvers(qubits -> {q:?}, targets resolved: {t})"),
            Op::ExpandDefgate(sm, mask) => format!("{}(filter mask {mask:#05b} over SEQ1,SEQ2,HSEQ)", if *sm { "expand_defgate_sequences_with_source_map" } else { "expand_defgate_sequences" }),
            Op::Filter(mask) => format!("filter_instructions(keep i-th visited instruction iff bit i%64 of {mask:#x})"),
            Op::WrapInLoop(n, ph, r) => format!("wrap_in_loop({}[0], {}, {n})", LOOP_REGIONS[*r], if *ph { "placeholder target" } else { "@loop_start" }),
            other => other.name().to_string(),
        }
    }
}

const LOOP_REGIONS: [&str; 2] = ["shots", "loop_counter"];
const SEQ_NAMES: [&str; 3] = ["SEQ1", "SEQ2", "HSEQ"];

fn small_items(rng: &mut Rng, n_max: usize) -> Vec<Item> {
    let mut g = ContainerGen::new(rng, GenCfg::c10());
    let n = 1 + g.rng.below(n_max);
    (0..n)
        .map(|_| {
            if g.rng.chance(1, 2) {
                g.body()
            } else {
                let kind = *g.rng.pick(&DEF_KINDS);
                // calibrations twice as likely: they are what carries qubits outside the body
                let kind = if g.rng.chance(1, 3) { *g.rng.pick(&[Kind::Defcal, Kind::DefcalMeasure]) } else { kind };
                let k = g.rng.below(8);
                g.definition(kind, k)
            }
        })
        .collect()
}

fn gate_only(rng: &mut Rng) -> Vec<Item> {
    let n = 1 + rng.below(5);
    (0..n)
        .map(|_| {
            let q = rng.below(4) as u64;
            let name = *rng.pick(&["X", "H", "Y", "SEQ1"]);
            Item {
                kind: Kind::Body,
                key: String::new(),
                instr: Instruction::Gate(Gate {
                    name: name.to_string(),
                    parameters: vec![],
                    qubits: vec![Qubit::Fixed(q)],
                    modifiers: vec![],
                }),
                desc: format!("{name} {q}"),
            }
        })
        .collect()
}

fn gen_history(seed: u64, shard: usize, k: u64) -> Vec<Op> {
    let mut rng = Rng::from_parts(&[0xC10, seed, shard as u64, k]);
    let mut ops = Vec::new();
    // constructor
    let gates_only = rng.chance(1, 10);
    let first = if gates_only {
        gate_only(&mut rng)
    } else {
        let mut cfg = GenCfg::c10();
        let c = rng.below(3);
        if c == 0 {
            cfg.placeholders = false; // must serialize
        }
        let items = ContainerGen::new(&mut rng, cfg).sequence();
        ops.push(match c {
            0 => Op::Parse(items),
            1 => Op::FromInstructions(items),
            _ => Op::AddInstructionsOnEmpty(items),
        });
        Vec::new()
    };
    if gates_only {
        ops.push(Op::FromInstructions(first));
    }
    let n = 1 + rng.below(7);
    for _ in 0..n {
        let op = match rng.below(if gates_only { 24 } else { 21 }) {
            0 => Op::AddInstruction(small_items(&mut rng, 1).remove(0)),
            1 => Op::AddInstructions(small_items(&mut rng, 4)),
            2 => {
                let items = ContainerGen::new(&mut rng, GenCfg::c10()).sequence();
                Op::Add(items)
            }
            3 => Op::AddAssign(small_items(&mut rng, 5)),
            4 => Op::AddLeft(small_items(&mut rng, 5)),
            5 => Op::Clone,
            6 | 7 => Op::CloneWithoutBody,
            8 => Op::ResolveDefault,
            9 => Op::ResolveCustom(if rng.chance(2, 3) { Some(8 + rng.below(3) as u64) } else { None }, rng.chance(1, 2)),
            10 | 11 => Op::ExpandCalibrations(rng.chance(1, 2)),
            12 | 13 => Op::ExpandDefgate(rng.chance(1, 2), rng.below(8) as u8),
            14 => Op::Simplify,
            15 | 16 => Op::Filter(rng.next() | rng.next()),
            17 | 18 => Op::WrapInLoop(*rng.pick(&[0u32, 1, 2, 5]), rng.chance(1, 2), rng.below(2)),
            19 => Op::IntoFrom,
            _ => Op::Dagger,
        };
        ops.push(op);
    }
    ops
}

fn from_items(items: &[Item]) -> Program {
    build_from_instructions(items)
}

/// Apply one operation.  `Ok(Some(p'))` new state, `Ok(None)` the operation returned an error
/// (state unchanged).
fn apply(op: &Op, p: Program) -> Result<Program, (Program, String)> {
    match op {
        Op::Parse(items) => {
            let text = match from_items(items).to_quil() {
                Ok(t) => t,
                Err(e) => return Err((p, format!("to_quil: {e}"))),
            };
            Program::from_str(&text).map_err(|e| (p, format!("parse: {}", clip(&e.to_string(), 80))))
        }
        Op::FromInstructions(items) => Ok(from_items(items)),
        Op::AddInstructionsOnEmpty(items) => {
            let mut q = Program::new();
            q.add_instructions(items.iter().map(|i| i.instr.clone()));
            Ok(q)
        }
        Op::AddInstruction(item) => {
            let mut p = p;
            p.add_instruction(item.instr.clone());
            Ok(p)
        }
        Op::AddInstructions(items) => {
            let mut p = p;
            p.add_instructions(items.iter().map(|i| i.instr.clone()));
            Ok(p)
        }
        Op::Add(items) => Ok(p + from_items(items)),
        Op::AddLeft(items) => Ok(from_items(items) + p),
        Op::AddAssign(items) => {
            let mut p = p;
            p += from_items(items);
            Ok(p)
        }
        Op::Clone => Ok(p.clone()),
        Op::CloneWithoutBody => Ok(p.clone_without_body_instructions()),
        Op::ResolveDefault => {
            let mut p = p;
            p.resolve_placeholders();
            Ok(p)
        }
        Op::ResolveCustom(q, targets) => {
            let mut p = p;
            let (q, targets) = (*q, *targets);
            p.resolve_placeholders_with_custom_resolvers(
                Box::new(move |t: &TargetPlaceholder| if targets { Some(format!("{}_resolved", t.as_inner())) } else { None }),
                Box::new(move |_| q),
            );
            Ok(p)
        }
        Op::ExpandCalibrations(false) => p.expand_calibrations().map_err(|e| (p, clip(&e.to_string(), 80))),
        Op::ExpandCalibrations(true) => {
            let r = p.expand_calibrations_with_source_map().map(|(q, _)| q);
            r.map_err(|e| (p, clip(&e.to_string(), 80)))
        }
        Op::ExpandDefgate(false, mask) => {
            let backup = p.clone();
            let mask = *mask;
            p.expand_defgate_sequences(move |name| SEQ_NAMES.iter().position(|n| *n == name).map(|i| mask >> i & 1 == 1).unwrap_or(true))
                .map_err(|e| (backup, clip(&e.to_string(), 80)))
        }
        Op::ExpandDefgate(true, mask) => {
            let mask = *mask;
            let r = p
                .expand_defgate_sequences_with_source_map(move |name| {
                    SEQ_NAMES.iter().position(|n| *n == name).map(|i| mask >> i & 1 == 1).unwrap_or(true)
                })
                .map(|(q, _)| q)
                .map_err(|e| clip(&e.to_string(), 80));
            r.map_err(|e| (p, e))
        }
        Op::Simplify => p.simplify(&DefaultHandler).map_err(|e| (p, clip(&e.to_string(), 80))),
        Op::Filter(mask) => {
            let mask = *mask;
            let mut i = 0u32;
            Ok(p.filter_instructions(move |_| {
                let keep = mask >> (i % 64) & 1 == 1;
                i += 1;
                keep
            }))
        }
        Op::WrapInLoop(n, placeholder, region) => {
            let target = if *placeholder {
                Target::Placeholder(TargetPlaceholder::new("loop".to_string()))
            } else {
                Target::Fixed("loop_start".to_string())
            };
            Ok(p.wrap_in_loop(
                MemoryReference { name: LOOP_REGIONS[*region].to_string(), index: 0 },
                target,
                *n,
            ))
        }
        Op::Dagger => p.dagger().map_err(|e| (p, clip(&e.to_string(), 80))),
        Op::IntoFrom => Ok(Program::from_instructions(p.into_instructions())),
    }
}

use quil_rs::quil::Quil;

struct StepObs {
    listing: Vec<Instruction>,
    used: HashSet<Qubit>,
    mentioned: HashSet<Qubit>,
    /// a program rebuilt from the listing whose own listing is identical, if one was obtained
    rebuilt: Option<Program>,
    rebuilt_equal: Option<bool>,
    reset_frames_equal: Option<bool>,
    n_frames: usize,
}

fn reset_frames(p: &Program) -> (BTreeSet<String>, BTreeSet<String>) {
    let reset = Instruction::Reset(Reset { qubit: None });
    match DefaultHandler.matching_frames(p, &reset) {
        Some(m) => (
            m.used.iter().map(|f| format!("{f:?}")).collect(),
            m.blocked.iter().map(|f| format!("{f:?}")).collect(),
        ),
        None => (BTreeSet::new(), BTreeSet::new()),
    }
}

fn observe_step(p: &Program) -> StepObs {
    let listing = p.to_instructions();
    let used = p.get_used_qubits().clone();
    let mentioned: HashSet<Qubit> = listing.iter().flat_map(|i| i.get_qubits().into_iter().cloned()).collect();
    let mut rebuilt = None;
    for _ in 0..6 {
        let r = Program::from_instructions(listing.clone());
        if r.to_instructions() == listing {
            rebuilt = Some(r);
            break;
        }
    }
    let rebuilt_equal = rebuilt.as_ref().map(|r| r == p);
    let reset_frames_equal = rebuilt.as_ref().map(|r| reset_frames(r) == reset_frames(p));
    StepObs {
        n_frames: p.frames.len(),
        listing,
        used,
        mentioned,
        rebuilt,
        rebuilt_equal,
        reset_frames_equal,
    }
}

/// Does this step re-define a calibration (same signature as one already in the program, or two
/// definitions with one signature among the operands)?  If so, return the qubits of every
/// calibration definition involved (the only possible sources of stale cache entries that a
/// re-definition can explain); `None` if no re-definition is involved.
fn calibration_redefinition(op: &Op, before: &Program) -> Option<HashSet<Qubit>> {
    let operands: &[Item] = match op {
        Op::Parse(v) | Op::FromInstructions(v) | Op::AddInstructionsOnEmpty(v) => v,
        Op::AddInstructions(v) | Op::Add(v) | Op::AddLeft(v) | Op::AddAssign(v) => v,
        Op::AddInstruction(i) => std::slice::from_ref(i),
        _ => return None,
    };
    let fresh = matches!(op, Op::Parse(_) | Op::FromInstructions(_) | Op::AddInstructionsOnEmpty(_));
    let mut existing: Vec<Instruction> = Vec::new();
    if !fresh {
        existing.extend(before.calibrations.to_instructions());
    }
    let mut redefinition = false;
    let mut qubits: HashSet<Qubit> = existing.iter().flat_map(|i| i.get_qubits().into_iter().cloned()).collect();
    let same_signature = |a: &Instruction, b: &Instruction| match (a, b) {
        (Instruction::CalibrationDefinition(x), Instruction::CalibrationDefinition(y)) => x.identifier == y.identifier,
        (Instruction::MeasureCalibrationDefinition(x), Instruction::MeasureCalibrationDefinition(y)) => {
            x.identifier == y.identifier
        }
        _ => false,
    };
    for it in operands.iter().filter(|i| matches!(i.kind, Kind::Defcal | Kind::DefcalMeasure)) {
        if existing.iter().any(|e| same_signature(e, &it.instr)) {
            redefinition = true;
        }
        qubits.extend(it.instr.get_qubits().into_iter().cloned());
        existing.push(it.instr.clone());
    }
    redefinition.then_some(qubits)
}

fn qubits_text(s: &HashSet<Qubit>) -> Vec<String> {
    let mut v: Vec<String> = s
        .iter()
        .map(|q| match q {
            Qubit::Fixed(i) => i.to_string(),
            Qubit::Variable(v) => v.clone(),
            Qubit::Placeholder(_) => "{placeholder}".to_string(),
        })
        .collect();
    v.sort();
    v
}

fn run(ctx: &mut Ctx) {
    let tier = ctx.tier;
    let (seed, shard) = (ctx.seed, ctx.shard);
    let n_cases = ctx.share(tier.pick(480_000, 4_000_000));
    for k in 0..n_cases {
        let history = gen_history(seed, shard, k);
        let desc = format!(
            "history {k}:\n{}",
            history.iter().enumerate().map(|(i, op)| format!("  {i}. {}", op.render())).collect::<Vec<_>>().join("\n")
        );
        if !ctx.begin(&desc) {
            continue;
        }
        let mut p = Program::new();
        let mut prev_listing: Option<Vec<Instruction>> = None;
        let mut changed_after_constructor = false;
        let mut reported: BTreeSet<String> = BTreeSet::new();
        ctx.max("history-length", history.len() as u64);

        for (step, op) in history.iter().enumerate() {
            let had_placeholders = p.get_used_qubits().iter().any(|q| matches!(q, Qubit::Placeholder(_)));
            let body_len_before = p.body_instructions().count();
            let stale_sources = guarded(|| calibration_redefinition(op, &p)).unwrap_or(None);
            let outcome = guarded(|| apply(op, std::mem::take(&mut p)));
            match outcome {
                Err(panic) => {
                    ctx.inconclusive(&format!("panic-in-operation:{}", op.name()));
                    ctx.count(&format!("op-panic:{}:{}", op.name(), panic.signature().chars().take(70).collect::<String>()));
                    break;
                }
                Ok(Err((old, why))) => {
                    p = old;
                    ctx.count(&format!("op-err:{}", op.name()));
                    ctx.count(&format!("op-err-reason:{}:{}", op.name(), why.chars().take(44).collect::<String>()));
                    continue;
                }
                Ok(Ok(new)) => {
                    p = new;
                    ctx.count(&format!("op-ok:{}", op.name()));
                }
            }
            let obs = match guarded(|| observe_step(&p)) {
                Ok(o) => o,
                Err(_) => {
                    ctx.inconclusive("panic-while-observing");
                    break;
                }
            };
            // coverage of what the operations did
            match op {
                Op::ExpandCalibrations(_) | Op::Simplify if obs.listing.iter().filter(|i| crate::gen::container_gen::kind_of(i) == Kind::Body).count() != body_len_before => {
                    ctx.count("calibration-expanded")
                }
                Op::ExpandDefgate(..) if prev_listing.as_ref() != Some(&obs.listing) => ctx.count("defgate-sequence-expanded"),
                Op::ResolveDefault | Op::ResolveCustom(..)
                    if had_placeholders && !obs.used.iter().any(|q| matches!(q, Qubit::Placeholder(_))) =>
                {
                    ctx.count("placeholder-resolved")
                }
                _ => {}
            }
            if step > 0 && prev_listing.as_ref() != Some(&obs.listing) {
                changed_after_constructor = true;
                ctx.count(&format!("op-changed-listing:{}", op.name()));
            }

            // (a) cache == mentioned
            let missing: HashSet<Qubit> = obs.mentioned.difference(&obs.used).cloned().collect();
            let extra: HashSet<Qubit> = obs.used.difference(&obs.mentioned).cloned().collect();
            let cache_ok = missing.is_empty() && extra.is_empty();
            ctx.count("used-qubit-clause:judged");
            if !cache_ok {
                let direction = match (!missing.is_empty(), !extra.is_empty()) {
                    (true, false) => "cache-lacks-mentioned-qubits",
                    (false, true) => "cache-keeps-unmentioned-qubits",
                    _ => "cache-lacks-and-keeps",
                };
                // Make the signature specific to what can be told apart from the outside:
                // * lacking qubits that only calibration definitions mention vs. lacking body qubits;
                // * surplus qubits that a calibration *re*-definition in this step explains vs. not.
                let body_mentioned: HashSet<Qubit> = obs
                    .listing
                    .iter()
                    .filter(|i| crate::gen::container_gen::kind_of(i) == Kind::Body)
                    .flat_map(|i| i.get_qubits().into_iter().cloned())
                    .collect();
                let detail_tag = match direction {
                    "cache-lacks-mentioned-qubits" => {
                        if missing.iter().all(|q| !body_mentioned.contains(q)) {
                            ":of-calibrations-only"
                        } else {
                            ":incl-body-qubits"
                        }
                    }
                    "cache-keeps-unmentioned-qubits" => match &stale_sources {
                        Some(src) if extra.iter().all(|q| src.contains(q)) => ":after-calibration-redefinition",
                        _ => ":unexplained",
                    },
                    _ => "",
                };
                let sig = format!("used-qubits:{}:{direction}{detail_tag}", op.family());
                if reported.insert(sig.clone()) {
                    ctx.violation(
                        &sig,
                        json!({
                            "step": step, "operation": op.name(),
                            "get_used_qubits": qubits_text(&obs.used),
                            "mentioned_by_listing": qubits_text(&obs.mentioned),
                            "missing_from_cache": qubits_text(&missing),
                            "only_in_cache": qubits_text(&extra),
                            "same_listing_program_equal": obs.rebuilt_equal,
                            "bare_reset_frames_equal": obs.reset_frames_equal,
                            "listing": clip_listing(&obs.listing, 25),
                        }),
                    );
                }
            }
            // (b), (c)
            match obs.rebuilt_equal {
                None => ctx.count("equality-clause:no-rebuild-with-identical-listing"),
                Some(eq) => {
                    ctx.count("equality-clause:judged");
                    if !eq && cache_ok {
                        let sig = format!("equality:{}:same-listing-not-equal", op.family());
                        if reported.insert(sig.clone()) {
                            ctx.violation(&sig, json!({"step": step, "operation": op.name(), "listing": clip_listing(&obs.listing, 25)}));
                        }
                    }
                    if obs.n_frames > 0 {
                        ctx.count("reset-clause:judged-with-frames");
                    }
                    if obs.reset_frames_equal == Some(false) {
                        ctx.count("reset-clause:differs");
                        if cache_ok {
                            let sig = format!("reset-frames:{}:differ-for-same-listing", op.family());
                            if reported.insert(sig.clone()) {
                                ctx.violation(&sig, json!({"step": step, "operation": op.name()}));
                            }
                        }
                    }
                }
            }
            // repair after a divergence so that later steps are judged on their own
            if !cache_ok || obs.rebuilt_equal == Some(false) {
                p = match obs.rebuilt {
                    Some(r) => r,
                    None => match guarded(|| Program::from_instructions(obs.listing.clone())) {
                        Ok(r) => r,
                        Err(_) => break,
                    },
                };
                ctx.count("state-repaired-after-divergence");
            }
            prev_listing = Some(obs.listing);
        }
        if changed_after_constructor {
            ctx.nontrivial(&desc);
        }
        if k < 2 && shard == 0 {
            ctx.sample("history", json!(desc));
        }
        if ctx.done() {
            return;
        }
    }
}
