//! C30 — type checking is per-instruction and follows the typing rules.
//!
//! Observed: `quil_rs::program::type_check::type_check` on generated programs.  Oracle, clause by
//! clause of the statement:
//!
//!  (i)   the program type-checks  ⇔  every body instruction type-checks on its own against the
//!        program's declarations (metamorphic: the per-instruction verdicts are the library's own);
//!  (ii)  a SET-*/SHIFT-* instruction is accepted ⇔ its expression is real-valued by the rule of
//!        `model::analysis_types` (declared REAL memory, real numbers, pi, closed under operators and
//!        functions, no variables, at any depth);
//!  (iii) the verdict is unchanged by a bijective renaming of the regions (declarations renamed
//!        along), by permuting the body and by duplicating a body instruction.

use crate::core::{guarded, Ctx, Rng};
use crate::gen::analysis_ast::{
    addr, call, cnum, declare, expr_depth, gate, infix, kind, mref, num, pi, pick_str, prefix,
    show_instruction, var, FUNCTIONS, INFIX_OPS, PREFIX_OPS,
};
use crate::gen::analysis_extern::scalar;
use crate::gen::analysis_instr::{InstrGen, ARITH_OPS, BINARY_OPS, COMPARISON_OPS};
use crate::model::analysis_extern::Ty;
use crate::model::analysis_types::{real_valued, Decls};
use crate::props::{PropInfo, DEFAULT};
use quil_rs::expression::{
    Expression, ExpressionFunction, FunctionCallExpression, InfixExpression, InfixOperator,
    PrefixExpression, PrefixOperator,
};
use quil_rs::instruction::*;
use quil_rs::program::type_check::type_check;
use quil_rs::Program;
use serde_json::json;

pub static INFO: PropInfo = PropInfo {
    id: "C30",
    run,
    rule: "cases: (a) every SET-FREQUENCY/SET-PHASE/SET-SCALE/SHIFT-FREQUENCY/SHIFT-PHASE instruction whose expression is a tree of depth <= 1 over the leaves {x[0], y[1] (REAL), n[0] (INTEGER), b[0] (BIT), u[0] (undeclared), 1.5, 2i, pi, %v} or one of ~5.5k depth-2 shapes over them, as a single-instruction program (enumerated, sharded by index); (b) random programs of 1..=5 body instructions over declarations {b:BIT[2], o:OCTET[2], n,m:INTEGER[2], x,y:REAL[2]} and the undeclared name u: every classical instruction and operator with every operand kind (60% steered towards well-typed operand combinations, 40% unconstrained), SET-*/SHIFT-* with expressions to depth 3, and instructions the checker ignores (gates, DELAY, JUMP-WHEN, MEASURE, CONVERT, NOP); each program is checked whole, instruction by instruction, renamed, permuted and with one instruction duplicated. distinct = distinct program text; non-trivial = >= 2 body instructions of which exactly one is ill-typed on its own, or a SET-*/SHIFT-* expression of depth >= 2.",
    assumptions: &[
        "per-instruction verdicts in clause (i) are the library's own verdicts on one-instruction programs with the same declarations",
        "numbers are generated with imaginary part exactly 0 or at least 0.5 in magnitude",
        "memory-reference indices are in range",
    ],
    exhaustive_quick: false,
    exhaustive_thorough: false,
    exhaustive_note: "sub-space (a) (all expression trees of depth <= 1 over 9 leaves and a fixed family of depth-2 shapes, x 5 instruction kinds) is enumerated completely; (b) is sampled",
    min_nontrivial: 1000,
    required_counters: &[
        "verdict:ok", "verdict:err", "exactly-one-ill-typed", "set-shift:accepted", "set-shift:rejected",
        "kind:Arithmetic", "kind:BinaryLogic", "kind:UnaryLogic", "kind:Move", "kind:Exchange",
        "kind:Comparison", "kind:Load", "kind:Store", "kind:SetFrequency", "kind:SetPhase",
        "kind:SetScale", "kind:ShiftFrequency", "kind:ShiftPhase", "workload:expression-enumeration",
        "workload:random-program",
    ],
    watchdog_s: 120,
    ..DEFAULT
};

const DECLS: [(&str, Ty); 6] = [
    ("b", Ty::Bit),
    ("o", Ty::Octet),
    ("n", Ty::Integer),
    ("m", Ty::Integer),
    ("x", Ty::Real),
    ("y", Ty::Real),
];
const ALL_NAMES: [&str; 7] = ["b", "o", "n", "m", "x", "y", "u"];

fn decl_instructions(rename: &dyn Fn(&str) -> String) -> Vec<Instruction> {
    DECLS.iter().map(|(n, t)| declare(&rename(n), scalar(*t), 2)).collect()
}

fn model_decls() -> Decls {
    DECLS.iter().map(|(n, t)| (n.to_string(), *t)).collect()
}

// ---------------------------------------------------------------------------------------------
// renaming (harness-side walk over every kind the generator produces)

fn rn_ref(m: &MemoryReference, f: &dyn Fn(&str) -> String) -> MemoryReference {
    MemoryReference { name: f(&m.name), index: m.index }
}

fn rn_expr(e: &Expression, f: &dyn Fn(&str) -> String) -> Expression {
    match e {
        Expression::Address(m) => Expression::Address(rn_ref(m, f)),
        Expression::FunctionCall(c) => Expression::FunctionCall(FunctionCallExpression::new(
            c.function,
            rn_expr(&c.expression, f).into(),
        )),
        Expression::Infix(i) => Expression::Infix(InfixExpression::new(
            rn_expr(&i.left, f).into(),
            i.operator,
            rn_expr(&i.right, f).into(),
        )),
        Expression::Prefix(p) => {
            Expression::Prefix(PrefixExpression::new(p.operator, rn_expr(&p.expression, f).into()))
        }
        Expression::Number(_) | Expression::PiConstant() | Expression::Variable(_) => e.clone(),
    }
}

fn rn_arith(o: &ArithmeticOperand, f: &dyn Fn(&str) -> String) -> ArithmeticOperand {
    match o {
        ArithmeticOperand::MemoryReference(m) => ArithmeticOperand::MemoryReference(rn_ref(m, f)),
        other => other.clone(),
    }
}

/// `None` for a kind the renamer does not know (the generator never produces one).
fn rn_instruction(i: &Instruction, f: &dyn Fn(&str) -> String) -> Option<Instruction> {
    Some(match i {
        Instruction::Arithmetic(a) => Instruction::Arithmetic(Arithmetic {
            operator: a.operator,
            destination: rn_ref(&a.destination, f),
            source: rn_arith(&a.source, f),
        }),
        Instruction::BinaryLogic(b) => Instruction::BinaryLogic(BinaryLogic {
            operator: b.operator,
            destination: rn_ref(&b.destination, f),
            source: match &b.source {
                BinaryOperand::MemoryReference(m) => BinaryOperand::MemoryReference(rn_ref(m, f)),
                other => other.clone(),
            },
        }),
        Instruction::UnaryLogic(u) => Instruction::UnaryLogic(UnaryLogic {
            operator: u.operator,
            operand: rn_ref(&u.operand, f),
        }),
        Instruction::Move(m) => Instruction::Move(Move {
            destination: rn_ref(&m.destination, f),
            source: rn_arith(&m.source, f),
        }),
        Instruction::Exchange(e) => Instruction::Exchange(Exchange {
            left: rn_ref(&e.left, f),
            right: rn_ref(&e.right, f),
        }),
        Instruction::Convert(c) => Instruction::Convert(Convert {
            destination: rn_ref(&c.destination, f),
            source: rn_ref(&c.source, f),
        }),
        Instruction::Comparison(c) => Instruction::Comparison(Comparison {
            operator: c.operator,
            destination: rn_ref(&c.destination, f),
            lhs: rn_ref(&c.lhs, f),
            rhs: match &c.rhs {
                ComparisonOperand::MemoryReference(m) => ComparisonOperand::MemoryReference(rn_ref(m, f)),
                other => other.clone(),
            },
        }),
        Instruction::Load(l) => Instruction::Load(Load {
            destination: rn_ref(&l.destination, f),
            source: f(&l.source),
            offset: rn_ref(&l.offset, f),
        }),
        Instruction::Store(s) => Instruction::Store(Store {
            destination: f(&s.destination),
            offset: rn_ref(&s.offset, f),
            source: rn_arith(&s.source, f),
        }),
        Instruction::SetFrequency(s) => Instruction::SetFrequency(SetFrequency {
            frame: s.frame.clone(),
            frequency: rn_expr(&s.frequency, f),
        }),
        Instruction::SetPhase(s) => Instruction::SetPhase(SetPhase { frame: s.frame.clone(), phase: rn_expr(&s.phase, f) }),
        Instruction::SetScale(s) => Instruction::SetScale(SetScale { frame: s.frame.clone(), scale: rn_expr(&s.scale, f) }),
        Instruction::ShiftFrequency(s) => Instruction::ShiftFrequency(ShiftFrequency {
            frame: s.frame.clone(),
            frequency: rn_expr(&s.frequency, f),
        }),
        Instruction::ShiftPhase(s) => Instruction::ShiftPhase(ShiftPhase { frame: s.frame.clone(), phase: rn_expr(&s.phase, f) }),
        Instruction::Gate(g) => Instruction::Gate(Gate {
            name: g.name.clone(),
            parameters: g.parameters.iter().map(|e| rn_expr(e, f)).collect(),
            qubits: g.qubits.clone(),
            modifiers: g.modifiers.clone(),
        }),
        Instruction::Delay(d) => Instruction::Delay(Delay {
            duration: rn_expr(&d.duration, f),
            frame_names: d.frame_names.clone(),
            qubits: d.qubits.clone(),
        }),
        Instruction::JumpWhen(j) => Instruction::JumpWhen(JumpWhen { target: j.target.clone(), condition: rn_ref(&j.condition, f) }),
        Instruction::JumpUnless(j) => Instruction::JumpUnless(JumpUnless { target: j.target.clone(), condition: rn_ref(&j.condition, f) }),
        Instruction::Measurement(m) => Instruction::Measurement(Measurement {
            name: m.name.clone(),
            qubit: m.qubit.clone(),
            target: m.target.as_ref().map(|t| rn_ref(t, f)),
        }),
        Instruction::Nop() => Instruction::Nop(),
        _ => return None,
    })
}

/// Position (relative to its parent) of the first leaf that makes `e` not real-valued.
fn first_offender(e: &Expression, decls: &Decls, position: &'static str) -> Option<&'static str> {
    match e {
        Expression::FunctionCall(c) => first_offender(&c.expression, decls, "function-argument"),
        Expression::Prefix(p) => first_offender(&p.expression, decls, "prefix-operand"),
        Expression::Infix(i) => first_offender(&i.left, decls, "infix-left-operand")
            .or_else(|| first_offender(&i.right, decls, "infix-right-operand")),
        leaf => {
            if real_valued(leaf, decls) == Some(false) {
                Some(position)
            } else {
                None
            }
        }
    }
}

fn set_shift_expression(i: &Instruction) -> Option<&Expression> {
    match i {
        Instruction::SetFrequency(s) => Some(&s.frequency),
        Instruction::SetPhase(s) => Some(&s.phase),
        Instruction::SetScale(s) => Some(&s.scale),
        Instruction::ShiftFrequency(s) => Some(&s.frequency),
        Instruction::ShiftPhase(s) => Some(&s.phase),
        _ => None,
    }
}

// ---------------------------------------------------------------------------------------------
// generation

fn r(name: &str, rng: &mut Rng) -> MemoryReference {
    mref(name, rng.below(2) as u64)
}

/// An instruction whose operand types are chosen to be plausible (steering only; the verdict is
/// always the implementation's).
fn steered(rng: &mut Rng, gen_real: &InstrGen) -> Instruction {
    let int = |rng: &mut Rng| *rng.pick(&["n", "m"]);
    let real = |rng: &mut Rng| *rng.pick(&["x", "y"]);
    match rng.below(14) {
        0 => {
            let (d, s) = if rng.chance(1, 2) {
                let d = r(int(rng), rng);
                let s = if rng.chance(1, 2) {
                    ArithmeticOperand::MemoryReference(r(int(rng), rng))
                } else {
                    ArithmeticOperand::LiteralInteger(rng.range(1, 5))
                };
                (d, s)
            } else {
                let d = r(real(rng), rng);
                let s = if rng.chance(1, 2) {
                    ArithmeticOperand::MemoryReference(r(real(rng), rng))
                } else {
                    ArithmeticOperand::LiteralReal(1.5)
                };
                (d, s)
            };
            Instruction::Arithmetic(Arithmetic { operator: *rng.pick(&ARITH_OPS), destination: d, source: s })
        }
        1 => Instruction::BinaryLogic(BinaryLogic {
            operator: *rng.pick(&BINARY_OPS),
            destination: r(pick_str(rng, &["b", "o", "n", "m"]), rng),
            source: if rng.chance(1, 2) {
                BinaryOperand::LiteralInteger(rng.range(0, 3))
            } else {
                BinaryOperand::MemoryReference(r(pick_str(rng, &["b", "o", "n", "m"]), rng))
            },
        }),
        2 => {
            if rng.chance(1, 2) {
                Instruction::UnaryLogic(UnaryLogic { operator: UnaryOperator::Neg, operand: r(pick_str(rng, &["n", "m", "x", "y"]), rng) })
            } else {
                Instruction::UnaryLogic(UnaryLogic { operator: UnaryOperator::Not, operand: r(pick_str(rng, &["b", "o", "n"]), rng) })
            }
        }
        3 => {
            let (d, s) = match rng.below(4) {
                0 => (r(int(rng), rng), ArithmeticOperand::MemoryReference(r(int(rng), rng))),
                1 => (r(pick_str(rng, &["b", "o", "n"]), rng), ArithmeticOperand::LiteralInteger(1)),
                2 => (r(real(rng), rng), ArithmeticOperand::MemoryReference(r(real(rng), rng))),
                _ => (r(real(rng), rng), ArithmeticOperand::LiteralReal(0.5)),
            };
            Instruction::Move(Move { destination: d, source: s })
        }
        4 => {
            let t = *rng.pick(&[["n", "m"], ["x", "y"], ["b", "b"], ["o", "o"]]);
            Instruction::Exchange(Exchange { left: r(t[0], rng), right: r(t[1], rng) })
        }
        5 => {
            let (l, rhs) = match rng.below(4) {
                0 => (r(int(rng), rng), ComparisonOperand::MemoryReference(r(int(rng), rng))),
                1 => (r(int(rng), rng), ComparisonOperand::LiteralInteger(3)),
                2 => (r(real(rng), rng), ComparisonOperand::MemoryReference(r(real(rng), rng))),
                _ => (r(real(rng), rng), ComparisonOperand::LiteralReal(2.5)),
            };
            Instruction::Comparison(Comparison { operator: *rng.pick(&COMPARISON_OPS), destination: r("b", rng), lhs: l, rhs })
        }
        6 => {
            let t = *rng.pick(&[["n", "m"], ["x", "y"], ["m", "m"]]);
            Instruction::Load(Load { destination: r(t[0], rng), source: t[1].to_string(), offset: r(int(rng), rng) })
        }
        7 => {
            let (dst, src) = match rng.below(3) {
                0 => ("m", ArithmeticOperand::MemoryReference(r("n", rng))),
                1 => ("n", ArithmeticOperand::LiteralInteger(2)),
                _ => ("y", ArithmeticOperand::LiteralReal(1.5)),
            };
            Instruction::Store(Store { destination: dst.to_string(), offset: r(int(rng), rng), source: src })
        }
        8..=10 => gen_real.frame_update(rng),
        11 => gate("RX", vec![var("theta")], &[0], vec![]),
        12 => Instruction::Nop(),
        _ => Instruction::Measurement(Measurement { name: None, qubit: Qubit::Fixed(0), target: Some(r("b", rng)) }),
    }
}

fn unconstrained(rng: &mut Rng, gen_any: &InstrGen) -> Instruction {
    match rng.below(10) {
        0..=5 => gen_any.classical(rng),
        6..=7 => gen_any.frame_update(rng),
        8 => gen_any.conditional_jump(rng),
        _ => Instruction::Delay(Delay { duration: gen_any.expr(rng), frame_names: vec![], qubits: vec![Qubit::Fixed(0)] }),
    }
}

// ---------------------------------------------------------------------------------------------
// observation + judgement

struct Verdicts {
    whole: bool,
    whole_error: Option<String>,
    singles: Vec<bool>,
    renamed: Option<bool>,
    permuted: bool,
    duplicated: bool,
}

fn check(decls: &[Instruction], body: &[Instruction]) -> Result<(), String> {
    let mut all = decls.to_vec();
    all.extend(body.iter().cloned());
    type_check(&Program::from_instructions(all)).map_err(|e| {
        // error class only (the message embeds the instruction)
        format!("{e:?}").split([' ', '{', '(']).next().unwrap_or("").to_string()
    })
}

struct Variants {
    renamed_decls: Vec<Instruction>,
    renamed_body: Option<Vec<Instruction>>,
    permuted: Vec<Instruction>,
    duplicated: Vec<Instruction>,
}

fn observe(decls: &[Instruction], body: &[Instruction], v: &Variants) -> Verdicts {
    let whole = check(decls, body);
    Verdicts {
        whole: whole.is_ok(),
        whole_error: whole.err(),
        singles: body.iter().map(|i| check(decls, std::slice::from_ref(i)).is_ok()).collect(),
        renamed: v.renamed_body.as_ref().map(|b| check(&v.renamed_decls, b).is_ok()),
        permuted: check(decls, &v.permuted).is_ok(),
        duplicated: check(decls, &v.duplicated).is_ok(),
    }
}

fn judge(ctx: &mut Ctx, rng_variants: &mut Rng, body: &[Instruction], text: &str) {
    let identity = |s: &str| s.to_string();
    let decls = decl_instructions(&identity);
    // variants are part of the case: generated before execution
    let mut new_names: Vec<String> = if rng_variants.chance(1, 2) {
        ALL_NAMES.iter().map(|s| s.to_string()).collect()
    } else {
        ["Zeta", "q_1", "mem-a", "RO", "theta2", "_k", "w9"].iter().map(|s| s.to_string()).collect()
    };
    rng_variants.shuffle(&mut new_names);
    let table: Vec<(String, String)> = ALL_NAMES.iter().map(|s| s.to_string()).zip(new_names).collect();
    let rename = |s: &str| table.iter().find(|(a, _)| a == s).map(|(_, b)| b.clone()).unwrap_or_else(|| s.to_string());
    let renamed_body: Option<Vec<Instruction>> = body.iter().map(|i| rn_instruction(i, &rename)).collect();
    let mut permuted = body.to_vec();
    rng_variants.shuffle(&mut permuted);
    let mut duplicated = body.to_vec();
    if !body.is_empty() {
        let which = rng_variants.below(body.len());
        let at = rng_variants.below(body.len() + 1);
        duplicated.insert(at, body[which].clone());
    }
    let variants = Variants { renamed_decls: decl_instructions(&rename), renamed_body, permuted, duplicated };

    for i in body {
        ctx.count(&format!("kind:{}", kind(i)));
    }
    let v = match guarded(|| observe(&decls, body, &variants)) {
        Ok(v) => v,
        Err(p) => {
            ctx.violation(&p.signature(), json!({"panic": p.to_json()}));
            return;
        }
    };
    ctx.count(if v.whole { "verdict:ok" } else { "verdict:err" });
    if let Some(e) = &v.whole_error {
        ctx.count(&format!("error-class:{e}"));
    }
    let n_bad = v.singles.iter().filter(|ok| !**ok).count();
    let mut nontrivial = false;
    if body.len() >= 2 && n_bad == 1 {
        ctx.count("exactly-one-ill-typed");
        nontrivial = true;
    }
    let detail = json!({
        "whole": v.whole, "per_instruction": v.singles, "renamed": v.renamed, "permuted": v.permuted,
        "duplicated": v.duplicated, "renaming": table,
    });

    // (i)
    if v.whole != (n_bad == 0) {
        let sig = if v.whole {
            "whole-program-accepted-but-an-instruction-fails-on-its-own"
        } else {
            "whole-program-rejected-but-every-instruction-passes-on-its-own"
        };
        ctx.violation(sig, detail.clone());
    }
    // (ii)
    let model = model_decls();
    for (i, ok) in body.iter().zip(&v.singles) {
        if let Some(e) = set_shift_expression(i) {
            ctx.count(if *ok { "set-shift:accepted" } else { "set-shift:rejected" });
            let depth = expr_depth(e);
            ctx.count(&format!("set-shift:expression-depth:{depth}"));
            if depth >= 2 {
                nontrivial = true;
            }
            match real_valued(e, &model) {
                None => ctx.inconclusive("imaginary-part-within-rounding-noise"),
                Some(want) if want != *ok => {
                    // signature: where the overlooked non-real leaf sits (accepted case); the
                    // instruction kind is in the detail (the five kinds share one rule)
                    let sig = if *ok {
                        format!(
                            "real-valued-rule:accepted-an-expression-that-is-not-real-valued:offender-at-{}",
                            first_offender(e, &model, "top").unwrap_or("unknown")
                        )
                    } else {
                        "real-valued-rule:rejected-a-real-valued-expression".to_string()
                    };
                    ctx.violation(&sig, json!({"instruction": show_instruction(i), "model_real_valued": want, "accepted": ok}));
                }
                Some(_) => {}
            }
        }
    }
    // (iii)
    match v.renamed {
        None => ctx.inconclusive("renamer-does-not-know-an-instruction-kind"),
        Some(r) if r != v.whole => ctx.violation("verdict-changes-under-renaming-of-regions", detail.clone()),
        Some(_) => ctx.count("invariance:renaming-checked"),
    }
    if v.permuted != v.whole {
        ctx.violation("verdict-changes-under-reordering", detail.clone());
    }
    if v.duplicated != v.whole {
        ctx.violation("verdict-changes-under-duplication", detail);
    }
    if nontrivial {
        ctx.nontrivial(text);
    }
}

fn leaves() -> Vec<Expression> {
    vec![
        addr("x", 0),
        addr("y", 1),
        addr("n", 0),
        addr("b", 0),
        addr("u", 0),
        num(1.5),
        cnum(0.0, 2.0),
        pi(),
        var("v"),
    ]
}

/// Sub-space (a): expression trees of depth <= 1 and a fixed family of depth-2 shapes.
fn enumerated_expressions() -> Vec<Expression> {
    let l = leaves();
    let mut out: Vec<Expression> = l.clone();
    let mut d1_reduced = Vec::new();
    for a in &l {
        for f in FUNCTIONS {
            out.push(call(f, a.clone()));
        }
        for p in PREFIX_OPS {
            out.push(prefix(p, a.clone()));
        }
        d1_reduced.push(call(ExpressionFunction::Cosine, a.clone()));
        d1_reduced.push(prefix(PrefixOperator::Minus, a.clone()));
        for b in &l {
            for op in INFIX_OPS {
                out.push(infix(a.clone(), op, b.clone()));
            }
            d1_reduced.push(infix(a.clone(), InfixOperator::Star, b.clone()));
        }
    }
    for inner in &d1_reduced {
        out.push(call(ExpressionFunction::Sine, inner.clone()));
        out.push(prefix(PrefixOperator::Minus, inner.clone()));
        for leaf in &l {
            for op in [InfixOperator::Plus, InfixOperator::Slash, InfixOperator::Caret] {
                out.push(infix(inner.clone(), op, leaf.clone()));
                out.push(infix(leaf.clone(), op, inner.clone()));
            }
        }
    }
    out
}

fn run(ctx: &mut Ctx) {
    let all_names: Vec<&str> = ALL_NAMES.to_vec();
    let gen_any = InstrGen { regions: &all_names, max_index: 1, expr_depth: 3, exotic_leaves: true };
    let real_names = ["x", "y"];
    let gen_real = InstrGen { regions: &real_names, max_index: 1, expr_depth: 3, exotic_leaves: false };

    // (a)
    let exprs = enumerated_expressions();
    ctx.count_n("enumerated-expressions-per-kind", if ctx.shard == 0 { exprs.len() as u64 } else { 0 });
    let mut idx = 0u64;
    for which in 0..5 {
        for e in &exprs {
            idx += 1;
            if !ctx.mine(idx) {
                continue;
            }
            let mut vr = Rng::from_parts(&[0xC30, idx]);
            let i = gen_any.frame_update_with(&mut vr, which, e.clone());
            let text = show_instruction(&i);
            if !ctx.begin(&text) {
                continue;
            }
            ctx.count("workload:expression-enumeration");
            judge(ctx, &mut vr, std::slice::from_ref(&i), &text);
            if ctx.done() {
                return;
            }
        }
    }

    // (b)
    let mut rng = ctx.rng(1);
    let budget = ctx.share(ctx.tier.pick(600_000, 9_000_000));
    for k in 0..budget {
        let n = 1 + rng.below(5);
        let body: Vec<Instruction> = (0..n)
            .map(|_| if rng.chance(3, 5) { steered(&mut rng, &gen_real) } else { unconstrained(&mut rng, &gen_any) })
            .collect();
        let text = body.iter().map(show_instruction).collect::<Vec<_>>().join("; ");
        let mut vr = Rng::from_parts(&[0xC30B, rng.next()]);
        if !ctx.begin(&text) {
            continue;
        }
        ctx.count("workload:random-program");
        ctx.count(&format!("body-length:{n}"));
        judge(ctx, &mut vr, &body, &text);
        if ctx.shard == 0 && k % 211 == 0 {
            ctx.sample("program", json!(text));
        }
        if ctx.done() {
            return;
        }
    }
}
