//! C20 — gate-sequence expansion substitutes correctly, keeps needed definitions, reports
//! cycles / arity / modifier misuse, and terminates.
//!
//! Oracle: the reference model of `model::seq_model` (expander with simultaneous substitution,
//! recursion on selected names only, stack-based cycle detection; keep-set by graph reachability;
//! set of applicable error classes).  Every generated program is executed through **both** entry
//! points (`Program::expand_defgate_sequences`, `Program::expand_defgate_sequences_with_source_map`)
//! under **all 8 selection filters** over {A, B, C}; each returned program / error is judged
//! against the model.  Termination: the supervisor attributes a process death to the case in
//! flight (`crash_is_violation`), the watchdog reports a hang as inconclusive.
//!
//! This file also hosts the shared driver used by C21 (`run_shared`): C21 is a second monitor over
//! exactly the same executions (same workload, same seed stream) that judges the source map.

use crate::core::{guarded, hash_of, Ctx, PanicInfo, Rng};
use crate::gen::seq_gen::{render_program, SeqGen, Style, EXTRAS_TEXT, NAMES, OTHER_SNIPPETS};
use crate::model::seq_model::*;
use crate::props::{PropInfo, DEFAULT};
use num_complex::Complex64;
use quil_rs::expression::{
    Expression, ExpressionFunction, FunctionCallExpression, InfixExpression, InfixOperator,
    PrefixExpression, PrefixOperator,
};
use quil_rs::instruction::{
    DefGateSequence, DefGateSequenceExpansionError, Gate, GateDefinition, GateModifier,
    GateSpecification, Instruction, Measurement, MemoryReference, Pragma, Qubit, QubitPlaceholder,
    Reset,
};
use quil_rs::program::{
    DefGateSequenceExpansion, ExpansionResult, InstructionIndex, ProgramError, SourceMap,
};
use quil_rs::Program;
use serde_json::{json, Value};
use std::collections::{BTreeMap, BTreeSet};
use std::str::FromStr;

pub static INFO: PropInfo = PropInfo {
    id: "C20",
    run: run_c20,
    rule: "cases: random programs over sequence-definition names {A,B,C} (each a DEFGATE AS SEQUENCE with <=2 parameters, 1..2 formal qubits, 0..3 elements referencing standard gates, each other and a non-sequence gate M; or a PERMUTATION definition; or undefined), bodies of 1..4(5) instructions invoking them with fixed/variable/placeholder qubits, parameter expressions (also mentioning variables named like the formals) and modifiers, in three styles (well-formed, acyclic, hostile); every program is run under all 8 selection filters over {A,B,C} (answer for other names drawn per program) through both entry points. One case = (program, filter). distinct = distinct (program text, filter); non-trivial = the body contains >= 1 selected invocation of a sequence definition.",
    assumptions: &[
        "substitution is judged structurally; a parameter that differs structurally but evaluates to the same value on 3 assignments is accepted (counted separately)",
        "when several error classes apply, any class applicable at any offending invocation is accepted (check order and traversal order are not part of the property); agreement with the first offender in depth-first order is counted separately",
        "error payloads (counts, cycle listing) are not judged",
        "definition order inside the returned program is not judged (C08 owns ordering)",
        "process death while a case is in flight is attributed to that case (termination clause)",
    ],
    crash_is_violation: true,
    min_nontrivial: 2000,
    required_counters: &[
        "outcome:expanded",
        "outcome:error:cyclic",
        "outcome:error:parameter-count",
        "outcome:error:qubit-count",
        "outcome:error:non-fixed-qubit",
        "outcome:error:modifiers",
        "feature:nested-expansion-depth>=2",
        "feature:unselected-invocation-inside-expansion",
        "feature:argument-mentions-formal-name",
        "keep:selected-definition-kept-by-reachability",
        "keep:selected-definition-dropped",
        "keep:non-sequence-definition-present",
        "cycle:stack-len-1",
        "cycle:stack-len-2",
        "cycle:stack-len-3",
    ],
    watchdog_s: 120,
    ..DEFAULT
};

#[derive(Clone, Copy, PartialEq, Eq)]
pub enum Which {
    C20,
    C21,
}

fn run_c20(ctx: &mut Ctx) {
    run_shared(ctx, Which::C20)
}

// ---------------------------------------------------------------------------------------------
// Model data -> real quil-rs values (public constructors only)

fn real_expr(e: &MExpr) -> Expression {
    match e {
        MExpr::Num(x) => Expression::Number(Complex64::new(*x, 0.0)),
        MExpr::Complex(re, im) => Expression::Number(Complex64::new(*re, *im)),
        MExpr::Pi => Expression::PiConstant(),
        MExpr::Var(v) => Expression::Variable(v.clone()),
        MExpr::Addr(n, i) => Expression::Address(MemoryReference::new(n.clone(), *i)),
        MExpr::Neg(x) => Expression::Prefix(PrefixExpression::new(PrefixOperator::Minus, real_expr(x).into())),
        MExpr::Bin(l, op, r) => {
            let op = match op {
                '+' => InfixOperator::Plus,
                '-' => InfixOperator::Minus,
                '*' => InfixOperator::Star,
                '/' => InfixOperator::Slash,
                _ => InfixOperator::Caret,
            };
            Expression::Infix(InfixExpression::new(real_expr(l).into(), op, real_expr(r).into()))
        }
        MExpr::Fun(f, x) => {
            let f = match *f {
                "cis" => ExpressionFunction::Cis,
                "cos" => ExpressionFunction::Cosine,
                "exp" => ExpressionFunction::Exponent,
                "sin" => ExpressionFunction::Sine,
                _ => ExpressionFunction::SquareRoot,
            };
            Expression::FunctionCall(FunctionCallExpression::new(f, real_expr(x).into()))
        }
        MExpr::Opaque(s) => Expression::Variable(format!("opaque_{}", s.len())),
    }
}

fn model_expr(e: &Expression) -> MExpr {
    match e {
        Expression::Number(c) => {
            if c.im == 0.0 && c.re >= 0.0 && !(c.re == 0.0 && c.re.is_sign_negative()) {
                MExpr::Num(c.re)
            } else {
                MExpr::Complex(c.re, c.im)
            }
        }
        Expression::PiConstant() => MExpr::Pi,
        Expression::Variable(v) => MExpr::Var(v.clone()),
        Expression::Address(m) => MExpr::Addr(m.name.clone(), m.index),
        Expression::Prefix(p) => match p.operator {
            PrefixOperator::Minus => MExpr::Neg(Box::new(model_expr(&p.expression))),
            PrefixOperator::Plus => MExpr::Opaque("prefix-plus".into()),
        },
        Expression::Infix(i) => {
            let op = match i.operator {
                InfixOperator::Plus => '+',
                InfixOperator::Minus => '-',
                InfixOperator::Star => '*',
                InfixOperator::Slash => '/',
                InfixOperator::Caret => '^',
            };
            MExpr::Bin(Box::new(model_expr(&i.left)), op, Box::new(model_expr(&i.right)))
        }
        Expression::FunctionCall(f) => {
            let name = match f.function {
                ExpressionFunction::Cis => "cis",
                ExpressionFunction::Cosine => "cos",
                ExpressionFunction::Exponent => "exp",
                ExpressionFunction::Sine => "sin",
                ExpressionFunction::SquareRoot => "sqrt",
            };
            MExpr::Fun(name, Box::new(model_expr(&f.expression)))
        }
    }
}

fn real_qubit(q: &MQubit, ph: &[QubitPlaceholder]) -> Qubit {
    match q {
        MQubit::Fixed(i) => Qubit::Fixed(*i),
        MQubit::Var(v) => Qubit::Variable(v.clone()),
        MQubit::Placeholder(k) => Qubit::Placeholder(ph[*k - 1].clone()),
    }
}

fn model_qubit(q: &Qubit, ph: &[QubitPlaceholder]) -> MQubit {
    match q {
        Qubit::Fixed(i) => MQubit::Fixed(*i),
        Qubit::Variable(v) => MQubit::Var(v.clone()),
        Qubit::Placeholder(p) => MQubit::Placeholder(ph.iter().position(|x| x == p).map(|i| i + 1).unwrap_or(usize::MAX)),
    }
}

fn real_gate(g: &MGate, ph: &[QubitPlaceholder]) -> Result<Gate, String> {
    Gate::new(
        &g.name,
        g.params.iter().map(real_expr).collect(),
        g.qubits.iter().map(|q| real_qubit(q, ph)).collect(),
        g.mods
            .iter()
            .map(|m| match m {
                MMod::Controlled => GateModifier::Controlled,
                MMod::Dagger => GateModifier::Dagger,
                MMod::Forked => GateModifier::Forked,
            })
            .collect(),
    )
    .map_err(|e| format!("Gate::new: {e}"))
}

fn model_gate(g: &Gate, ph: &[QubitPlaceholder]) -> MGate {
    MGate {
        name: g.name.clone(),
        params: g.parameters.iter().map(model_expr).collect(),
        qubits: g.qubits.iter().map(|q| model_qubit(q, ph)).collect(),
        mods: g
            .modifiers
            .iter()
            .map(|m| match m {
                GateModifier::Controlled => MMod::Controlled,
                GateModifier::Dagger => MMod::Dagger,
                GateModifier::Forked => MMod::Forked,
            })
            .collect(),
    }
}

fn other_instruction(k: usize) -> Instruction {
    match k {
        0 => Instruction::Measurement(Measurement::new(None, Qubit::Fixed(0), Some(MemoryReference::new("ro".into(), 0)))),
        1 => Instruction::Reset(Reset::new(Some(Qubit::Fixed(1)))),
        2 => Instruction::Nop(),
        3 => Instruction::Pragma(Pragma::new("marker".into(), vec![], None)),
        4 => Instruction::Reset(Reset::new(None)),
        _ => Instruction::Halt(),
    }
}

fn real_definition(d: &MDef) -> Result<GateDefinition, String> {
    let spec = match &d.kind {
        MDefKind::Permutation => GateSpecification::Permutation(vec![1, 0]),
        MDefKind::Sequence { qubits, gates } => {
            let gates = gates.iter().map(|g| real_gate(g, &[])).collect::<Result<Vec<_>, _>>()?;
            GateSpecification::Sequence(
                DefGateSequence::try_new(qubits.clone(), gates).map_err(|e| format!("DefGateSequence::try_new: {e}"))?,
            )
        }
    };
    GateDefinition::new(d.name.clone(), d.params.clone(), spec).map_err(|e| format!("GateDefinition::new: {e}"))
}

/// Build the real program through the public constructors.
fn build_program(p: &MProgram, ph: &[QubitPlaceholder]) -> Result<Program, String> {
    let mut program = if p.extras {
        Program::from_str(EXTRAS_TEXT).map_err(|e| format!("extras text did not parse: {e}"))?
    } else {
        Program::new()
    };
    for d in &p.defs {
        program.add_instruction(Instruction::GateDefinition(real_definition(d)?));
    }
    for i in &p.body {
        program.add_instruction(match i {
            MInstr::Gate(g) => Instruction::Gate(real_gate(g, ph)?),
            MInstr::Other(k) => other_instruction(*k),
        });
    }
    Ok(program)
}

// ---------------------------------------------------------------------------------------------
// Comparison helpers

#[derive(Debug, PartialEq)]
enum GateCmp {
    Same,
    SameByValue,
    Diff(&'static str),
}

fn gate_cmp(expected: &MGate, got: &MGate) -> GateCmp {
    if expected.name != got.name {
        return GateCmp::Diff("gate-name");
    }
    if expected.mods != got.mods {
        return GateCmp::Diff("modifiers");
    }
    if expected.qubits != got.qubits {
        return GateCmp::Diff("qubits");
    }
    if expected.params.len() != got.params.len() {
        return GateCmp::Diff("parameters");
    }
    let mut by_value = false;
    for (a, b) in expected.params.iter().zip(&got.params) {
        if a == b {
            continue;
        }
        // structurally different: accept only if equal-valued on three assignments
        for salt in 1..=3u64 {
            match (eval_expr(a, salt), eval_expr(b, salt)) {
                (Some((ar, ai)), Some((br, bi))) => {
                    let scale = 1.0f64.max(ar.abs()).max(ai.abs());
                    if (ar - br).abs() > 1e-9 * scale || (ai - bi).abs() > 1e-9 * scale {
                        return GateCmp::Diff("parameters");
                    }
                }
                (None, None) => return GateCmp::Diff("parameters"),
                _ => return GateCmp::Diff("parameters"),
            }
        }
        by_value = true;
    }
    if by_value {
        GateCmp::SameByValue
    } else {
        GateCmp::Same
    }
}

fn instr_cmp(expected: &MInstr, got: &Instruction, ph: &[QubitPlaceholder]) -> GateCmp {
    match (expected, got) {
        (MInstr::Gate(e), Instruction::Gate(g)) => gate_cmp(e, &model_gate(g, ph)),
        (MInstr::Other(k), other) => {
            if &other_instruction(*k) == other {
                GateCmp::Same
            } else {
                GateCmp::Diff("non-gate-instruction-changed")
            }
        }
        (MInstr::Gate(_), _) => GateCmp::Diff("gate-became-non-gate"),
    }
}

fn instr_text(i: &Instruction) -> String {
    use quil_rs::quil::Quil;
    i.to_quil_or_debug()
}

fn minstr_text(i: &MInstr) -> String {
    match i {
        MInstr::Gate(g) => render_gate(g),
        MInstr::Other(k) => OTHER_SNIPPETS[*k].to_string(),
    }
}

// ---------------------------------------------------------------------------------------------
// Observation of the real code

#[derive(Clone, Debug, PartialEq)]
enum RealErr {
    Class(ErrClass, String),
    Other(String),
}

impl RealErr {
    fn label(&self) -> String {
        match self {
            RealErr::Class(c, _) => c.name().to_string(),
            RealErr::Other(_) => "other-error-kind".to_string(),
        }
    }
    fn text(&self) -> &str {
        match self {
            RealErr::Class(_, t) | RealErr::Other(t) => t,
        }
    }
}

fn classify(e: &ProgramError) -> RealErr {
    let text = format!("{e:?}");
    match e {
        ProgramError::DefGateSequenceExpansionError(x) => match x {
            DefGateSequenceExpansionError::ParameterCount { .. } => RealErr::Class(ErrClass::ParameterCount, text),
            DefGateSequenceExpansionError::CyclicSequenceGateDefinition(_) => RealErr::Class(ErrClass::Cyclic, text),
            DefGateSequenceExpansionError::QubitCount { .. } => RealErr::Class(ErrClass::QubitCount, text),
            DefGateSequenceExpansionError::NonFixedQubitArgument(_) => RealErr::Class(ErrClass::NonFixedQubit, text),
            DefGateSequenceExpansionError::GateModifiersUnsupported(_) => RealErr::Class(ErrClass::Modifiers, text),
            _ => RealErr::Other(text),
        },
        _ => RealErr::Other(text),
    }
}

type SeqSourceMap<'a> = SourceMap<InstructionIndex, ExpansionResult<DefGateSequenceExpansion<'a>>>;

// ---------------------------------------------------------------------------------------------
// C20 judge: one entry point's result against the model

struct Expect<'m> {
    outcome: &'m ModelOutcome,
    keep: &'m BTreeSet<String>,
    mprog: &'m MProgram,
    sel: &'m Selection,
}

/// Returns `None` if the result agrees with the model, else (signature, detail).
fn judge_c20(
    ctx: &mut Ctx,
    x: &Expect,
    source: &Program,
    real: &Result<Program, RealErr>,
    ph: &[QubitPlaceholder],
    count: bool,
) -> Option<(String, Value)> {
    match (x.outcome, real) {
        (ModelOutcome::Error { first, any }, Err(e)) => match e {
            RealErr::Class(c, _) if any.contains(c) => {
                if count {
                    if first.contains(c) {
                        ctx.count("error-class:agrees-with-first-offender-in-dfs-order");
                    } else {
                        ctx.count("error-class:from-a-later-offender");
                    }
                    if first.len() > 1 {
                        ctx.count("error-class:several-applicable-at-first-offender");
                    }
                }
                None
            }
            _ => Some((
                format!("wrong-error-class:got-{}", e.label()),
                json!({"expected_any_of": class_names(any), "first_offender": class_names(first), "got": e.text()}),
            )),
        },
        (ModelOutcome::Error { first, any }, Ok(p)) => Some((
            // named after one applicable class (fixed priority) so that one missing check is one signature
            format!("missing-error:{}", first.iter().next().map(|c| c.name()).unwrap_or("?")),
            json!({"expected_error_any_of": class_names(any), "first_offender": class_names(first),
                   "got_body": p.body_instructions().map(instr_text).collect::<Vec<_>>()}),
        )),
        (ModelOutcome::Expanded { body, .. }, Err(e)) => Some((
            format!("unexpected-error:{}", e.label()),
            json!({"expected_body": body.iter().map(minstr_text).collect::<Vec<_>>(), "got": e.text()}),
        )),
        (ModelOutcome::Expanded { body, .. }, Ok(p)) => {
            let got: Vec<&Instruction> = p.body_instructions().collect();
            let detail = |what: &str| {
                json!({"what": what,
                       "expected_body": body.iter().map(minstr_text).collect::<Vec<_>>(),
                       "got_body": got.iter().map(|i| instr_text(i)).collect::<Vec<_>>()})
            };
            // ---- body
            let is_seq = |name: &str| {
                x.mprog.defs.iter().rev().find(|d| d.name == name).map(|d| matches!(d.kind, MDefKind::Sequence { .. })).unwrap_or(false)
            };
            let count_name = |name: &str, in_model: bool| -> usize {
                if in_model {
                    body.iter().filter(|i| matches!(i, MInstr::Gate(g) if g.name == name)).count()
                } else {
                    got.iter().filter(|i| matches!(i, Instruction::Gate(g) if g.name == name)).count()
                }
            };
            for n in NAMES {
                if !is_seq(n) {
                    continue;
                }
                let (m, r) = (count_name(n, true), count_name(n, false));
                if x.sel.test(n) && r > 0 {
                    // the model never leaves a selected invocation in an expanded body
                    return Some(("expansion:selected-invocation-left-unexpanded".into(), detail(n)));
                }
                if !x.sel.test(n) && r < m {
                    return Some(("expansion:unselected-invocation-expanded-or-lost".into(), detail(n)));
                }
            }
            if got.len() != body.len() {
                return Some(("expansion:body-differs:length".into(), detail("length")));
            }
            for (k, (e, g)) in body.iter().zip(&got).enumerate() {
                match instr_cmp(e, g, ph) {
                    GateCmp::Same => {}
                    GateCmp::SameByValue => {
                        if count {
                            ctx.count("substitution:parameter-equal-by-value-only");
                        }
                    }
                    GateCmp::Diff(kind) => {
                        return Some((format!("expansion:body-differs:{kind}"), detail(&format!("index {k}: {kind}"))));
                    }
                }
            }
            // ---- kept definitions
            let got_names: BTreeSet<String> = p.gate_definitions.keys().cloned().collect();
            let kd = |what: &str, name: &str| {
                json!({"what": what, "definition": name, "expected_kept": x.keep, "got_kept": got_names,
                       "selected": x.sel.selected, "others": x.sel.others})
            };
            for name in x.keep {
                if !got_names.contains(name) {
                    let sig = if is_seq(name) {
                        if x.sel.test(name) {
                            "keep-set:needed-selected-sequence-definition-dropped"
                        } else {
                            "keep-set:unselected-sequence-definition-dropped"
                        }
                    } else {
                        "keep-set:non-sequence-definition-dropped"
                    };
                    return Some((sig.into(), kd(sig, name)));
                }
            }
            for name in &got_names {
                if !x.keep.contains(name) {
                    let sig = if x.mprog.defs.iter().any(|d| &d.name == name) {
                        "keep-set:unneeded-selected-sequence-definition-kept"
                    } else {
                        "keep-set:unknown-definition-appeared"
                    };
                    return Some((sig.into(), kd(sig, name)));
                }
            }
            for (name, def) in &p.gate_definitions {
                if source.gate_definitions.get(name) != Some(def) {
                    return Some(("keep-set:kept-definition-altered".into(), kd("altered", name)));
                }
            }
            // ---- everything else stays
            let other_sections: [(&str, bool); 6] = [
                ("calibrations", p.calibrations == source.calibrations),
                ("memory_regions", p.memory_regions == source.memory_regions),
                ("frames", p.frames == source.frames),
                ("waveforms", p.waveforms == source.waveforms),
                ("circuits", p.circuits == source.circuits),
                ("extern_pragma_map", p.extern_pragma_map == source.extern_pragma_map),
            ];
            for (field, same) in other_sections {
                if !same {
                    return Some((format!("other-sections-changed:{field}"), json!({"field": field})));
                }
            }
            None
        }
    }
}

// ---------------------------------------------------------------------------------------------
// C21 judge: source-map invariants

#[derive(Default)]
struct MapStats {
    rewritten: u64,
    nested_rewritten: u64,
    nested_unmodified: u64,
    unmodified: u64,
    empty_ranges: u64,
    max_depth: u64,
    inverse_queries: u64,
}

type Bad = (String, Value);

fn sfx(depth: usize) -> &'static str {
    if depth == 0 {
        ""
    } else {
        ":nested"
    }
}

/// Check one level of a source map against the slice of the output it is relative to.
/// `source_real` is given at the top level (the source body); `model` when the model produced an
/// expansion (its nodes carry the substituted source instruction of nested levels and the number
/// of instructions each invocation produced).
fn check_map(
    map: &SeqSourceMap<'_>,
    target: &[&Instruction],
    source_real: Option<&[&Instruction]>,
    model: Option<&[MEntry]>,
    depth: usize,
    ph: &[QubitPlaceholder],
    st: &mut MapStats,
) -> Result<(), Bad> {
    let entries = map.entries();
    let s = sfx(depth);
    st.max_depth = st.max_depth.max(depth as u64);
    let expected_entries = source_real.map(|x| x.len()).or(model.map(|m| m.len()));
    if let Some(n) = expected_entries {
        if entries.len() != n {
            return Err((
                format!("source-map:entry-count{s}"),
                json!({"depth": depth, "entries": entries.len(), "source_instructions": n}),
            ));
        }
    }
    let mut cursor = 0usize;
    let mut owner: Vec<usize> = Vec::with_capacity(target.len());
    for (i, e) in entries.iter().enumerate() {
        if e.source_location().0 != i {
            return Err((
                format!("source-map:source-index-order{s}"),
                json!({"depth": depth, "position": i, "source_location": e.source_location().0}),
            ));
        }
        let m = model.and_then(|m| m.get(i));
        match e.target_location() {
            ExpansionResult::Unmodified(t) => {
                if depth == 0 {
                    st.unmodified += 1;
                } else {
                    st.nested_unmodified += 1;
                }
                if t.0 != cursor || t.0 >= target.len() {
                    return Err((
                        format!("source-map:unmodified-index{s}"),
                        json!({"depth": depth, "source": i, "target": t.0, "expected_target": cursor, "target_len": target.len()}),
                    ));
                }
                if let Some(src) = source_real {
                    if src[i] != target[t.0] {
                        return Err((
                            format!("source-map:unmodified-not-identical{s}"),
                            json!({"depth": depth, "source": instr_text(src[i]), "target": instr_text(target[t.0])}),
                        ));
                    }
                }
                if let Some(m) = m {
                    if let MTarget::Rewritten { name, .. } = &m.target {
                        return Err((
                            format!("source-map:unmodified-where-model-expands{s}"),
                            json!({"depth": depth, "source": i, "definition": name}),
                        ));
                    }
                    if source_real.is_none() {
                        // Nested level: the source instruction is the definition's element after
                        // substitution.  Whether the substituted operands are right is C20's
                        // business; here the target must be that element's image: same gate name,
                        // modifiers and operand counts.
                        let same = match (&m.src, target[t.0]) {
                            (MInstr::Gate(e), Instruction::Gate(g)) => {
                                let g = model_gate(g, ph);
                                e.name == g.name && e.mods == g.mods && e.params.len() == g.params.len() && e.qubits.len() == g.qubits.len()
                            }
                            _ => false,
                        };
                        if !same {
                            return Err((
                                format!("source-map:unmodified-not-identical{s}"),
                                json!({"depth": depth, "source_element": minstr_text(&m.src), "target": instr_text(target[t.0])}),
                            ));
                        }
                    }
                }
                owner.push(i);
                cursor += 1;
            }
            ExpansionResult::Rewritten(x) => {
                let (start, end) = (x.range().start.0, x.range().end.0);
                st.rewritten += 1;
                if depth > 0 {
                    st.nested_rewritten += 1;
                }
                let d = || json!({"depth": depth, "source": i, "range": [start, end], "expected_start": cursor, "target_len": target.len()});
                if end < start {
                    return Err((format!("source-map:range-decreasing{s}"), d()));
                }
                if start != cursor {
                    return Err((format!("source-map:range-not-contiguous{s}"), d()));
                }
                if end > target.len() {
                    return Err((format!("source-map:range-out-of-bounds{s}"), d()));
                }
                if start == end {
                    st.empty_ranges += 1;
                }
                let nested_model = match m.map(|m| &m.target) {
                    Some(MTarget::Unmodified) => {
                        return Err((format!("source-map:rewritten-where-model-copies{s}"), d()));
                    }
                    Some(MTarget::Rewritten { produced, nested, .. }) => {
                        if end - start != *produced {
                            return Err((
                                format!("source-map:range-length{s}"),
                                json!({"depth": depth, "source": i, "range": [start, end], "model_produced": produced}),
                            ));
                        }
                        Some(nested.as_slice())
                    }
                    None => None,
                };
                check_map(x.nested_expansions(), &target[start..end], None, nested_model, depth + 1, ph, st)?;
                for _ in start..end {
                    owner.push(i);
                }
                cursor = end;
            }
        }
    }
    if cursor != target.len() {
        return Err((
            format!("source-map:union-not-whole-body{s}"),
            json!({"depth": depth, "covered": cursor, "target_len": target.len()}),
        ));
    }
    // list_sources / list_targets are inverse of each other on this level
    for (t, own) in owner.iter().enumerate() {
        st.inverse_queries += 1;
        let sources: Vec<usize> = map.list_sources(&InstructionIndex(t)).into_iter().map(|s| s.0).collect();
        if sources != vec![*own] {
            return Err((
                format!("source-map:list-sources-targets-not-inverse{s}"),
                json!({"depth": depth, "query": "list_sources", "target": t, "got_sources": sources, "expected": [own]}),
            ));
        }
    }
    for (i, e) in entries.iter().enumerate() {
        st.inverse_queries += 1;
        let targets = map.list_targets(&InstructionIndex(i));
        let ok = targets.len() == 1 && targets[0] == e.target_location();
        if !ok {
            return Err((
                format!("source-map:list-sources-targets-not-inverse{s}"),
                json!({"depth": depth, "query": "list_targets", "source": i, "got": targets.len()}),
            ));
        }
    }
    Ok(())
}

// ---------------------------------------------------------------------------------------------
// Shared driver

fn outcome_json(r: &Result<Program, RealErr>) -> Value {
    match r {
        Ok(p) => json!({"ok": {"body": p.body_instructions().map(instr_text).collect::<Vec<_>>(),
                               "definitions": p.gate_definitions.keys().collect::<Vec<_>>()}}),
        Err(e) => json!({"err": e.text()}),
    }
}

pub fn run_shared(ctx: &mut Ctx, which: Which) {
    let tier = ctx.tier;
    // Same workload for C20 and C21: the stream does not depend on the property id.
    let mut rng = Rng::from_parts(&[hash_of("seq-workload"), ctx.seed, ctx.shard as u64, 1]);
    let n_programs = ctx.share(tier.pick(100_000, 1_000_000));
    let max_body = tier.pick(4, 5);
    let alphabet: BTreeSet<String> = NAMES.iter().map(|s| s.to_string()).collect();

    for prog_idx in 0..n_programs {
        let (mprog, style, others) = {
            let mut g = SeqGen::new(&mut rng, max_body);
            let (p, s) = g.program();
            let others = g.rng.chance(1, 2);
            (p, s, others)
        };
        let text = render_program(&mprog);
        // identities are numbered 1..=n by the generator (some numbers may be unused)
        let n_placeholders = mprog
            .body
            .iter()
            .flat_map(|i| match i {
                MInstr::Gate(g) => g.qubits.clone(),
                _ => vec![],
            })
            .filter_map(|q| match q {
                MQubit::Placeholder(k) => Some(k),
                _ => None,
            })
            .max()
            .unwrap_or(0);
        let mut text_checked = false;

        for mask in 0u8..8 {
            let sel = Selection {
                selected: NAMES.iter().enumerate().filter(|(i, _)| mask & (1 << i) != 0).map(|(_, n)| n.to_string()).collect(),
                alphabet: alphabet.clone(),
                others,
            };
            // expected side (pure model)
            let (outcome, facts) = Model::new(&mprog, &sel).run();
            let keep = Model::keep_set(&mprog, &sel);

            let desc = json!({"program": text, "selected": sel.selected, "others_selected": others}).to_string();
            if !ctx.begin(&desc) {
                if ctx.done() {
                    return;
                }
                continue;
            }
            one_case(ctx, which, &mprog, style, &sel, &outcome, &facts, &keep, &text, n_placeholders, mask, &mut text_checked, prog_idx % 8 == mask as u64);
            if ctx.done() {
                return;
            }
        }
    }
}

#[allow(clippy::too_many_arguments)]
fn one_case(
    ctx: &mut Ctx,
    which: Which,
    mprog: &MProgram,
    style: Style,
    sel: &Selection,
    outcome: &ModelOutcome,
    facts: &ModelFacts,
    keep: &BTreeSet<String>,
    text: &str,
    n_placeholders: usize,
    mask: u8,
    text_checked: &mut bool,
    may_sample: bool,
) {
    // ---- build the real program (public constructors), under guard
    let ph: Vec<QubitPlaceholder> = (0..n_placeholders).map(|_| QubitPlaceholder::default()).collect();
    let program = match guarded(|| build_program(mprog, &ph)) {
        Ok(Ok(p)) => p,
        Ok(Err(e)) => {
            ctx.inconclusive(&format!("generated program rejected by constructors: {}", e.split(':').next().unwrap_or("")));
            return;
        }
        Err(p) => {
            ctx.inconclusive(&format!("constructors panicked: {}", p.signature()));
            return;
        }
    };
    if !*text_checked {
        *text_checked = true;
        let empty_body = mprog.defs.iter().any(|d| matches!(&d.kind, MDefKind::Sequence { gates, .. } if gates.is_empty()));
        if empty_body {
            // constructible through DefGateSequence::try_new, but the grammar has no spelling for it
            ctx.count("build:has-empty-sequence-body-no-text-form");
        } else if n_placeholders == 0 {
            match guarded(|| Program::from_str(text)) {
                Ok(Ok(parsed)) if parsed == program => ctx.count("build:text-form-parses-to-the-same-program"),
                Ok(Ok(_)) => ctx.count("build:text-form-parses-to-a-different-program"),
                Ok(Err(_)) => ctx.count("build:text-form-does-not-parse"),
                Err(_) => ctx.count("build:text-form-parse-panicked"),
            }
        } else {
            ctx.count("build:has-placeholders-no-text-form");
        }
    }

    // ---- execute both entry points
    let filter = |name: &str| sel.test(name);
    let plain: Result<Result<Program, RealErr>, PanicInfo> =
        guarded(|| program.clone().expand_defgate_sequences(filter).map_err(|e| classify(&e)));
    let mapped = guarded(|| program.expand_defgate_sequences_with_source_map(filter).map_err(|e| classify(&e)));

    // ---- coverage common to both monitors
    ctx.count(&format!("style:{}", style.name()));
    ctx.count(&format!("filter:mask-{mask}"));
    match outcome {
        ModelOutcome::Expanded { .. } => ctx.count("model:expanded"),
        ModelOutcome::Error { any, .. } => {
            for c in any {
                ctx.count(&format!("model:error-applicable:{}", c.name()));
            }
        }
    }
    let nontrivial = facts.selected_top_level > 0;
    let key = (text, mask, sel.others);

    match which {
        Which::C20 => {
            let x = Expect { outcome, keep, mprog, sel };
            // panics refute "reports errors / terminates with a result"
            let mut verdicts: Vec<(&str, Option<(String, Value)>)> = Vec::new();
            let mut observed: BTreeMap<&str, Value> = BTreeMap::new();
            match &plain {
                Err(p) => verdicts.push(("plain", Some((p.signature(), json!({"panic": p.to_json()}))))),
                Ok(r) => {
                    observed.insert("plain", outcome_json(r));
                    let v = judge_c20(ctx, &x, &program, r, &ph, true);
                    verdicts.push(("plain", v));
                    match r {
                        Ok(_) => ctx.count("outcome:expanded"),
                        Err(e) => ctx.count(&format!("outcome:error:{}", e.label())),
                    }
                }
            }
            match &mapped {
                Err(p) => verdicts.push(("with-source-map", Some((p.signature(), json!({"panic": p.to_json()}))))),
                Ok(r) => {
                    let r2: Result<Program, RealErr> = match r {
                        Ok((p, _)) => Ok(p.clone()),
                        Err(e) => Err(e.clone()),
                    };
                    observed.insert("with-source-map", outcome_json(&r2));
                    let v = judge_c20(ctx, &x, &program, &r2, &ph, false);
                    verdicts.push(("with-source-map", v));
                }
            }
            let a = verdicts[0].1.clone();
            let b = verdicts[1].1.clone();
            let wrap = |d: Value, entry: &str| json!({"entry_point": entry, "diff": d, "observed": observed});
            match (a, b) {
                (None, None) => {}
                (Some((sa, da)), Some((sb, _))) if sa == sb => ctx.violation(&sa, wrap(da, "both")),
                (Some((sa, da)), Some((sb, db))) => {
                    ctx.violation(&format!("{sa}:only-plain"), wrap(da, "expand_defgate_sequences"));
                    ctx.violation(&format!("{sb}:only-with-source-map"), wrap(db, "expand_defgate_sequences_with_source_map"));
                }
                (Some((sa, da)), None) => ctx.violation(&format!("{sa}:only-plain"), wrap(da, "expand_defgate_sequences")),
                (None, Some((sb, db))) => {
                    ctx.violation(&format!("{sb}:only-with-source-map"), wrap(db, "expand_defgate_sequences_with_source_map"))
                }
            }
            // feature coverage (from the model's traversal of this case)
            if facts.max_depth >= 2 && matches!(outcome, ModelOutcome::Expanded { .. }) {
                ctx.count("feature:nested-expansion-depth>=2");
            }
            if facts.max_depth >= 3 && matches!(outcome, ModelOutcome::Expanded { .. }) {
                ctx.count("feature:nested-expansion-depth>=3");
            }
            ctx.max("expansion-depth", facts.max_depth as u64);
            if facts.unselected_nested > 0 && matches!(outcome, ModelOutcome::Expanded { .. }) {
                ctx.count("feature:unselected-invocation-inside-expansion");
            }
            if facts.unselected_top_level > 0 {
                ctx.count("feature:unselected-invocation-in-body");
            }
            if facts.capture_risk && matches!(outcome, ModelOutcome::Expanded { .. }) {
                ctx.count("feature:argument-mentions-formal-name");
            }
            if facts.nested_error {
                ctx.count("feature:offending-invocation-inside-expansion");
            }
            if let ModelOutcome::Error { any, .. } = outcome {
                if any.contains(&ErrClass::Cyclic) {
                    ctx.count(&format!("cycle:stack-len-{}", facts.cycle_stack_len));
                }
            }
            if let (ModelOutcome::Expanded { body, .. }, Ok(Ok(_))) = (outcome, &plain) {
                ctx.max("expanded-body-length", body.len() as u64);
                for d in &mprog.defs {
                    match d.kind {
                        MDefKind::Permutation => ctx.count("keep:non-sequence-definition-present"),
                        MDefKind::Sequence { .. } => {
                            let selected = sel.test(&d.name);
                            let kept = keep.contains(&d.name);
                            ctx.count(match (selected, kept) {
                                (false, _) => "keep:unselected-definition-kept",
                                (true, true) => "keep:selected-definition-kept-by-reachability",
                                (true, false) => "keep:selected-definition-dropped",
                            });
                        }
                    }
                }
                if mprog.extras {
                    ctx.count("feature:other-sections-present");
                }
            }
            if nontrivial {
                ctx.nontrivial(&key);
            }
            if ctx.shard == 0 && may_sample {
                let kind = match outcome {
                    ModelOutcome::Expanded { .. } if facts.max_depth >= 2 => "nested-expansion",
                    ModelOutcome::Expanded { .. } if nontrivial => "expansion",
                    ModelOutcome::Expanded { .. } => "nothing-selected",
                    ModelOutcome::Error { .. } => "error",
                };
                ctx.sample(kind, json!({"program": text, "selected": sel.selected, "others_selected": sel.others,
                                         "kept_by_model": keep, "observed": observed}));
            }
        }
        Which::C21 => {
            let mut st = MapStats::default();
            let verdict: Option<Bad> = match (&plain, &mapped) {
                (Err(p), _) => Some((p.signature(), json!({"entry_point": "expand_defgate_sequences", "panic": p.to_json()}))),
                (_, Err(p)) => Some((p.signature(), json!({"entry_point": "expand_defgate_sequences_with_source_map", "panic": p.to_json()}))),
                (Ok(a), Ok(b)) => match (a, b) {
                    (Err(ea), Err(eb)) => {
                        ctx.count("agreement:both-error");
                        if ea.label() != eb.label() {
                            Some(("entry-points-disagree:error-class".into(), json!({"plain": ea.text(), "with_source_map": eb.text()})))
                        } else {
                            if ea != eb {
                                ctx.count("agreement:same-class-different-payload");
                            }
                            None
                        }
                    }
                    (Ok(pa), Err(eb)) => Some((
                        "entry-points-disagree:ok-vs-error".into(),
                        json!({"plain": outcome_json(&Ok(pa.clone())), "with_source_map": eb.text()}),
                    )),
                    (Err(ea), Ok((pb, _))) => Some((
                        "entry-points-disagree:error-vs-ok".into(),
                        json!({"plain": ea.text(), "with_source_map": outcome_json(&Ok(pb.clone()))}),
                    )),
                    (Ok(pa), Ok((pb, map))) => {
                        ctx.count("agreement:both-expanded");
                        if pa != pb {
                            Some((
                                "entry-points-disagree:program".into(),
                                json!({"plain": outcome_json(&Ok(pa.clone())), "with_source_map": outcome_json(&Ok(pb.clone()))}),
                            ))
                        } else {
                            let source: Vec<&Instruction> = program.body_instructions().collect();
                            let target: Vec<&Instruction> = pb.body_instructions().collect();
                            let model_map = match outcome {
                                ModelOutcome::Expanded { map, .. } => Some(map.as_slice()),
                                ModelOutcome::Error { .. } => {
                                    ctx.count("map:checked-without-model(model-expects-error)");
                                    None
                                }
                            };
                            let r = guarded(|| check_map(map, &target, Some(&source), model_map, 0, &ph, &mut st));
                            match r {
                                Ok(Ok(())) => None,
                                Ok(Err((sig, d))) => Some((
                                    sig,
                                    json!({"diff": d, "source_body": source.iter().map(|i| instr_text(i)).collect::<Vec<_>>(),
                                           "target_body": target.iter().map(|i| instr_text(i)).collect::<Vec<_>>(),
                                           "source_map": format!("{map:?}")}),
                                )),
                                Err(p) => Some((p.signature(), json!({"while": "querying the source map", "panic": p.to_json()}))),
                            }
                        }
                    }
                },
            };
            if let Some((sig, d)) = verdict {
                ctx.violation(&sig, d);
            }
            ctx.count_n("map:entries-unmodified-top-level", st.unmodified);
            ctx.count_n("map:entries-rewritten", st.rewritten);
            ctx.count_n("map:entries-rewritten-nested", st.nested_rewritten);
            ctx.count_n("map:entries-unmodified-nested", st.nested_unmodified);
            ctx.count_n("map:empty-ranges", st.empty_ranges);
            ctx.count_n("map:list_sources/list_targets-queries", st.inverse_queries);
            ctx.max("map-nesting-depth", st.max_depth);
            if st.rewritten > 0 {
                ctx.count("map:returned-with-rewritten-entry");
                ctx.nontrivial(&key);
                if ctx.shard == 0 && may_sample {
                    if let Ok(Ok((_, map))) = &mapped {
                        let kind = if st.nested_rewritten > 0 { "nested-source-map" } else { "source-map" };
                        ctx.sample(kind, json!({"program": text, "selected": sel.selected, "others_selected": sel.others,
                                                 "source_map": format!("{map:?}")}));
                    }
                }
            } else if nontrivial {
                ctx.count("map:selected-invocation-but-error-outcome");
            }
        }
    }
}
