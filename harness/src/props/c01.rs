//! C01 — parsing never panics or aborts on any input text.
//!
//! Oracle: crash monitor.  Every input is fed to all five parsing entry points under
//! `catch_unwind` (overflow checks on); a panic is a violation, and death of the shard process
//! (stack overflow, abort) is attributed by the supervisor to the case in flight.

use crate::core::{clip, guarded, Ctx, Tier};
use crate::gen::text::{mutate_bytes, mutate_tokens, TextGen, CORE_TOKENS, TOKENS};
use crate::props::{PropInfo, DEFAULT};
use quil_rs::expression::Expression;
use quil_rs::instruction::{FrameIdentifier, Instruction, MemoryReference};
use quil_rs::Program;
use serde_json::json;
use std::str::FromStr;

pub static INFO: PropInfo = PropInfo {
    id: "C01",
    run,
    rule: "inputs: (a) every sequence of <=3 tokens over a 75-token alphabet covering each lexer class (joined with and without spaces; length 4 over a 40-token core in the thorough tier), (b) grammar-generated programs, (c) byte- and token-level mutants of those and of the repository's .quil corpus, (d) a boundary-literal battery in every operand position, (e) nesting/size stress up to depth 5000 (quick) / 10000 (thorough) and ~1 MB. Each input goes to Program/Instruction/Expression/MemoryReference/FrameIdentifier::from_str. distinct = distinct input text; non-trivial = at least one of the five entry points got past the lexer (returned Ok, or a non-lexer error).",
    assumptions: &[
        "harness built with -C overflow-checks=on so integer overflow panics as in the repository's test profile",
        "process death is attributed to the last case announced before it (case-begin record flushed before execution)",
        "main-thread stack of the shard process is the platform default (8 MB)",
    ],
    exhaustive_quick: false,
    exhaustive_thorough: false,
    exhaustive_note: "the token-sequence sub-space (a) is enumerated completely; (b)-(e) are sampled",
    crash_is_violation: true,
    crash_class: Some(crash_class),
    min_nontrivial: 1000,
    required_counters: &["program:ok", "program:err", "instruction:ok", "expression:ok", "memory_reference:ok", "frame_identifier:ok"],
    watchdog_s: 120,
    ..DEFAULT
};

/// Refine a process-death signature by the bracket nesting depth of the input in flight.
fn crash_class(input: &str) -> String {
    let (mut depth, mut max) = (0i64, 0i64);
    for c in input.chars() {
        match c {
            '(' | '[' => {
                depth += 1;
                max = max.max(depth);
            }
            ')' | ']' => depth -= 1,
            _ => {}
        }
    }
    let operators = input.chars().filter(|c| matches!(c, '+' | '*' | '/' | '^' | '-')).count();
    if max >= 1000 {
        "bracket-nesting>=1000".to_string()
    } else if operators >= 1000 {
        // a flat chain of infix operators builds a left-deep expression tree (by iteration, not by
        // parser recursion); dropping / hashing that tree recurses once per operator
        "operator-chain>=1000".to_string()
    } else {
        format!("bracket-nesting<1000,len={}", if input.len() >= 100_000 { ">=100k" } else { "<100k" })
    }
}

fn looks_like_lex_error(msg: &str) -> bool {
    msg.contains("lex") || msg.contains("Lex")
}

/// Feed one input to all five entry points.
pub fn feed(ctx: &mut Ctx, input: &str, workload: &str) {
    if !ctx.begin(input) {
        return;
    }
    ctx.count(workload);
    let mut past_lexer = false;
    macro_rules! entry {
        ($name:literal, $call:expr) => {{
            // (rendering an error can be very expensive for huge inputs: it embeds the remaining
            // input; only small inputs are classified as lexer / non-lexer errors)
            let small = input.len() < 4096;
            match guarded(|| $call.map(|_| ()).map_err(|e| if small { format!("{e:?}") } else { String::new() })) {
                Ok(Ok(())) => {
                    past_lexer = true;
                    ctx.count(concat!($name, ":ok"));
                }
                Ok(Err(e)) => {
                    if !looks_like_lex_error(&e) {
                        past_lexer = true;
                    }
                    ctx.count(concat!($name, ":err"));
                }
                Err(p) => {
                    ctx.count(concat!($name, ":panic"));
                    ctx.violation(
                        &p.signature(),
                        json!({"entry_point": $name, "panic": p.to_json()}),
                    );
                }
            }
        }};
    }
    entry!("program", Program::from_str(input));
    entry!("instruction", Instruction::from_str(input));
    entry!("expression", Expression::from_str(input));
    entry!("memory_reference", MemoryReference::from_str(input));
    entry!("frame_identifier", FrameIdentifier::from_str(input));
    if past_lexer {
        ctx.nontrivial_input();
    }
}

fn token_sequences(ctx: &mut Ctx, alphabet: &[&str], len: usize, idx: &mut u64) {
    let n = alphabet.len();
    let total = n.pow(len as u32);
    for code in 0..total {
        *idx += 1;
        if !ctx.mine(*idx) {
            continue;
        }
        let mut c = code;
        let mut toks = Vec::with_capacity(len);
        for _ in 0..len {
            toks.push(alphabet[c % n]);
            c /= n;
        }
        let spaced = toks.join(" ");
        feed(ctx, &spaced, "workload:token-seq-spaced");
        if len >= 2 && len <= 3 {
            let tight = toks.concat();
            if tight != spaced {
                feed(ctx, &tight, "workload:token-seq-adjacent");
            }
        }
        if ctx.done() {
            return;
        }
    }
}

const BOUNDARY_LITERALS: &[&str] = &[
    "0", "9223372036854775807", "9223372036854775808", "18446744073709551615",
    "18446744073709551616", "340282366920938463463374607431768211456", "1e308", "1e309", "1e-400",
    ".5", "5.", "0x", "0b.", "0b", "0o8", "1__2", "._1", "1._2", "0xFFFFFFFFFFFFFFFF",
    "0x10000000000000000", "0b1111111111111111111111111111111111111111111111111111111111111111",
    "1e", "1e+", "1.e5", "00", "0x_1", "1_", "4294967296", "2147483648", "1.7976931348623157e308",
    "4.9e-324", "0.1e-999", "9007199254740993", "1e5i", "0x1Fi", "i", "pi",
];

const POSITIONS: &[&str] = &[
    "MOVE ro {}", "ADD ro {}", "SUB ro[{}] 1", "MUL ro {}", "DIV ro {}", "EQ a b {}", "GT a b[{}] c",
    "AND ro {}", "SHL ro {}", "ASHR ro {}", "STORE m ro {}", "STORE m ro[{}] 1", "LOAD a m ro[{}]",
    "CALL f {}", "CALL f ro[{}]", "RX({}) 0", "RX(1+{}) 0", "RX(-{}) 0", "RX({}i) 0",
    "DEFGATE G:\n    {}, 0\n    0, 1", "DEFGATE G AS PERMUTATION:\n    {}, 0",
    "DEFWAVEFORM w:\n    {}, 1", "DEFFRAME 0 \"f\":\n    SAMPLE-RATE: {}", "SET-PHASE 0 \"f\" {}",
    "SET-FREQUENCY {} \"f\" 1.0", "DELAY 0 {}", "DELAY {}", "DELAY 0 \"f\" {}",
    "RAW-CAPTURE 0 \"f\" {} ro", "PRAGMA p {}", "PRAGMA p a {} b", "X {}", "MEASURE {} ro",
    "MEASURE 0 ro[{}]", "DECLARE ro BIT[{}]", "DECLARE ro REAL[1] SHARING b OFFSET {} BIT",
    "RESET {}", "FENCE {}", "PULSE {} \"f\" w", "PULSE 0 \"f\" w(a: {})", "JUMP-WHEN @a ro[{}]",
    "{}", "ro[{}]", "{} \"f\"", "CPHASE({}, {}) 0 1", "FORKED RX({}, {}) 0 1",
];

fn nested(kind: usize, depth: usize) -> String {
    match kind {
        0 => format!("RX({}1{}) 0", "(".repeat(depth), ")".repeat(depth)),
        1 => format!("RX({}1{}) 0", "sin(".repeat(depth), ")".repeat(depth)),
        2 => format!("RX({}1{}) 0", "-(".repeat(depth), ")".repeat(depth)),
        3 => format!("{}1{}", "(".repeat(depth), ")".repeat(depth)),
        4 => format!("RX(1{}) 0", "^1".repeat(depth)),
        5 => format!("RX(1{}) 0", "+1".repeat(depth)),
        6 => format!("RX(1{}) 0", "-(1".repeat(depth) + &")".repeat(depth)),
        7 => format!("SET-PHASE 0 \"f\" {}x{}", "cos(".repeat(depth), ")".repeat(depth)),
        8 => format!("{}X 0", "CONTROLLED ".repeat(depth)),
        9 => format!("X{}", " 0".repeat(depth)),
        10 => format!("DEFCAL X 0:{}", "\n    X 0".repeat(depth)),
        11 => format!("RX({}) 0", "1,".repeat(depth) + "1"),
        12 => format!("{}", "(".repeat(depth)),
        13 => format!("RX(2{}) 0", "*(3".repeat(depth) + &")".repeat(depth)),
        _ => format!("PRAGMA a{}", " b".repeat(depth)),
    }
}
const NEST_KINDS: usize = 15;

fn corpus() -> Vec<String> {
    let mut out = Vec::new();
    let dir = "/repo/quil-rs/tests/programs";
    if let Ok(rd) = std::fs::read_dir(dir) {
        let mut files: Vec<_> = rd.flatten().map(|e| e.path()).collect();
        files.sort();
        for f in files {
            if let Ok(s) = std::fs::read_to_string(&f) {
                out.push(s);
            }
        }
    }
    if let Ok(s) = std::fs::read_to_string("/repo/quil-rs/benches/sample-calibrations.quil") {
        // split into chunks at definition boundaries
        let mut cur = String::new();
        let mut n = 0;
        for line in s.lines() {
            if !line.starts_with(' ') && !line.starts_with('\t') && cur.len() > 600 {
                out.push(std::mem::take(&mut cur));
                n += 1;
                if n >= 60 {
                    break;
                }
            }
            cur.push_str(line);
            cur.push('\n');
        }
    }
    out
}

fn run(ctx: &mut Ctx) {
    let tier = ctx.tier;
    let mut idx = 0u64;

    // (a) exhaustive token sequences
    for len in 1..=3 {
        token_sequences(ctx, TOKENS, len, &mut idx);
    }
    if tier == Tier::Thorough {
        token_sequences(ctx, CORE_TOKENS, 4, &mut idx);
    }

    // (d) boundary battery: every position x literal x sign
    for pos in POSITIONS {
        for lit in BOUNDARY_LITERALS {
            for sign in ["", "-", "+", "--", "- "] {
                idx += 1;
                if !ctx.mine(idx) {
                    continue;
                }
                let input = pos.replace("{}", &format!("{sign}{lit}"));
                feed(ctx, &input, "workload:boundary-literal");
            }
        }
    }

    // (b) grammar programs, (c) mutants
    let mut rng = ctx.rng(1);
    let n_grammar = ctx.share(tier.pick(20_000, 400_000));
    for _ in 0..n_grammar {
        let text = {
            let mut g = TextGen::new(&mut rng);
            g.program(5)
        };
        feed(ctx, &text, "workload:grammar");
        if ctx.done() {
            break;
        }
    }
    let corpus = corpus();
    ctx.count_n("corpus-files", corpus.len() as u64);
    let n_mut = ctx.share(tier.pick(50_000, 2_000_000));
    for k in 0..n_mut {
        let base = if !corpus.is_empty() && k % 4 == 0 {
            let c = rng.pick(&corpus).clone();
            // take a window of the corpus file to keep cases small
            let lines: Vec<&str> = c.lines().collect();
            let start = rng.below(lines.len().max(1));
            let end = (start + 1 + rng.below(12)).min(lines.len());
            lines[start.min(end)..end].join("\n")
        } else {
            let mut g = TextGen::new(&mut rng);
            g.program(3)
        };
        let mutant = if rng.chance(1, 2) {
            mutate_bytes(&mut rng, &base)
        } else {
            mutate_tokens(&mut rng, &base)
        };
        feed(ctx, &mutant, "workload:mutant");
        if ctx.done() {
            break;
        }
    }

    // (e) nesting / size stress; each case may kill the process, the supervisor restarts after it
    ctx.checkpoint();
    let depths: &[usize] = match tier {
        // (error rendering in Instruction::from_str is quadratic in the input size, ~5 s at 20 000
        // levels, so the deepest cases are bounded to keep clear of the watchdog)
        Tier::Quick => &[10, 100, 127, 128, 129, 130, 1_000, 5_000],
        Tier::Thorough => &[10, 100, 127, 128, 129, 130, 1_000, 5_000, 10_000],
    };
    for kind in 0..NEST_KINDS {
        for &depth in depths {
            idx += 1;
            if !ctx.mine(idx) {
                continue;
            }
            // flat operator chains (kinds 4, 5) parse without error, so they are cheap: go 10x longer
            let input = nested(kind, if kind == 4 || kind == 5 { depth * 10 } else { depth });
            let before = ctx.evaluations;
            // Deeply nested inputs are parsed on a thread with a small (512 KiB) stack: recursion
            // that is not bounded by the parser's own nesting limit then exhausts the stack at a
            // few thousand levels (the process dies and the supervisor attributes it to this case),
            // while a parser that bounds its recursion needs only a few tens of KiB.
            std::thread::scope(|scope| {
                let handle = std::thread::Builder::new()
                    .stack_size(512 * 1024)
                    .spawn_scoped(scope, || feed(ctx, &input, "workload:nesting-stress"));
                match handle {
                    Ok(h) => {
                        let _ = h.join();
                    }
                    Err(_) => {}
                }
            });
            if ctx.evaluations > before {
                ctx.max(&format!("nesting-depth-returned:kind{kind}"), depth as u64);
            }
        }
    }
    // big flat programs (~1 MB)
    for (k, unit) in ["X 0\n", "MOVE ro[0] 1; ", "PULSE 0 \"rf\" flat(iq: 1, duration: 1e-6)\n"]
        .iter()
        .enumerate()
    {
        idx += 1;
        if !ctx.mine(idx) {
            continue;
        }
        let reps = tier.pick(20_000, 100_000);
        let input = unit.repeat(reps);
        feed(ctx, &input, "workload:large-program");
        ctx.max(&format!("large-program-bytes:{k}"), input.len() as u64);
    }
    if ctx.shard == 0 {
        ctx.sample("token-sequence", json!("MOVE ro -"));
        ctx.sample("boundary", json!(POSITIONS[0].replace("{}", "-9223372036854775808")));
        let mut r2 = ctx.global_rng(9);
        let mut g = TextGen::new(&mut r2);
        let p = g.program(4);
        ctx.sample("grammar-program", json!(clip(&p, 400)));
        let m = mutate_bytes(&mut r2, &p);
        ctx.sample("mutant", json!(clip(&m, 400)));
        ctx.sample("nesting", json!(clip(&nested(1, 1000), 60)));
    }
}

/// Auxiliary workload for an undefined-behaviour interpreter (Miri): a few hundred small inputs
/// through the same five entry points.  Not a registered check of its own; `./check C01 --tier
/// thorough` runs it under `cargo +nightly miri` when available and records the outcome in the
/// evidence as auxiliary information (Miri decides nothing about C01 by itself: quil-rs has no
/// unsafe code; this only shows that no invalid memory access happens in dependencies on these
/// inputs).
pub static INFO_MIRI: PropInfo = PropInfo {
    id: "C01M",
    run: run_miri,
    rule: "auxiliary Miri shard: ~300 small inputs (token sequences, boundary literals, grammar programs, mutants)",
    assumptions: &[],
    min_nontrivial: 1,
    ..DEFAULT
};

fn run_miri(ctx: &mut Ctx) {
    let budget = std::env::var("VERIF_MIRI_CASES").ok().and_then(|s| s.parse().ok()).unwrap_or(300usize);
    let mut rng = ctx.rng(77);
    let mut n = 0usize;
    // a slice of the token-pair space
    'outer: for a in TOKENS.iter().step_by(7) {
        for b in TOKENS.iter().step_by(11) {
            feed(ctx, &format!("{a} {b}"), "workload:miri-token-pair");
            n += 1;
            if n >= budget / 3 {
                break 'outer;
            }
        }
    }
    for pos in POSITIONS.iter().step_by(3) {
        for lit in BOUNDARY_LITERALS.iter().step_by(5) {
            feed(ctx, &pos.replace("{}", lit), "workload:miri-boundary");
            n += 1;
            if n >= 2 * budget / 3 {
                break;
            }
        }
    }
    while n < budget {
        let text = {
            let mut g = TextGen::new(&mut rng);
            g.program(2)
        };
        let text = if rng.chance(1, 2) { mutate_bytes(&mut rng, &text) } else { text };
        feed(ctx, &text, "workload:miri-grammar");
        n += 1;
    }
}
