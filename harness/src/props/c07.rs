//! C07 — every string value a program holds survives `to_quil` + `Program::from_str` unchanged.
//!
//! Direction 1 (AST): a string `v` is placed in one string-bearing position of an instruction built
//! through the public API; the program is printed and parsed back; the list of (position, value)
//! pairs found by the harness's own walker must be identical.  Direction 2 (text): a text with an
//! escaped spelling is parsed (P1), printed, parsed again (P2); strings(P1) == strings(P2).
//! Only strings are compared — other fields are kept plain so that nothing else can interfere.

use crate::core::{clip, guarded, Ctx, Rng};
use crate::model::ast_walk::strings_of;
use crate::props::{PropInfo, DEFAULT};
use indexmap::IndexMap;
use num_complex::Complex64;
use quil_rs::expression::Expression;
use quil_rs::instruction::*;
use quil_rs::quil::Quil;
use quil_rs::Program;
use serde_json::json;
use std::str::FromStr;

pub static INFO: PropInfo = PropInfo {
    id: "C07",
    run: run_prop,
    rule: "strings: every string of length <= 4 (thorough: <= 6) over the alphabet {\", \\, newline, space, #, ;, a, é} plus random strings of length <= 16 over a wider alphabet (tab, ', %, :, CR); positions: PRAGMA data, PRAGMA EXTERN data, INCLUDE filename, DEFFRAME frame name and string attribute, frame name of PULSE / CAPTURE / RAW-CAPTURE / SET-FREQUENCY / SET-PHASE / SET-SCALE / SHIFT-FREQUENCY / SHIFT-PHASE / SWAP-PHASES (both), DELAY frame names (one, two), and three nested positions (PULSE frame in a DEFCAL body, PRAGMA data in a DEFCIRCUIT body, SET-PHASE frame in a DEFCAL MEASURE body); each program optionally has a plain neighbour instruction before/after. Text direction: escaped spellings in 8 text templates. distinct = (position, string); non-trivial = the string contains at least one of quote, backslash, newline, #, ;, non-ASCII.",
    assumptions: &[
        "string positions are found by the harness's own walker over public fields; programs hold one string-bearing instruction so the order of definitions cannot matter",
        "in the text direction an input the parser rejects is not a case (the property is about values a program holds)",
    ],
    min_nontrivial: 2000,
    required_counters: &["position:Delay.frame_name", "position:Pragma.data", "position:FrameDefinition.attribute", "direction:text", "outcome:preserved"],
    ..DEFAULT
};

const ALPHABET: &[&str] = &["\"", "\\", "\n", " ", "#", ";", "a", "é"];
const WIDE: &[&str] = &["\"", "\\", "\n", " ", "#", ";", "a", "é", "\t", "'", "%", ":", "\r", "b", "0", "\\\"", "\\\\", "@", "(", ","];

fn num(v: f64) -> Expression {
    Expression::Number(Complex64::new(v, 0.0))
}
fn frame(name: &str) -> FrameIdentifier {
    FrameIdentifier::new(name.to_string(), vec![Qubit::Fixed(0)])
}
fn wf() -> WaveformInvocation {
    WaveformInvocation::new("flat".into(), IndexMap::new())
}
fn mref() -> MemoryReference {
    MemoryReference::new("ro".into(), 0)
}

pub const N_POSITIONS: usize = 20;

/// Build the instruction holding `v` at position `pos`.
fn place(pos: usize, v: &str) -> Instruction {
    let s = v.to_string();
    match pos {
        0 => Instruction::Pragma(Pragma::new("note".into(), vec![PragmaArgument::Identifier("arg".into()), PragmaArgument::Integer(3)], Some(s))),
        1 => Instruction::Pragma(Pragma::new("EXTERN".into(), vec![PragmaArgument::Identifier("fn_a".into())], Some(s))),
        2 => Instruction::Include(Include::new(s)),
        3 => {
            let mut a: IndexMap<String, AttributeValue> = IndexMap::new();
            a.insert("SAMPLE-RATE".into(), AttributeValue::Expression(num(1.5)));
            Instruction::FrameDefinition(FrameDefinition::new(frame(v), a))
        }
        4 => {
            let mut a: IndexMap<String, AttributeValue> = IndexMap::new();
            a.insert("DIRECTION".into(), AttributeValue::String(s));
            a.insert("SAMPLE-RATE".into(), AttributeValue::Expression(num(1.5)));
            Instruction::FrameDefinition(FrameDefinition::new(frame("rf"), a))
        }
        5 => Instruction::Pulse(Pulse::new(true, frame(v), wf())),
        6 => Instruction::Capture(Capture::new(false, frame(v), mref(), wf())),
        7 => Instruction::RawCapture(RawCapture::new(true, frame(v), num(1.5), mref())),
        8 => Instruction::SetFrequency(SetFrequency::new(frame(v), num(2.5))),
        9 => Instruction::SetPhase(SetPhase::new(frame(v), num(2.5))),
        10 => Instruction::SetScale(SetScale::new(frame(v), num(2.5))),
        11 => Instruction::ShiftFrequency(ShiftFrequency::new(frame(v), num(2.5))),
        12 => Instruction::ShiftPhase(ShiftPhase::new(frame(v), num(2.5))),
        13 => Instruction::SwapPhases(SwapPhases::new(frame(v), frame("other"))),
        14 => Instruction::SwapPhases(SwapPhases::new(frame("other"), frame(v))),
        15 => Instruction::Delay(Delay::new(num(1.5), vec![s], vec![Qubit::Fixed(0)])),
        16 => Instruction::Delay(Delay::new(num(1.5), vec!["first".into(), s], vec![Qubit::Fixed(0), Qubit::Fixed(1)])),
        17 => Instruction::CalibrationDefinition(CalibrationDefinition::new(
            CalibrationIdentifier { name: "X".into(), modifiers: vec![], parameters: vec![], qubits: vec![Qubit::Fixed(0)] },
            vec![Instruction::Pulse(Pulse::new(true, frame(v), wf())), Instruction::Nop()],
        )),
        18 => Instruction::CircuitDefinition(CircuitDefinition::new(
            "circ".into(),
            vec![],
            vec!["q".into()],
            vec![Instruction::Pragma(Pragma::new("note".into(), vec![], Some(s))), Instruction::Nop()],
        )),
        _ => Instruction::MeasureCalibrationDefinition(MeasureCalibrationDefinition::new(
            MeasureCalibrationIdentifier::new(None, Qubit::Fixed(0), Some("dest".into())),
            vec![Instruction::SetPhase(SetPhase::new(frame(v), num(2.5))), Instruction::Nop()],
        )),
    }
}

fn is_special(v: &str) -> bool {
    v.chars().any(|c| matches!(c, '"' | '\\' | '\n' | '#' | ';' | '\r') || !c.is_ascii())
}

fn all_strings(p: &Program) -> Vec<(String, String)> {
    p.to_instructions().iter().flat_map(strings_of).collect()
}

/// Signature: the position tag of the string that is not preserved (leaf tag, plus the container
/// for nested positions).
fn signature_for(tag: &str) -> String {
    match tag.rsplit_once('/') {
        Some((container, leaf)) => format!("string-not-preserved:{leaf}:nested-in-{}", container.trim_end_matches('/')),
        None => format!("string-not-preserved:{tag}"),
    }
}

fn check_ast(ctx: &mut Ctx, pos: usize, v: &str, neighbours: u8) {
    let instr = place(pos, v);
    let mut list = Vec::new();
    if neighbours & 1 != 0 {
        list.push(Instruction::Gate(Gate { name: "H".into(), parameters: vec![], qubits: vec![Qubit::Fixed(2)], modifiers: vec![] }));
    }
    list.push(instr.clone());
    if neighbours & 2 != 0 {
        list.push(Instruction::Move(Move::new(mref(), ArithmeticOperand::LiteralInteger(7))));
    }
    let tag = strings_of(&instr).into_iter().find(|(_, s)| s == v).map(|(t, _)| t).unwrap_or_else(|| "unknown".into());
    let desc = format!("position={tag} neighbours={neighbours} string={v:?}");
    if !ctx.begin(&desc) {
        return;
    }
    ctx.count("direction:ast");
    ctx.count(&format!("position:{}", tag.rsplit('/').next().unwrap_or(&tag)));
    if tag.contains('/') {
        ctx.count("position:nested");
    }
    if is_special(v) {
        ctx.nontrivial(&(tag.clone(), v.to_string()));
    }
    let built = match guarded(|| Program::from_instructions(list.clone())) {
        Ok(p) => p,
        Err(p) => {
            ctx.violation(&p.signature(), json!({"stage": "from_instructions", "panic": p.to_json()}));
            return;
        }
    };
    let expected = match guarded(|| all_strings(&built)) {
        Ok(e) => e,
        Err(p) => {
            ctx.violation(&p.signature(), json!({"stage": "to_instructions", "panic": p.to_json()}));
            return;
        }
    };
    let text = match guarded(|| built.to_quil()) {
        Ok(Ok(t)) => t,
        Ok(Err(e)) => {
            ctx.violation(&format!("to_quil-failed:{tag}"), json!({"error": format!("{e:?}")}));
            return;
        }
        Err(p) => {
            ctx.violation(&p.signature(), json!({"stage": "to_quil", "panic": p.to_json()}));
            return;
        }
    };
    match guarded(|| Program::from_str(&text).map(|q| all_strings(&q)).map_err(|e| e.to_string())) {
        Err(p) => ctx.violation(&p.signature(), json!({"stage": "from_str", "text": clip(&text, 400), "panic": p.to_json()})),
        Ok(Err(e)) => {
            ctx.count("outcome:reparse-failed");
            ctx.violation(&signature_for(&tag), json!({"what": "printed program does not parse", "string": v, "text": clip(&text, 400), "error": clip(&e, 300)}));
        }
        Ok(Ok(got)) => {
            if got == expected {
                ctx.count("outcome:preserved");
                if is_special(v) {
                    ctx.sample("preserved", json!({"position": tag, "string": v, "text": clip(&text, 200)}));
                }
            } else {
                ctx.count("outcome:changed");
                // first differing entry decides the position reported
                let k = (0..expected.len().max(got.len())).find(|&k| expected.get(k) != got.get(k)).unwrap_or(0);
                let t = expected.get(k).map(|(t, _)| t.clone()).unwrap_or(tag.clone());
                ctx.violation(
                    &signature_for(&t),
                    json!({"what": "string changed", "string": v, "text": clip(&text, 400), "built": expected, "reparsed": got}),
                );
            }
        }
    }
}

const TEXT_TEMPLATES: &[&str] = &[
    "PRAGMA note arg \"{}\"",
    "INCLUDE \"{}\"",
    "DEFFRAME 0 \"{}\":\n    DIRECTION: \"tx\"",
    "DEFFRAME 0 \"rf\":\n    DIRECTION: \"{}\"",
    "PULSE 0 \"{}\" flat",
    "SET-PHASE 0 \"{}\" 1.5",
    "SWAP-PHASES 0 \"a\" 1 \"{}\"",
    "DELAY 0 \"{}\" 1.5",
];
const SPELLING_PIECES: &[&str] = &["\\\"", "\\\\", "a", " ", "#", ";", "\n", "é", "\\a", "\\n", "'", "b"];

fn check_text(ctx: &mut Ctx, template: usize, spelling: &str) {
    let text = TEXT_TEMPLATES[template].replace("{}", spelling);
    let desc = format!("text-direction: {text}");
    if !ctx.begin(&desc) {
        return;
    }
    ctx.count("direction:text");
    let p1 = match guarded(|| Program::from_str(&text)) {
        Ok(Ok(p)) => p,
        Ok(Err(_)) => {
            ctx.count("text:rejected-by-parser");
            return;
        }
        Err(_) => {
            // a panic while parsing arbitrary text is C01's subject
            ctx.inconclusive("parser panicked on the input text (C01)");
            return;
        }
    };
    let s1 = match guarded(|| all_strings(&p1)) {
        Ok(s) => s,
        Err(p) => {
            ctx.violation(&p.signature(), json!({"stage": "to_instructions", "panic": p.to_json()}));
            return;
        }
    };
    if s1.iter().any(|(_, s)| is_special(s)) {
        ctx.nontrivial(&("text", text.clone()));
    }
    let tag = s1.first().map(|(t, _)| t.clone()).unwrap_or_else(|| "none".into());
    let t2 = match guarded(|| p1.to_quil()) {
        Ok(Ok(t)) => t,
        Ok(Err(e)) => {
            ctx.violation(&format!("to_quil-failed:{tag}"), json!({"error": format!("{e:?}")}));
            return;
        }
        Err(p) => {
            ctx.violation(&p.signature(), json!({"stage": "to_quil", "panic": p.to_json()}));
            return;
        }
    };
    match guarded(|| Program::from_str(&t2).map(|q| all_strings(&q)).map_err(|e| e.to_string())) {
        Err(p) => ctx.violation(&p.signature(), json!({"stage": "from_str", "panic": p.to_json()})),
        Ok(Err(e)) => ctx.violation(&signature_for(&tag), json!({"what": "printed program does not parse", "input": text, "printed": clip(&t2, 400), "error": clip(&e, 300)})),
        Ok(Ok(s2)) => {
            if s1 == s2 {
                ctx.count("outcome:preserved");
            } else {
                let k = (0..s1.len().max(s2.len())).find(|&k| s1.get(k) != s2.get(k)).unwrap_or(0);
                let t = s1.get(k).map(|(t, _)| t.clone()).unwrap_or(tag);
                ctx.violation(&signature_for(&t), json!({"what": "string changed", "input": text, "printed": clip(&t2, 400), "parsed": s1, "reparsed": s2}));
            }
        }
    }
}

fn random_string(rng: &mut Rng, max: usize) -> String {
    let n = rng.below(max + 1);
    (0..n).map(|_| *rng.pick(WIDE)).collect()
}

fn run_prop(ctx: &mut Ctx) {
    let tier = ctx.tier;
    let max_len = tier.pick(4usize, 6usize);
    let mut idx = 0u64;
    // exhaustive strings x positions
    for len in 0..=max_len {
        let total = ALPHABET.len().pow(len as u32);
        for code in 0..total {
            let mut c = code;
            let mut v = String::new();
            for _ in 0..len {
                v.push_str(ALPHABET[c % ALPHABET.len()]);
                c /= ALPHABET.len();
            }
            for pos in 0..N_POSITIONS {
                idx += 1;
                if !ctx.mine(idx) {
                    continue;
                }
                // neighbours: rotate through the four arrangements
                check_ast(ctx, pos, &v, (idx % 4) as u8);
                if ctx.done() {
                    return;
                }
            }
        }
    }
    // random longer strings
    let mut rng = ctx.rng(1);
    let n = ctx.share(tier.pick(400_000, 10_000_000));
    for _ in 0..n {
        let v = random_string(&mut rng, 16);
        let pos = rng.below(N_POSITIONS);
        let nb = rng.below(4) as u8;
        check_ast(ctx, pos, &v, nb);
        if ctx.done() {
            return;
        }
    }
    // text direction: exhaustive spellings of <= 3 pieces, then random
    for len in 0..=3usize {
        let total = SPELLING_PIECES.len().pow(len as u32);
        for code in 0..total {
            let mut c = code;
            let mut sp = String::new();
            for _ in 0..len {
                sp.push_str(SPELLING_PIECES[c % SPELLING_PIECES.len()]);
                c /= SPELLING_PIECES.len();
            }
            for t in 0..TEXT_TEMPLATES.len() {
                idx += 1;
                if !ctx.mine(idx) {
                    continue;
                }
                check_text(ctx, t, &sp);
                if ctx.done() {
                    return;
                }
            }
        }
    }
    let n = ctx.share(tier.pick(200_000, 5_000_000));
    for _ in 0..n {
        let k = rng.below(10);
        let sp: String = (0..k).map(|_| *rng.pick(SPELLING_PIECES)).collect();
        let t = rng.below(TEXT_TEMPLATES.len());
        check_text(ctx, t, &sp);
        if ctx.done() {
            return;
        }
    }
}
