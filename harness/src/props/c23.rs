//! C23 — memory accesses are sequentially consistent in the dependency graph.
//!
//! Two monitors.
//!
//! (a) **Queue level** (hook `verif_hooks::drive_memory_queue`): every access sequence up to a
//!     bounded length over {Read, Write, Capture} x {same node as the previous access, next node}
//!     is fed to the real private `DependencyQueue<MemoryAccessType>`.  Per step the reported
//!     dependency set must equal the sequential-consistency reference model (last writer, plus —
//!     for a write/capture — the readers since it) and the final pending set must match; in
//!     addition the *guarantee* itself (conflicting accesses ordered through the reported
//!     dependencies, no read-read ordering, only earlier accessors reported) is checked directly
//!     on the reported sets.
//!
//! (b) **Graph level**: for every scheduled block, with A(i) = the implementation's own
//!     `memory_accesses(i)` (the terminator is the block-end node):
//!       * for every pair i < j sharing a region that one of them writes or captures, j is
//!         reachable from i;
//!       * every `AwaitMemoryAccess(k)` edge i -> j is justified: some region is accessed by i with
//!         kind k and by j, and one of the two writes/captures it;
//!       * in particular a pair related only by read-read has no memory edge.

use crate::core::{guarded, Ctx};
use crate::gen::sched_prog::{
    decode_sequence, random_body, random_header, standard_header, BodyMix, Pool,
};
use crate::model::sched_model::{queue_guarantee, queue_model, reachability, Access, Dep};
use crate::props::sched_common::{run_graph_case, BlockObs, NodeObs};
use crate::props::{PropInfo, DEFAULT};
use quil_rs::program::scheduling::verif_hooks::drive_memory_queue;
use quil_rs::program::scheduling::{MemoryAccessType, ScheduledGraphNode};
use serde_json::json;
use std::collections::BTreeSet;

pub static INFO: PropInfo = PropInfo {
    id: "C23",
    run,
    rule: "(a) queue level: every sequence of 1..=7 (thorough: 1..=9) accesses over {Read, Write, Capture} x {same node, next node} driven through the real DependencyQueue<MemoryAccessType> via the cfg(rigetti_quil_rs_verif) hook; distinct = the sequence, non-trivial = sequence containing a write/capture and at least one other access by a different node. (b) graph level: every block of 1..=3 (thorough 1..=4) instructions over a 17-instruction memory alphabet (MOVE, ADD, NOT, NEG, EXCHANGE, CONVERT, LOAD, STORE, EQ, SET-PHASE / SHIFT-FREQUENCY / PULSE reading memory, CAPTURE and RAW-CAPTURE into memory) over regions r, s (+ index region t), each with no terminator and with three conditional-jump terminators; plus random multi-block programs of 1..=12 instructions. distinct = (program text, block); non-trivial = block with at least one pair of instructions that share a region one of them writes or captures.",
    assumptions: &[
        "\"touches a memory region\" is taken from DefaultHandler::memory_accesses (its correctness is C27's subject)",
        "\"depends (possibly transitively)\" is read as reachability in the block's dependency graph over edges of any kind; how often the path consists of memory edges only is counted",
        "the hook drives a fresh DependencyQueue exactly as ScheduledBasicBlock::build does (record_access_and_get_dependencies per access, then into_pending_dependencies)",
    ],
    exhaustive_quick: false,
    exhaustive_thorough: false,
    exhaustive_note: "the queue-level sequence space and the exhaustive memory-alphabet blocks are enumerated completely up to the stated lengths; random programs are sampled",
    min_nontrivial: 1000,
    required_counters: &[
        "queue:sequences",
        "queue:step:write-with-readers-drained",
        "graph:pair:write-then-read",
        "graph:pair:read-then-write",
        "graph:pair:write-then-write",
        "graph:pair:capture-then-read",
        "graph:pair:read-read-only",
        "graph:pair:involves-terminator",
        "graph:memory-edge-justified",
    ],
    ..DEFAULT
};

// ---------------------------------------------------------------------------------------------
// (a) queue level

const KINDS: [(&str, bool, u8); 3] = [("R", false, 0), ("W", true, 1), ("C", true, 2)];

fn kind_name(tag: u8) -> &'static str {
    match tag {
        0 => "read",
        1 => "write",
        _ => "capture",
    }
}

fn mat(tag: u8) -> MemoryAccessType {
    match tag {
        0 => MemoryAccessType::Read,
        1 => MemoryAccessType::Write,
        _ => MemoryAccessType::Capture,
    }
}

fn tag_of(t: MemoryAccessType) -> u8 {
    match t {
        MemoryAccessType::Read => 0,
        MemoryAccessType::Write => 1,
        MemoryAccessType::Capture => 2,
    }
}

fn node_id(n: ScheduledGraphNode) -> i64 {
    match n {
        ScheduledGraphNode::BlockStart => -1,
        ScheduledGraphNode::InstructionIndex(k) => k as i64,
        ScheduledGraphNode::BlockEnd => i64::MAX,
    }
}

/// Decode sequence number `code` of length `len`: first symbol in 0..3 (always a new node), the
/// others in 0..6 (kind x same/new node).  With `end_last`, the last node is the block-end node.
fn decode_accesses(len: usize, mut code: u64) -> Vec<Access> {
    let mut v: Vec<Access> = Vec::with_capacity(len);
    let mut node = 0i64;
    for k in 0..len {
        let (kind, same) = if k == 0 {
            let s = (code % 3) as usize;
            code /= 3;
            (s, false)
        } else {
            let s = (code % 6) as usize;
            code /= 6;
            (s % 3, s >= 3)
        };
        if k > 0 && !same {
            node += 1;
        }
        let (_, write, tag) = KINDS[kind];
        v.push(Access { node, write, tag });
    }
    v
}

fn describe(accesses: &[Access]) -> String {
    let parts: Vec<String> = accesses
        .iter()
        .map(|a| format!("{}{}", KINDS[a.tag as usize].0, a.node))
        .collect();
    format!("memory-queue: {}", parts.join(" "))
}

fn queue_case(ctx: &mut Ctx, accesses: &[Access]) {
    let input = describe(accesses);
    if !ctx.begin(&input) {
        return;
    }
    ctx.count("queue:sequences");
    let driven: Vec<(ScheduledGraphNode, MemoryAccessType)> = accesses
        .iter()
        .map(|a| (ScheduledGraphNode::InstructionIndex(a.node as usize), mat(a.tag)))
        .collect();
    let (steps, pending) = match guarded(|| drive_memory_queue(&driven)) {
        Ok(x) => x,
        Err(p) => {
            // the queue has no failure mode: a panic means no dependency set was reported at all
            ctx.violation(&format!("queue-memory:{}", p.signature()), json!({"panic": p.to_json()}));
            return;
        }
    };
    let (model_steps, model_pending) = queue_model(None, accesses, false);
    let to_set = |v: &Vec<(MemoryAccessType, ScheduledGraphNode)>| -> BTreeSet<Dep> {
        v.iter().map(|(t, n)| (tag_of(*t), node_id(*n))).collect()
    };
    if steps.len() != accesses.len() {
        ctx.violation("queue-memory:wrong-number-of-steps", json!({"steps": steps.len()}));
        return;
    }
    let mut reported_nodes: Vec<BTreeSet<i64>> = Vec::new();
    for (k, (got, want)) in steps.iter().zip(model_steps.iter()).enumerate() {
        let got_set = to_set(got);
        if got_set.len() != got.len() {
            ctx.violation("queue-memory:duplicate-dependency", json!({"step": k, "reported": format!("{got:?}")}));
        }
        reported_nodes.push(got_set.iter().map(|d| d.1).collect());
        let acc = kind_name(accesses[k].tag);
        if accesses[k].write && want.iter().any(|d| d.0 == 0) {
            ctx.count("queue:step:write-with-readers-drained");
        }
        for d in want.difference(&got_set) {
            ctx.violation(
                &format!("queue-memory:missing-{}-dependency-for-{acc}", kind_name(d.0)),
                json!({"step": k, "expected": format!("{want:?}"), "reported": format!("{got_set:?}")}),
            );
        }
        for d in got_set.difference(want) {
            ctx.violation(
                &format!("queue-memory:extra-{}-dependency-for-{acc}", kind_name(d.0)),
                json!({"step": k, "expected": format!("{want:?}"), "reported": format!("{got_set:?}")}),
            );
        }
    }
    let got_pending = to_set(&pending);
    for d in model_pending.difference(&got_pending) {
        ctx.violation(
            &format!("queue-memory:pending-missing-{}", kind_name(d.0)),
            json!({"expected": format!("{model_pending:?}"), "reported": format!("{got_pending:?}")}),
        );
    }
    for d in got_pending.difference(&model_pending) {
        ctx.violation(
            &format!("queue-memory:pending-extra-{}", kind_name(d.0)),
            json!({"expected": format!("{model_pending:?}"), "reported": format!("{got_pending:?}")}),
        );
    }
    if let Err(clause) = queue_guarantee(None, accesses, &reported_nodes) {
        ctx.violation(
            &format!("queue-memory:guarantee:{clause}"),
            json!({"reported": format!("{reported_nodes:?}")}),
        );
    }
    let distinct_nodes = accesses.iter().map(|a| a.node).collect::<BTreeSet<_>>().len();
    if accesses.iter().any(|a| a.write) && distinct_nodes >= 2 {
        ctx.nontrivial(&input);
    }
    ctx.max("queue:sequence-length", accesses.len() as u64);
}

// ---------------------------------------------------------------------------------------------
// (b) graph level

fn kinds_on(n: &NodeObs, region: &str) -> Vec<u8> {
    let mut v = Vec::new();
    if n.reads.contains(region) {
        v.push(0);
    }
    if n.writes.contains(region) {
        v.push(1);
    }
    if n.captures.contains(region) {
        v.push(2);
    }
    v
}

fn strongest(n: &NodeObs, region: &str) -> &'static str {
    if n.captures.contains(region) {
        "capture"
    } else if n.writes.contains(region) {
        "write"
    } else {
        "read"
    }
}

fn judge_graph(ctx: &mut Ctx, b: &BlockObs, key: &str) {
    let total = b.n + 2;
    let last = if b.terminator.is_some() { b.n + 1 } else { b.n };
    let all_edges: Vec<(usize, usize)> = b.edges.iter().map(|e| (e.from, e.to)).collect();
    let mem_edges: Vec<(usize, usize)> = b
        .edges
        .iter()
        .filter(|e| e.any_mem())
        .map(|e| (e.from, e.to))
        .collect();
    let reach = reachability(total, &all_edges);
    let reach_mem = reachability(total, &mem_edges);
    let mut conflicting_pairs = 0u64;
    for i in 1..=last {
        for j in (i + 1)..=last {
            let (Some(a), Some(c)) = (b.node(i), b.node(j)) else { continue };
            let shared: Vec<String> = a.regions().intersection(&c.regions()).cloned().collect();
            if shared.is_empty() {
                continue;
            }
            let conflict_region = shared.iter().find(|r| a.mutates(r) || c.mutates(r));
            match conflict_region {
                None => ctx.count("graph:pair:read-read-only"),
                Some(r) => {
                    conflicting_pairs += 1;
                    let pair = format!("{}-then-{}", strongest(a, r), strongest(c, r));
                    ctx.count(&format!("graph:pair:{pair}"));
                    if j == b.n + 1 {
                        ctx.count("graph:pair:involves-terminator");
                    }
                    if !reach[i][j] {
                        ctx.violation(
                            &format!("conflicting-accesses-not-ordered:{pair}"),
                            json!({"block": b.to_json(), "earlier": b.pos_name(i), "later": b.pos_name(j), "region": r}),
                        );
                    } else if reach_mem[i][j] {
                        ctx.count("graph:ordered-through-memory-edges-alone");
                    } else {
                        ctx.count("graph:ordered-only-with-help-of-frame-edges");
                    }
                }
            }
        }
    }
    for e in &b.edges {
        for (label, tag) in [(e.mem_read, 0u8), (e.mem_write, 1), (e.mem_capture, 2)] {
            if !label {
                continue;
            }
            let lname = kind_name(tag);
            if e.from == e.to {
                // a memory edge links a *pair* of instructions; an instruction never waits for itself
                ctx.violation(
                    &format!("memory-edge-from-an-instruction-to-itself:await-{lname}"),
                    json!({"block": b.to_json(), "node": b.pos_name(e.from)}),
                );
                continue;
            }
            let (Some(a), Some(c)) = (b.node(e.from), b.node(e.to)) else {
                ctx.violation(
                    &format!("memory-edge-at-node-without-instruction:await-{lname}"),
                    json!({"block": b.to_json(), "edge": format!("{}->{}", b.pos_name(e.from), b.pos_name(e.to))}),
                );
                continue;
            };
            let justified = a.regions().iter().any(|r| {
                kinds_on(a, r).contains(&tag)
                    && !kinds_on(c, r).is_empty()
                    && (tag != 0 || c.mutates(r))
            });
            if justified {
                ctx.count("graph:memory-edge-justified");
                continue;
            }
            let shared: Vec<String> = a.regions().intersection(&c.regions()).cloned().collect();
            let read_only_pair =
                !shared.is_empty() && shared.iter().all(|r| !a.mutates(r) && !c.mutates(r));
            let sig = if read_only_pair {
                format!("memory-edge-between-read-only-pair:await-{lname}")
            } else if shared.is_empty() {
                format!("memory-edge-without-shared-region:await-{lname}")
            } else {
                format!("memory-edge-kind-unjustified:await-{lname}")
            };
            ctx.violation(
                &sig,
                json!({"block": b.to_json(), "edge": format!("{}->{}", b.pos_name(e.from), b.pos_name(e.to))}),
            );
        }
    }
    if conflicting_pairs > 0 {
        ctx.nontrivial(key);
        ctx.sample("block-with-memory-conflicts", b.to_json());
    }
    ctx.max("graph:conflicting-pairs-per-block", conflicting_pairs);
}

fn run(ctx: &mut Ctx) {
    let tier = ctx.tier;
    let mut idx = 0u64;

    // (a)
    let max_len = tier.pick(7usize, 9usize);
    for len in 1..=max_len {
        let total = 3u64 * 6u64.pow(len as u32 - 1);
        for code in 0..total {
            idx += 1;
            if !ctx.mine(idx) {
                continue;
            }
            let accesses = decode_accesses(len, code);
            queue_case(ctx, &accesses);
            if ctx.done() {
                return;
            }
        }
    }
    if ctx.shard == 0 {
        ctx.sample("queue-sequence", json!(describe(&decode_accesses(6, 12345))));
    }

    // (b)
    let pool = match Pool::new() {
        Ok(p) => p,
        Err(e) => {
            ctx.inconclusive(&format!("generator: {e}"));
            return;
        }
    };
    let mut judge = |ctx: &mut Ctx, b: &BlockObs, key: &str| judge_graph(ctx, b, key);
    let header = standard_header(&pool);
    let max_block = tier.pick(3usize, 4usize);
    let mut terms: Vec<Option<usize>> = vec![None];
    terms.extend(pool.mem_terminators.iter().map(|t| Some(*t)));
    for len in 1..=max_block {
        let total = pool.alphabet_mem.len().pow(len as u32);
        for code in 0..total {
            for term in &terms {
                idx += 1;
                if !ctx.mine(idx) {
                    continue;
                }
                let mut case = header.clone();
                case.body = decode_sequence(&pool.alphabet_mem, len, code);
                if let Some(t) = term {
                    case.body.push(*t);
                }
                run_graph_case(ctx, &pool, &case, "workload:exhaustive-memory-blocks", &mut judge);
                if ctx.done() {
                    return;
                }
            }
        }
    }
    let mut rng = ctx.rng(1);
    let n = ctx.share(tier.pick(750_000, 6_000_000));
    for k in 0..n {
        let mut case = random_header(&pool, &mut rng, false, false);
        let mix = match k % 3 {
            0 => BodyMix { rf: 2, classical: 8, control: 1, gates: 0 },
            1 => BodyMix { rf: 5, classical: 5, control: 1, gates: 0 },
            _ => BodyMix { rf: 1, classical: 10, control: 0, gates: 0 },
        };
        case.body = random_body(&pool, &mut rng, 12, mix);
        if k % 4 == 0 {
            // end with a conditional jump so that the terminator takes part
            case.body.push(*rng.pick(&pool.mem_terminators));
        }
        run_graph_case(ctx, &pool, &case, "workload:random-programs", &mut judge);
        if ctx.done() {
            return;
        }
    }
}
